#!/usr/bin/env python3
"""Imports confirmed seeded changes: seedimport.py <srcdir> "<origin text>"  (run seedverify.py <srcdir> first).
Copies <srcdir>/<ID>/{patch.diff,demo_test.go,meta.json} to /verif/seeded/<ID>/ for every ID whose verify result is ok,
adding the confirmation record to meta.json."""
import json, os, shutil, subprocess, sys
src, origin = sys.argv[1], sys.argv[2]
vr = json.load(open(os.path.join(src, 'verify_results.json')))
head = subprocess.run(['git', '-C', '/repo', 'rev-parse', '--short', 'HEAD'], capture_output=True, text=True).stdout.strip()
for i, r in sorted(vr.items()):
    if not r.get('ok'):
        print(i, 'NOT imported:', {k: v for k, v in r.items() if k not in ('id',)}); continue
    dst = f'/verif/seeded/{i}'
    os.makedirs(dst, exist_ok=True)
    for f in ('patch.diff', 'demo_test.go'):
        shutil.copy(os.path.join(src, i, f), dst)
    meta = json.load(open(os.path.join(src, i, 'meta.json')))
    meta['id'] = i; meta['property'] = i[:3]
    meta['confirmed'] = {'repo_commit': head, 'how': 'seedverify.py in a scratch worktree: patch applies; go build (with and without -tags verif); all 158 baseline tests pass with the patch; demo test passes on the clean tree and fails with the patch',
                         'demo_run': f"copy demo_test.go into ./{r.get('pkgdir','.')} of a worktree, go test {r.get('tags','')} -vet=off -count=1 -run 'TestSeeded{i}$' ./{r.get('pkgdir','.')}"}
    meta['origin'] = origin
    json.dump(meta, open(os.path.join(dst, 'meta.json'), 'w'), indent=1)
    print(i, 'imported')
