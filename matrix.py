#!/usr/bin/env python3
"""Sensitivity matrix: runs the quick check of a property against (a) every confirmed seeded change in /verif/seeded,
(b) the tree with one fix commit reversed. Writes /verif/seeded/RESULTS.json. Usage: matrix.py [seeded|fixes|all] [ids...]"""
import json, os, re, subprocess, sys
os.chdir('/verif')
mode = sys.argv[1] if len(sys.argv) > 1 else 'all'
only = set(sys.argv[2:])
FIXES = [('90efd8b','C03','P1 layout bytes alias pooled buffer'), ('0c85171','C12','P2 raw Write filtered by MAX level'), ('bc74dc8','C12','P3 async Write enqueues caller slice'),
 ('dc33199','C01','P4 equal lower bounds get empty range'), ('0385022','C15','P5 nil deref for logger kinds without refs'), ('0385022','C01','P5'), ('371451a','C05','P6 rolling logger: no layout, inner async never started'),
 ('371451a','C01','P6'), ('4752105','C16','P7 unbound handle / stale bindings after Destroy'), ('1e10e30','C08','P8 GetFileLine W<3 panics'), ('dde5971','C07','P9 bare NaN/Inf in JSON'),
 ('41037af','C11','P10 FastCaller skip off by one'), ('b81be82','C14','P11 retention prefix-only match'), ('8c7546d','C17','P12a strconv.Unquote rejects \\/ and raw newlines'),
 ('f57f549','C17','P12b unbounded syntax-error accumulation'), ('d14f145','C15','P13 numeric attributes not range-checked'), ('62ce6b7','C01','P15 non-separating rolling logger ignores upper bound above MAX'),
 ('0123ed9','C13','P14a writer overtaken by two rotations loses its line'), ('6746979','C05','P14b rotation overtaken by the next one leaks a descriptor'),
 ('ac8c349','C14','P16 retention cut-off wraps for maxAge above 2562047 h')]
RELATED = {'C07': ['C03', 'C08'], 'C08': ['C07', 'C03'], 'C13': ['C19', 'C05', 'C20'], 'C05': ['C19', 'C13', 'C04'], 'C06': ['C03', 'C04', 'C12'], 'C04': ['C06', 'C05'], 'C03': ['C07', 'C20'], 'C10': ['C16', 'C01'], 'C12': ['C06', 'C04'], 'C19': ['C13', 'C05'], 'C20': ['C13', 'C14', 'C03'], 'C14': ['C20'], 'C01': ['C15', 'C02'], 'C02': ['C16', 'C01'], 'C15': ['C17', 'C01'], 'C16': ['C10', 'C02'], 'C17': ['C15'], 'C09': ['C07', 'C08'], 'C11': ['C10'], 'C18': ['C02']}

def run(src, pid):
    p = subprocess.run(['./mut.sh', src, pid], capture_output=True, text=True)
    keys = re.findall(r'^\s+key: (.*)$', p.stdout, re.M)
    m = re.search(r'mut rc=(\d+)', p.stdout)
    rc = int(m.group(1)) if m else -1
    wall = re.search(r'wall=([\d.]+)s', p.stdout)
    return {'rc': rc, 'caught': rc == 1 and len(keys) > 0, 'keys': keys[:12], 'wall_s': float(wall.group(1)) if wall else None}
try: res = json.load(open('seeded/RESULTS.json'))
except Exception: res = {'seeded': {}, 'fixes': {}}
if mode in ('seeded', 'all'):
    for d in sorted(os.listdir('seeded')):
        if not re.fullmatch(r'C\d\d[a-z]\d?', d): continue
        if only and d not in only and d[:3] not in only: continue
        meta = json.load(open(f'seeded/{d}/meta.json'))
        pid = meta['property']
        r = run(f'/verif/seeded/{d}/patch.diff', pid)
        if not r['caught']:
            # a change may violate its property only in circumstances that belong to a neighbouring property's
            # workload (e.g. concurrency, outages): record which other quick check flags it
            for other in RELATED.get(pid, []):
                r2 = run(f'/verif/seeded/{d}/patch.diff', other)
                if r2['caught']:
                    r['caught_by_other'] = other; r['other_keys'] = r2['keys'][:3]
                    break
        r['summary'] = meta.get('summary', '')[:300]; r['property'] = pid
        res['seeded'][d] = r
        print(d, pid, 'CAUGHT' if r['caught'] else ('MISSED by own check; caught by %s %s' % (r.get('caught_by_other'), r.get('other_keys')) if r.get('caught_by_other') else 'MISSED rc=%s' % r['rc']), r['keys'][:2], flush=True)
        json.dump(res, open('seeded/RESULTS.json', 'w'), indent=1)
if mode in ('fixes', 'all'):
    for c, pid, what in FIXES:
        if only and pid not in only and c not in only: continue
        r = run('rev:' + c, pid); r['what'] = what
        res['fixes'][f'{c}:{pid}'] = r
        print('rev', c, pid, 'CAUGHT' if r['caught'] else 'MISSED rc=%s' % r['rc'], r['keys'][:2], flush=True)
        json.dump(res, open('seeded/RESULTS.json', 'w'), indent=1)
st = subprocess.run(['git', '-C', '/repo', 'status', '--porcelain'], capture_output=True, text=True).stdout
print('repo status after matrix:', repr(st))
