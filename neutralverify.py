import json, os, subprocess, re, sys
ENV = dict(os.environ)
ENV['PATH'] = '/root/go/pkg/mod/golang.org/toolchain@v0.0.1-go1.25.0.linux-amd64/bin:' + ENV['PATH']
ENV.update(GOTOOLCHAIN='local', GOFLAGS='-mod=mod', GOPROXY='off', GOSUMDB='off')
src = sys.argv[1]
WT = '/tmp/wt/nverify'
base = json.load(open('/root/.vp/BASELINE.json'))['stable_pass']
def sh(cmd, cwd=None):
    p = subprocess.run(cmd, shell=True, cwd=cwd, env=ENV, capture_output=True, text=True, errors='replace', timeout=900)
    return p.returncode, p.stdout + p.stderr
subprocess.run(f'git -C /repo worktree remove --force {WT} 2>/dev/null; git -C /repo worktree add -q --detach {WT} HEAD', shell=True)
res = {}
for d in sorted(os.listdir(src)):
    if not re.fullmatch(r'C\d\dn\d', d): continue
    sh('git checkout -q -- . && git clean -fdq', WT)
    rc, out = sh(f'git apply {src}/{d}/patch.diff', WT)
    r = {'applies': rc == 0}
    if rc == 0:
        rc, out = sh('go build ./... && go build -tags verif ./...', WT); r['builds'] = rc == 0
        rc, out = sh('go test -json -vet=off -count=1 ./...', WT)
        passed = set()
        for l in out.splitlines():
            try: e = json.loads(l)
            except Exception: continue
            if e.get('Test') and e.get('Action') == 'pass': passed.add(e['Package'] + '::' + e['Test'])
        r['suite_ok'] = all(t in passed for t in base)
    r['ok'] = all(r.values())
    res[d] = r
    print(d, 'OK' if r['ok'] else r, flush=True)
sh('git checkout -q -- . && git clean -fdq', WT)
subprocess.run(f'git -C /repo worktree remove --force {WT}', shell=True)
json.dump(res, open(f'{src}/verify_results.json', 'w'), indent=1)
