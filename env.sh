# sourced by every script: offline Go toolchain (go1.25.0, the version the baseline suite runs on)
export PATH=/root/go/pkg/mod/golang.org/toolchain@v0.0.1-go1.25.0.linux-amd64/bin:$PATH
export GOTOOLCHAIN=local GOFLAGS=-mod=mod GOPROXY=off GOSUMDB=off GONOSUMDB='*' GONOSUMCHECK=1
export CGO_ENABLED=1
if ! command -v go >/dev/null || ! go version 2>/dev/null | grep -q 'go1\.2[5-9]'; then
  # fall-back toolchain (newer Go, also pre-installed)
  export PATH=/opt/veriftools/go1.26.8/bin:$PATH
fi
