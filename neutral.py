#!/usr/bin/env python3
"""False-alarm test: applies behaviour-preserving refactorings (written by independent sub-agents) to /repo and runs
quick checks; any VIOLATION is a false alarm to investigate (or a refactoring that is not neutral after all).
Usage: neutral.py <dir with <id>/patch.diff> [all|own] [ids...]"""
import json, os, re, subprocess, sys
os.chdir('/verif')
src=sys.argv[1]; scope=sys.argv[2] if len(sys.argv)>2 else 'own'; only=set(sys.argv[3:])
ALL=[f'C{i:02d}' for i in range(1,21)]
RELATED={'C01':['C02','C15','C10','C12'],'C02':['C01','C16','C15'],'C03':['C07','C08','C20','C01'],'C04':['C06','C05','C12'],'C05':['C04','C06','C13','C19','C16'],'C06':['C04','C05','C12'],
 'C07':['C08','C09','C03'],'C08':['C07','C09','C03'],'C09':['C07','C08'],'C10':['C01','C11','C16'],'C11':['C10','C01'],'C12':['C06','C04','C01','C16'],'C13':['C05','C19','C20','C14','C03'],
 'C14':['C13','C20','C19'],'C15':['C01','C02','C17','C16'],'C16':['C02','C10','C12','C15','C05'],'C17':['C15'],'C18':['C02','C16'],'C19':['C13','C05','C20','C14'],'C20':['C13','C03','C19','C05']}
try: res=json.load(open('/verif/seeded/NEUTRAL.json'))
except Exception: res={}
for d in sorted(os.listdir(src)):
    if not re.fullmatch(r'C\d\dn\d', d): continue
    if only and d not in only and d[:3] not in only: continue
    pid=d[:3]
    checks=ALL if scope=='all' else [pid]+RELATED.get(pid,[])
    r={'property':pid,'checks':{}, 'alarms':[]}
    try: r['summary']=json.load(open(f'{src}/{d}/meta.json')).get('summary','')[:300]
    except Exception: pass
    for c in checks:
        p=subprocess.run(['./mut.sh',f'{src}/{d}/patch.diff',c],capture_output=True,text=True)
        m=re.search(r'mut rc=(\d+)',p.stdout); rc=int(m.group(1)) if m else -1
        keys=re.findall(r'^\s+key: (.*)$',p.stdout,re.M)
        r['checks'][c]=rc
        if rc!=0:
            r['alarms'].append({'check':c,'rc':rc,'keys':keys[:5],'tail':p.stdout[-1500:]})
    res[d]=r
    print(d,'SILENT' if not r['alarms'] else 'ALARM '+str([(a['check'],a['rc'],a['keys'][:2]) for a in r['alarms']]),flush=True)
    json.dump(res,open('/verif/seeded/NEUTRAL.json','w'),indent=1)
print('repo status:',repr(subprocess.run(['git','-C','/repo','status','--porcelain'],capture_output=True,text=True).stdout))
