#!/usr/bin/env python3
"""Confirms each sub-agent seeded change in a scratch worktree of /repo HEAD:
patch applies, builds, existing suite passes (all BASELINE stable_pass tests), demo fails with the patch and passes without.
Usage: seedverify.py <srcdir containing <ID>/patch.diff,demo_test.go,meta.json> [ids...]"""
import json, os, subprocess, sys, shutil, re
ENV = dict(os.environ)
ENV['PATH'] = '/root/go/pkg/mod/golang.org/toolchain@v0.0.1-go1.25.0.linux-amd64/bin:' + ENV['PATH']
ENV.update(GOTOOLCHAIN='local', GOFLAGS='-mod=mod', GOPROXY='off', GOSUMDB='off')
src = sys.argv[1]
ids = sys.argv[2:] or sorted(d for d in os.listdir(src) if re.fullmatch(r'C\d\d[a-z]\d?', d))
WT = '/tmp/wt/verify'
def sh(cmd, cwd=None, timeout=900):
    p = subprocess.run(cmd, shell=True, cwd=cwd, env=ENV, capture_output=True, text=True, errors='replace', timeout=timeout)
    return p.returncode, p.stdout + p.stderr
base = json.load(open('/root/.vp/BASELINE.json'))['stable_pass']
subprocess.run(f'git -C /repo worktree remove --force {WT} 2>/dev/null; git -C /repo worktree add -q --detach {WT} HEAD', shell=True)
try: results = json.load(open(os.path.join(src, 'verify_results.json')))
except Exception: results = {}
for i in ids:
    d = os.path.join(src, i)
    meta = json.load(open(os.path.join(d, 'meta.json')))
    cmd = meta.get('demo_cmd', '')
    tags = '-tags verif' if '-tags verif' in cmd else ''
    demo_src = open(os.path.join(d, 'demo_test.go')).read()
    pkgdir = 'expr' if ('./expr' in cmd or '/expr/' in cmd or re.search(r'^package expr\b', demo_src, re.M)) else '.'
    r = {'id': i}
    sh('git checkout -q -- . && git clean -fdq', WT)
    rc, out = sh(f'git apply --check {d}/patch.diff', WT)
    r['applies'] = rc == 0
    if rc != 0:
        r['error'] = out[-300:]; results[i] = r; print(i, r); continue
    demo_dst = os.path.join(WT, pkgdir, f'seeded_{i.lower()}_demo_test.go')
    # 1. demo on clean tree
    shutil.copy(os.path.join(d, 'demo_test.go'), demo_dst)
    rc, out = sh(f'go test {tags} -vet=off -count=1 -run "TestSeeded{i}$" ./{pkgdir}', WT)
    r['demo_passes_clean'] = rc == 0 and 'no tests to run' not in out
    os.remove(demo_dst)
    # 2. with patch: build + suite + demo
    sh(f'git apply {d}/patch.diff', WT)
    rc, out = sh('go build ./... && go build -tags verif ./...', WT)
    r['builds'] = rc == 0
    rc, out = sh('go test -json -vet=off -count=1 ./...', WT)
    passed = set()
    for l in out.splitlines():
        try: e = json.loads(l)
        except Exception: continue
        if e.get('Test') and e.get('Action') == 'pass': passed.add(e['Package'] + '::' + e['Test'])
    missing = [t for t in base if t not in passed]
    r['suite_ok'] = not missing
    if missing: r['suite_missing'] = missing[:5]
    shutil.copy(os.path.join(d, 'demo_test.go'), demo_dst)
    rc, out = sh(f'go test {tags} -vet=off -count=1 -run "TestSeeded{i}$" ./{pkgdir}', WT)
    r['demo_fails_patched'] = rc != 0
    os.remove(demo_dst)
    r['ok'] = all([r['applies'], r['demo_passes_clean'], r['builds'], r['suite_ok'], r['demo_fails_patched']])
    r['tags'] = tags; r['pkgdir'] = pkgdir
    results[i] = r
    json.dump(results, open(os.path.join(src, 'verify_results.json'), 'w'), indent=1)
    print(i, 'OK' if r['ok'] else r, flush=True)
sh('git checkout -q -- . && git clean -fdq', WT)
subprocess.run(f'git -C /repo worktree remove --force {WT}', shell=True)
json.dump(results, open(os.path.join(src, 'verify_results.json'), 'w'), indent=1)
