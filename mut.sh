#!/bin/bash
# usage: mut.sh <patchfile | rev:<commit>> <ID> [more check args]   — applies a change to /repo, runs ./check ID, restores /repo
cd "$(dirname "$(readlink -f "$0")")"
src="$1"; shift
if [ -n "$(git -C /repo status --porcelain --untracked-files=no)" ]; then echo "repo dirty"; exit 9; fi
case "$src" in
  rev:*) git -C /repo show "${src#rev:}" -- . ':!*_test.go' | git -C /repo apply -R || { echo "cannot reverse"; exit 9; } ;;
  *) git -C /repo apply "$src" || { echo "cannot apply"; exit 9; } ;;
esac
./check "$@"; rc=$?
git -C /repo checkout -- . ; git -C /repo clean -fdq
echo "mut rc=$rc"
exit $rc
