#!/bin/bash
# usage: mut.sh <patchfile | rev:<commit>> <ID> [more check args]   — applies a change to /repo, runs ./check ID, restores /repo
cd "$(dirname "$(readlink -f "$0")")"
src="$1"; shift
if [ -n "$(git -C /repo status --porcelain --untracked-files=no)" ]; then echo "repo dirty"; exit 9; fi
case "$src" in
  rev:*) git -C /repo show "${src#rev:}" -- . ':!*_test.go' | git -C /repo apply -R || { echo "cannot reverse"; exit 9; } ;;
  *) git -C /repo apply "$src" || { echo "cannot apply"; exit 9; } ;;
esac
ev="evidence/$1.json"; bak=""
if [ -f "$ev" ]; then bak=$(mktemp out/evbak.XXXXXX); cp "$ev" "$bak"; fi   # evidence of mutant runs must never be committed
./check "$@"; rc=$?
if [ -n "$bak" ]; then mv -f "$bak" "$ev"; fi
git -C /repo checkout -- . ; git -C /repo clean -fdq
echo "mut rc=$rc"
exit $rc
