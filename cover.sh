#!/bin/bash
# Statement coverage of github.com/go-spring/log[/expr] reached by the registered checks (quick tier by default).
# Not a check: a measurement that shows which library statements no workload drives (a monitor says nothing about
# code it never reaches). Usage: ./cover.sh [quick|thorough] [ids...]   -> out/cover/{func.txt,uncovered.txt,summary.txt}
cd "$(dirname "$(readlink -f "$0")")" || exit 3
export VERIF_DIR="$(pwd)"
. ./env.sh
tier=${1:-quick}; shift
ids=${@:-C01 C02 C03 C04 C05 C06 C07 C08 C09 C10 C11 C12 C13 C14 C15 C16 C17 C18 C19 C20}
mkdir -p build out
rm -rf out/cover; mkdir -p out/cover/all
(cd harness && go build -tags verif -cover -covermode=atomic -coverpkg=github.com/go-spring/log/...,verifharness -o ../build/vh-cover .) || exit 3
export VERIF_COVER=1 VERIF_NOEVIDENCE=1
for id in $ids; do
  mkdir -p out/cover/$id
  GOCOVERDIR="$VERIF_DIR/out/cover/$id" build/vh-cover check $id --tier $tier > out/cover/$id.log 2>&1
  echo "$id rc=$? $(grep -E "^$id tier" out/cover/$id.log | cut -c1-120)"
  go tool covdata textfmt -i=out/cover/$id -o=out/cover/$id.txt 2>/dev/null
  pct=$(go tool covdata percent -i=out/cover/$id 2>/dev/null | grep go-spring | tr '\n' ' ')
  echo "   $pct"
  echo "$id $pct" >> out/cover/summary.txt
done
dirs=$(ls -d out/cover/C??  | tr '\n' ',' | sed 's/,$//')
go tool covdata textfmt -i=$dirs -pkg=github.com/go-spring/log,github.com/go-spring/log/expr -o=out/cover/all.txt
(cd /repo && go tool cover -func="$VERIF_DIR/out/cover/all.txt") > out/cover/func.txt
echo "ALL $(go tool covdata percent -i=$dirs | grep go-spring | tr '\n' ' ')" | tee -a out/cover/summary.txt
# statements never reached by any check, generated parser code excluded
awk 'NR>1 && $NF==0 {print $1}' out/cover/all.txt | grep -v 'expr/expr_\|expr/antlr' | sort -u > out/cover/uncovered.txt
echo "uncovered blocks (hand-written code): $(wc -l < out/cover/uncovered.txt)  -> out/cover/uncovered.txt"
tail -1 out/cover/func.txt
