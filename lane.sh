#!/bin/bash
# private lane for experiments: lane.sh <name> <patch.diff|-> <check-id> [args...]   (scratch worktree of /repo HEAD + copy of /verif under /tmp/lanes/<name>; kept until 'lane.sh <name> rm')
set -e
L=/tmp/lanes/$1; P=$2; ID=$3; shift 3 || true
if [ "$P" = "rm" ]; then git -C /repo worktree remove --force $L/repo 2>/dev/null || true; rm -rf $L; exit 0; fi
if [ ! -d $L/repo ]; then
  mkdir -p $L; git -C /repo worktree add -q --detach $L/repo HEAD
fi
git -C $L/repo checkout -q -- . && git -C $L/repo clean -fdq
git -C $L/repo checkout -q --detach "$(git -C /repo rev-parse HEAD)"   # always the current /repo HEAD
[ "$P" != "-" ] && git -C $L/repo apply "$P"
rsync -a --delete --exclude out --exclude build --exclude .git --exclude seeded --exclude mutsweep/results.jsonl /verif/ $L/verif/
sed -i "s|=> /repo|=> $L/repo|" $L/verif/harness/go.mod
cd $L/verif && VERIF_DIR=$L/verif VERIF_NOEVIDENCE=1 ./check $ID "$@"
