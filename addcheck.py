#!/usr/bin/env python3
# usage: addcheck.py ID category "technique" "text" "note"   -> records the check in manifest_extra.json and regenerates MANIFEST.json
import json,sys,subprocess
p='/verif/manifest_extra.json'
try: e=json.load(open(p))
except Exception: e={"built":{},"na":{}}
i,cat,tech,text,note=sys.argv[1:6]
e["built"][i]=[cat,tech,text,note,f"DESIGN.md §5 {i}"]
json.dump(e,open(p,'w'),indent=1)
subprocess.call(['python3-vt','/verif/mkmanifest.py'])
