#!/usr/bin/env python3
"""Sensitivity matrix in private lanes (like matrix.py, but never touches /repo, so it can run next to other work):
each lane = scratch git worktree of /repo HEAD + private copy of /verif under /tmp/matlanes (removed at the end).
For every seeded change: apply patch in the lane, run the quick check of its property; if that stays silent run the
related checks; record in seeded/RESULTS.json (same format as matrix.py).
For neutral (behaviour-preserving) changes (--neutral <dir>): run own + related checks, any alarm is recorded in seeded/NEUTRAL.json.
Usage: lanematrix.py [--lanes N] [--neutral DIR] [--all-checks] [ids or id-prefixes ...]"""
import argparse, json, os, re, subprocess, sys, threading, time
VERIF = os.path.dirname(os.path.abspath(__file__))
ENV = dict(os.environ)
ENV['PATH'] = '/root/go/pkg/mod/golang.org/toolchain@v0.0.1-go1.25.0.linux-amd64/bin:' + ENV['PATH']
ENV.update(GOTOOLCHAIN='local', GOFLAGS='-mod=mod', GOPROXY='off', GOSUMDB='off', VERIF_NOEVIDENCE='1')
ALL = ['C%02d' % i for i in range(1, 21)]
RELATED = {'C01': ['C15', 'C02', 'C12', 'C10', 'C04', 'C19'], 'C02': ['C16', 'C01', 'C15'], 'C03': ['C07', 'C20', 'C08', 'C01'], 'C04': ['C06', 'C05', 'C12', 'C01'], 'C05': ['C19', 'C13', 'C04', 'C06', 'C16'],
           'C06': ['C03', 'C04', 'C12', 'C05'], 'C07': ['C03', 'C08', 'C09'], 'C08': ['C07', 'C03', 'C09'], 'C09': ['C07', 'C08', 'C03'], 'C10': ['C16', 'C01', 'C11'], 'C11': ['C10', 'C08', 'C01'],
           'C12': ['C06', 'C04', 'C01', 'C16'], 'C13': ['C19', 'C05', 'C20', 'C14', 'C03'], 'C14': ['C20', 'C13', 'C19'], 'C15': ['C17', 'C01', 'C02', 'C16'], 'C16': ['C10', 'C02', 'C12', 'C15', 'C05'],
           'C17': ['C15'], 'C18': ['C02', 'C16'], 'C19': ['C13', 'C05', 'C20', 'C14'], 'C20': ['C13', 'C14', 'C03', 'C19', 'C05']}
ap = argparse.ArgumentParser()
ap.add_argument('--lanes', type=int, default=3)
ap.add_argument('--neutral', default='')
ap.add_argument('--all-checks', action='store_true')
ap.add_argument('--laneroot', default='/tmp/matlanes')
ap.add_argument('ids', nargs='*')
args = ap.parse_args()

def sh(cmd, cwd=None, timeout=2400, env=ENV):
    try:
        p = subprocess.run(cmd, shell=True, cwd=cwd, env=env, capture_output=True, text=True, errors='replace', timeout=timeout)
        return p.returncode, p.stdout + p.stderr
    except subprocess.TimeoutExpired:
        return 124, 'TIMEOUT'

src = args.neutral or os.path.join(VERIF, 'seeded')
pat = r'C\d\dn\d' if args.neutral else r'C\d\d[a-z]\d?'
ids = sorted(d for d in os.listdir(src) if re.fullmatch(pat, d) and os.path.exists(os.path.join(src, d, 'patch.diff')))
if args.ids:
    ids = [d for d in ids if any(d == x or d.startswith(x) for x in args.ids)]
resfile = os.path.join(VERIF, 'seeded', 'NEUTRAL.json' if args.neutral else 'RESULTS.json')
try: res = json.load(open(resfile))
except Exception: res = {} if args.neutral else {'seeded': {}, 'fixes': {}}
lock = threading.Lock()
queue = list(ids)
print('%d changes on %d lanes' % (len(ids), args.lanes), flush=True)

def save(update):
    # several lanematrix processes may run at once: re-read, update one entry, write back, under a file lock
    import fcntl
    with open(resfile + '.lock', 'w') as lf:
        fcntl.flock(lf, fcntl.LOCK_EX)
        try: cur = json.load(open(resfile))
        except Exception: cur = {} if args.neutral else {'seeded': {}, 'fixes': {}}
        update(cur)
        json.dump(cur, open(resfile + '.tmp', 'w'), indent=1)
        os.replace(resfile + '.tmp', resfile)

def run_check(verif, env, cid):
    rc, out = sh('./check %s --tier quick' % cid, verif, env=env)
    keys = re.findall(r'^\s+key: (.*)$', out, re.M)
    wall = re.search(r'wall=([\d.]+)s', out)
    return {'rc': rc, 'caught': rc == 1 and len(keys) > 0, 'keys': keys[:12], 'wall_s': float(wall.group(1)) if wall else None, 'tail': out[-1500:]}

def lane(i):
    root = '%s/l%d' % (args.laneroot, i)
    repo, verif = root + '/repo', root + '/verif'
    subprocess.run('git -C /repo worktree remove --force %s 2>/dev/null; rm -rf %s; mkdir -p %s; git -C /repo worktree add -q --detach %s HEAD' % (repo, root, root, repo), shell=True)
    subprocess.run("rsync -a --exclude out --exclude build --exclude .git --exclude seeded --exclude mutsweep/results.jsonl %s/ %s/" % (VERIF, verif), shell=True)
    gm = open(verif + '/harness/go.mod').read().replace('=> /repo', '=> ' + repo)
    open(verif + '/harness/go.mod', 'w').write(gm)
    env = dict(ENV); env['VERIF_DIR'] = verif
    while True:
        with lock:
            if not queue: break
            d = queue.pop(0)
        sh('git checkout -q -- . && git clean -fdq', repo)
        rc, out = sh('git apply %s' % os.path.join(src, d, 'patch.diff'), repo)
        if rc != 0:
            print(d, 'PATCH DOES NOT APPLY', out[-200:], flush=True); continue
        try: meta = json.load(open(os.path.join(src, d, 'meta.json')))
        except Exception: meta = {}
        pid = d[:3]
        if args.neutral:
            checks = ALL if args.all_checks else [pid] + RELATED.get(pid, [])
            r = {'property': pid, 'checks': {}, 'alarms': [], 'summary': meta.get('summary', '')[:300]}
            for c in checks:
                x = run_check(verif, env, c)
                r['checks'][c] = x['rc']
                if x['rc'] != 0:
                    r['alarms'].append({'check': c, 'rc': x['rc'], 'keys': x['keys'][:5], 'tail': x['tail']})
            with lock:
                res[d] = r
                save(lambda cur: cur.__setitem__(d, r))
                print(d, 'SILENT' if not r['alarms'] else 'ALARM ' + str([(a['check'], a['rc'], a['keys'][:2]) for a in r['alarms']]), flush=True)
        else:
            r = run_check(verif, env, pid); r.pop('tail')
            if not r['caught']:
                for other in (ALL if args.all_checks else RELATED.get(pid, [])):
                    if other == pid: continue
                    r2 = run_check(verif, env, other)
                    if r2['caught']:
                        r['caught_by_other'] = other; r['other_keys'] = r2['keys'][:3]
                        break
            r['summary'] = meta.get('summary', '')[:300]; r['property'] = pid
            with lock:
                res['seeded'][d] = r
                save(lambda cur: cur.setdefault('seeded', {}).__setitem__(d, r))
                print(d, pid, 'CAUGHT' if r['caught'] else ('MISSED by own check; caught by %s %s' % (r.get('caught_by_other'), r.get('other_keys')) if r.get('caught_by_other') else 'MISSED rc=%s' % r['rc']), r['keys'][:2], flush=True)
    sh('git checkout -q -- . && git clean -fdq', repo)
    subprocess.run('git -C /repo worktree remove --force %s; rm -rf %s' % (repo, root), shell=True)

ths = [threading.Thread(target=lane, args=(i,)) for i in range(args.lanes)]
for t in ths: t.start()
for t in ths: t.join()
