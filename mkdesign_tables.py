#!/usr/bin/env python3
"""Regenerates the two result tables of DESIGN.md §9 from seeded/RESULTS.json (between HTML comment markers)."""
import json, re, os
res=json.load(open('/verif/seeded/RESULTS.json'))
rows=[]
for k in sorted(res['seeded']):
    if not os.path.isdir(f'/verif/seeded/{k}'): continue
    r=res['seeded'][k]
    summ=r['summary'].replace('|','/').replace('\n',' ')
    if len(summ)>170: summ=summ[:170]+'…'
    rows.append(f"| {k} | {r['property']} | {summ} | {'yes' if r['caught'] else ('by '+r['caught_by_other'] if r.get('caught_by_other') else 'NO')} | `{'`, `'.join((r['keys'] or r.get('other_keys') or [])[:2])}` |")
seeded="| id | prop | change (sub-agent's summary) | caught by the quick check | first keys |\n|---|---|---|---|---|\n"+"\n".join(rows)
frows=[]
for k,r in res['fixes'].items():
    c,pid=k.split(':')
    frows.append(f"| {c} | {pid} | {r['what']} | {'yes' if r['caught'] else 'NO'} | `{'`, `'.join(r['keys'][:2])}` |")
fixes="| fix commit | property | what failed before the fix | quick check flags the pre-fix tree | first keys |\n|---|---|---|---|---|\n"+"\n".join(frows)
p='/verif/DESIGN.md'; s=open(p).read()
def rep(s,name,body):
    a,b=f'<!-- {name} -->',f'<!-- /{name} -->'
    i,j=s.index(a),s.index(b)
    return s[:i+len(a)]+'\n'+body+'\n'+s[j:]
s=rep(s,'FIXTABLE',fixes); s=rep(s,'SEEDTABLE',seeded)
open(p,'w').write(s)
print(len(rows),'seeded rows',len(frows),'fix rows')
