#!/usr/bin/env python3
"""Regenerates the two result tables of DESIGN.md §9 from seeded/RESULTS.json (between HTML comment markers)."""
import json, re, os
res=json.load(open('/verif/seeded/RESULTS.json'))
rows=[]
for k in sorted(res['seeded']):
    if not os.path.isdir(f'/verif/seeded/{k}'): continue
    r=res['seeded'][k]
    summ=r['summary'].replace('|','/').replace('\n',' ')
    if len(summ)>170: summ=summ[:170]+'…'
    rows.append(f"| {k} | {r['property']} | {summ} | {'yes' if r['caught'] else ('by '+r['caught_by_other'] if r.get('caught_by_other') else 'NO')} | `{'`, `'.join((r['keys'] or r.get('other_keys') or [])[:2])}` |")
seeded="| id | prop | change (sub-agent's summary) | caught by the quick check | first keys |\n|---|---|---|---|---|\n"+"\n".join(rows)
frows=[]
for k,r in res['fixes'].items():
    c,pid=k.split(':')
    frows.append(f"| {c} | {pid} | {r['what']} | {'yes' if r['caught'] else 'NO'} | `{'`, `'.join(r['keys'][:2])}` |")
fixes="| fix commit | property | what failed before the fix | quick check flags the pre-fix tree | first keys |\n|---|---|---|---|---|\n"+"\n".join(frows)
p='/verif/DESIGN.md'; s=open(p).read()
def rep(s,name,body):
    a,b=f'<!-- {name} -->',f'<!-- /{name} -->'
    i,j=s.index(a),s.index(b)
    return s[:i+len(a)]+'\n'+body+'\n'+s[j:]
s=rep(s,'FIXTABLE',fixes); s=rep(s,'SEEDTABLE',seeded)
# per-round summary (final state)
rounds={'1 (a,b)':'ab','2 (c,d)':'cd','3 (e,f)':'ef','4 (g,h)':'gh','5 (i,j)':'ij','6 (k,l)':'kl','7 (m,n)':'mn','8 (o,p,q)':'opq','9 (r,s)':'rs','10 (t,u)':'tu','11 (v,w)':'vw','12 (x,y)':'xy','13 (z,z2)':'z'}
lines=[]
for name,letters in rounds.items():
    ks=[k for k in res['seeded'] if k[3] in letters and os.path.isdir(f'/verif/seeded/{k}')]
    own=sum(1 for k in ks if res['seeded'][k]['caught']); oth=sum(1 for k in ks if not res['seeded'][k]['caught'] and res['seeded'][k].get('caught_by_other'))
    lines.append(f"round {name}: {len(ks)} kept, {own} caught by the own quick check, {oth} only by a neighbouring check, {len(ks)-own-oth} missed")
s=rep(s,'ROUNDSUMMARY',"Final state of the matrix (quick tier, current checks): "+"; ".join(lines)+".")
# mutation sweep summary
import collections
try:
    cnt=collections.Counter(); by=collections.Counter(); n=0
    for l in open('/verif/mutsweep/results.jsonl'):
        r=json.loads(l); n+=1; o=r['outcome']; cnt[o.split(':')[0]]+=1
        if o.startswith('killed-by:'): by[o.split(':')[1]]+=1
    alive=cnt['killed-by']+cnt['survived']+cnt['not-reached']
    ms=(f"Result so far ({n} of 1072 mutants run, seeded random order): {cnt['stillborn']+cnt.get('stillborn-verif',0)} stillborn, {cnt['killed-by-tests']} killed by the baseline suite, "
        f"**{cnt['killed-by']} of the remaining {alive} killed by a quick check** ({cnt['survived']} survived, {cnt['not-reached']} on lines no check reaches). "
        f"Kills per check: "+", ".join(f"{k} {v}" for k,v in sorted(by.items()))+".")
    s=rep(s,'MUTSUMMARY',ms)
except FileNotFoundError: pass
try:
    ne=json.load(open('/verif/seeded/NEUTRAL.json'))
    sil=[k for k,v in ne.items() if not v['alarms']]; al={k:v for k,v in ne.items() if v['alarms']}
    runs=sum(len(v['checks']) for v in ne.values())
    ns=f"Result: {len(sil)} of {len(ne)} refactorings left every check silent ({runs} check runs in total)."
    if al:
        ns+=" Alarms: "+"; ".join(f"{k}: "+", ".join(f"{a['check']} rc={a['rc']} {a['keys'][:2]}" for a in v['alarms']) for k,v in sorted(al.items()))+" — see the discussion below."
    s=rep(s,'NEUTRALSUMMARY',ns)
except FileNotFoundError: pass
open(p,'w').write(s)
print(len(rows),'seeded rows',len(frows),'fix rows')
