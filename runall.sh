#!/bin/bash
# runs every registered check (quick by default) and summarises; usage: runall.sh [quick|thorough] [ids...]
cd "$(dirname "$(readlink -f "$0")")"
tier=${1:-quick}; shift
ids=${@:-C01 C02 C03 C04 C05 C06 C07 C08 C09 C10 C11 C12 C13 C14 C15 C16 C17 C18 C19 C20}
fail=0
for id in $ids; do
  s=$(date +%s)
  out=$(./check $id --tier $tier 2>&1); rc=$?
  e=$(( $(date +%s) - s ))
  echo "$id rc=$rc ${e}s $(echo "$out" | grep -E "^C[0-9]+ tier" | cut -c1-150)"
  if [ $rc -ne 0 ]; then fail=1; echo "$out" | grep -E "VIOLATION|key:|INCONCLUSIVE|INFRA|BUILD" | head -8; fi
done
exit $fail
