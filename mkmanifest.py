#!/usr/bin/env python3
"""Generates /verif/MANIFEST.json from the table below (one place to keep it valid)."""
import json, subprocess, sys

BUILT = {
    # id: (category, technique, level text, level note, design_ref)
    "C09": ("exploration",
            "exhaustive input enumeration + strict JSON string-literal decoder oracle (runtime monitor over WriteLogString and both encoders)",
            "Every byte string of length <=3 (quick) / <=4 (thorough), every string of length <=5/6 over a 16-symbol UTF-8 boundary alphabet, random strings up to 4 KiB and all 1-2 byte keys/values through both encoders are run through the real escaper; an independent strict RFC 8259 string decoder (cross-checked against encoding/json) decides validity and the exact decoded value. Exhaustive on the stated window; held-on-what-was-observed beyond it.",
            "Trusted: the harness's own validator/decoder; the memorylessness argument for the 4-byte window is not machine-checked.",
            "DESIGN.md §5 C09"),
}

REASON_NOT_BUILT = "check not built yet in this snapshot (build in progress; see DESIGN.md §5 for the planned monitor)"

def main():
    props = [json.loads(l) for l in open('/verif/properties.jsonl')]
    try:
        commits = subprocess.check_output(['git', '-C', '/repo', 'log', '--format=%H %s']).decode().splitlines()
    except Exception:
        commits = []
    hook_commits = [c.split()[0] for c in commits if c.split(' ', 1)[1].startswith('verif:')]
    checks, na = [], []
    extra = {}
    try:
        extra = json.load(open('/verif/manifest_extra.json'))
    except Exception:
        pass
    table = dict(BUILT)
    for k, v in extra.get('built', {}).items():
        table[k] = tuple(v)
    for p in props:
        i = p['id']
        if i in table:
            cat, tech, text, note, ref = table[i]
            checks.append({
                "property_id": i,
                "quick_cmd": f"./check {i} --tier quick",
                "thorough_cmd": f"./check {i} --tier thorough",
                "evidence_file": f"/verif/evidence/{i}.json",
                "replay_cmd_template": f"./check {i} --replay {{path}}",
                "engine": "vh",
                "level_claimed": {"category": cat, "text": text, "design_ref": ref},
                "level_note": note,
                "technique": tech,
            })
        else:
            na.append({"property_id": i, "reason": extra.get('na', {}).get(i, REASON_NOT_BUILT)})
    m = {
        "version": 1,
        "setup_cmd": "./check --setup",
        "hooks": {
            "guard": "verif",
            "enable": "go build -tags verif (the harness module replaces github.com/go-spring/log => /repo and is built with -tags verif by ./check)",
            "baseline_off_cmd": "/verif/baseline_off.sh",
            "source_commits": hook_commits,
            "add_only": True,
        },
        "engines": [{
            "name": "vh",
            "path": "/verif/harness",
            "serves_properties": sorted(table.keys()),
            "kind_free_text": "Go driver/worker binary built against /repo (plain, -race, -gcflags=all=-l flavours): generated workloads, recording/gated appender plugins, reference-model oracles, race-report collector, child-process fault injection",
        }],
        "checks": checks,
        "not_applicable": na,
        "notes": "Technique family: runtime monitoring and sanitizers. Every check rebuilds the harness against /repo's working tree with -tags verif. Exit 0 = held on everything explored; 1 = VIOLATION line(s); 2 = inconclusive/infrastructure (never on the unchanged tree); 3 = build failure. Known findings: /verif/known_findings.json.",
    }
    json.dump(m, open('/verif/MANIFEST.json', 'w'), indent=1)
    print(f"MANIFEST.json: {len(checks)} checks, {len(na)} not_applicable")
    try:
        import jsonschema
        jsonschema.validate(m, json.load(open('/root/.vp/MANIFEST.schema.json')))
        print("schema: valid")
    except ImportError:
        pass

main()
