// mutgen enumerates small syntactic mutants of the hand-written library sources (go/ast positions, textual splice).
// Output: JSON lines {id,file,line,func,op,start,end,orig,repl}. Used by mutsweep.py (sensitivity measurement of the
// runtime monitors beyond the hand-written seeded changes); it is not a check.
package main

import (
	"encoding/json"
	"fmt"
	"go/ast"
	"go/parser"
	"go/token"
	"os"
	"path/filepath"
	"sort"
	"strings"
)

type Mut struct {
	ID    string `json:"id"`
	File  string `json:"file"`
	Line  int    `json:"line"`
	Func  string `json:"func"`
	Op    string `json:"op"`
	Start int    `json:"start"`
	End   int    `json:"end"`
	Orig  string `json:"orig"`
	Repl  string `json:"repl"`
}

var swaps = map[token.Token][]string{
	token.LSS: {"<="}, token.LEQ: {"<"}, token.GTR: {">="}, token.GEQ: {">"},
	token.EQL: {"!="}, token.NEQ: {"=="}, token.LAND: {"||"}, token.LOR: {"&&"},
	token.ADD: {"-"}, token.SUB: {"+"}, token.MUL: {"/"}, token.QUO: {"*"},
}

func main() {
	root := os.Args[1]
	var files []string
	for _, pat := range []string{"*.go", "expr/parse.go"} {
		m, _ := filepath.Glob(filepath.Join(root, pat))
		files = append(files, m...)
	}
	sort.Strings(files)
	enc := json.NewEncoder(os.Stdout)
	n := 0
	for _, f := range files {
		base := filepath.Base(f)
		if strings.HasSuffix(base, "_test.go") || strings.HasPrefix(base, "verif_") {
			continue
		}
		rel, _ := filepath.Rel(root, f)
		src, err := os.ReadFile(f)
		if err != nil {
			panic(err)
		}
		fset := token.NewFileSet()
		af, err := parser.ParseFile(fset, f, src, parser.ParseComments)
		if err != nil {
			panic(err)
		}
		off := func(p token.Pos) int { return fset.Position(p).Offset }
		emit := func(fn, op string, s, e int, repl string) {
			n++
			_ = enc.Encode(Mut{ID: fmt.Sprintf("M%04d", n), File: rel, Line: fset.Position(fset.File(af.Pos()).Pos(s)).Line, Func: fn, Op: op, Start: s, End: e, Orig: string(src[s:e]), Repl: repl})
		}
		for _, d := range af.Decls {
			fd, ok := d.(*ast.FuncDecl)
			if !ok || fd.Body == nil {
				continue
			}
			fn := fd.Name.Name
			if fd.Recv != nil && len(fd.Recv.List) > 0 {
				t := fd.Recv.List[0].Type
				if st, ok := t.(*ast.StarExpr); ok {
					t = st.X
				}
				if id, ok := t.(*ast.Ident); ok {
					fn = id.Name + "." + fn
				}
			}
			if fn == "init" {
				continue
			}
			ast.Inspect(fd.Body, func(nd ast.Node) bool {
				switch x := nd.(type) {
				case *ast.BinaryExpr:
					for _, r := range swaps[x.Op] {
						// string concatenation cannot be subtracted: the compiler weeds those out (stillborn)
						emit(fn, "binop:"+x.Op.String()+"->"+r, off(x.OpPos), off(x.OpPos)+len(x.Op.String()), r)
					}
				case *ast.IfStmt:
					if x.Cond != nil {
						emit(fn, "negate-if", off(x.Cond.Pos()), off(x.Cond.End()), "!("+string(src[off(x.Cond.Pos()):off(x.Cond.End())])+")")
					}
				case *ast.BasicLit:
					if x.Kind == token.INT {
						v := x.Value
						switch v {
						case "0":
							emit(fn, "int:0->1", off(x.Pos()), off(x.End()), "1")
						case "1":
							emit(fn, "int:1->0", off(x.Pos()), off(x.End()), "0")
							emit(fn, "int:1->2", off(x.Pos()), off(x.End()), "2")
						default:
							emit(fn, "int:n->n+1", off(x.Pos()), off(x.End()), "("+v+"+1)")
							emit(fn, "int:n->n-1", off(x.Pos()), off(x.End()), "("+v+"-1)")
						}
					}
				case *ast.BlockStmt:
					for _, st := range x.List {
						switch s := st.(type) {
						case *ast.ExprStmt:
							if call, ok := s.X.(*ast.CallExpr); ok {
								if id, ok := call.Fun.(*ast.Ident); ok && (id.Name == "verifPoint" || id.Name == "panic") {
									continue
								}
							}
							emit(fn, "del-call", off(s.Pos()), off(s.End()), "")
						case *ast.IncDecStmt:
							emit(fn, "del-incdec", off(s.Pos()), off(s.End()), "")
						case *ast.DeferStmt:
							emit(fn, "del-defer", off(s.Pos()), off(s.End()), "")
						case *ast.GoStmt:
							emit(fn, "go->sync", off(s.Pos()), off(s.Pos())+2, "  ")
						case *ast.AssignStmt:
							if s.Tok == token.ASSIGN || s.Tok == token.ADD_ASSIGN || s.Tok == token.SUB_ASSIGN {
								emit(fn, "del-assign", off(s.Pos()), off(s.End()), "")
							}
						case *ast.BranchStmt:
							if s.Tok == token.CONTINUE || s.Tok == token.BREAK {
								emit(fn, "del-"+s.Tok.String(), off(s.Pos()), off(s.End()), "")
							}
						case *ast.ReturnStmt:
							if len(s.Results) == 0 {
								emit(fn, "del-return", off(s.Pos()), off(s.End()), "")
							}
						}
					}
				case *ast.CaseClause:
					// empty a switch case body (keeps the case label)
					if len(x.Body) > 0 && x.List != nil {
						emit(fn, "empty-case", off(x.Body[0].Pos()), off(x.Body[len(x.Body)-1].End()), "")
					}
				}
				return true
			})
		}
	}
	fmt.Fprintln(os.Stderr, n, "mutants")
}
