#!/usr/bin/env python3
"""Automated mutation sweep (sensitivity measurement, not a check).

For every syntactic mutant produced by mutgen (main.go) it works in a private lane = scratch git worktree of /repo plus a
private copy of /verif (outside /repo and /verif, removed at the end):
  1. splice the mutant into the lane's worktree; `go build ./... && go build -tags verif ./...`   (else: stillborn)
  2. baseline suite `go test -vet=off -count=1 ./...`; a mutant that loses a BASELINE stable_pass test is
     'killed-by-tests' (such changes are not the ones the monitors are for)
  3. run the quick checks whose workload reaches the mutated line (per-check statement coverage from cover.sh),
     anchor properties of the file first, until one reports a VIOLATION -> 'killed-by:<ID>'; none -> 'survived'.
Results: mutsweep/results.jsonl (appended; a mutant already present is skipped) and a summary on stdout.

Usage: mutsweep.py [--lanes N] [--sample K] [--seed S] [--files a.go,b.go] [--ids M0001,...] [--max-checks N]
Needs: /verif/out/cover/Cxx.txt (run ./cover.sh first).
"""
import argparse, json, os, random, re, shutil, subprocess, sys, threading, time, collections

VERIF = os.path.dirname(os.path.dirname(os.path.abspath(__file__)))
ENV = dict(os.environ)
ENV['PATH'] = '/root/go/pkg/mod/golang.org/toolchain@v0.0.1-go1.25.0.linux-amd64/bin:' + ENV['PATH']
ENV.update(GOTOOLCHAIN='local', GOFLAGS='-mod=mod', GOPROXY='off', GOSUMDB='off', VERIF_NOEVIDENCE='1')
LANEROOT = '/tmp/mutlanes'
ALL = ['C%02d' % i for i in range(1, 21)]

ap = argparse.ArgumentParser()
ap.add_argument('--lanes', type=int, default=3)
ap.add_argument('--sample', type=int, default=0)
ap.add_argument('--seed', type=int, default=1)
ap.add_argument('--files', default='')
ap.add_argument('--ids', default='')
ap.add_argument('--max-checks', type=int, default=8)
ap.add_argument('--laneroot', default='/tmp/mutlanes')
ap.add_argument('--out', default=os.path.join(VERIF, 'mutsweep', 'results.jsonl'))
args = ap.parse_args()

def sh(cmd, cwd=None, timeout=1800, env=ENV):
    try:
        p = subprocess.run(cmd, shell=True, cwd=cwd, env=env, capture_output=True, text=True, timeout=timeout)
        return p.returncode, p.stdout + p.stderr
    except subprocess.TimeoutExpired as e:
        return 124, 'TIMEOUT ' + str(e)

# ---- coverage map: check -> {file: [(l0, l1)]} of blocks with count > 0
cov = {}
for cid in ALL:
    p = os.path.join(VERIF, 'out', 'cover', cid + '.txt')
    if not os.path.exists(p):
        sys.exit('missing ' + p + ' (run ./cover.sh)')
    d = collections.defaultdict(list)
    for l in open(p):
        m = re.match(r'github\.com/go-spring/log/(\S+?):(\d+)\.\d+,(\d+)\.\d+ \d+ (\d+)', l)
        if m and int(m.group(4)) > 0:
            d[m.group(1)].append((int(m.group(2)), int(m.group(3))))
    cov[cid] = d
anchors = {}
for l in open(os.path.join(VERIF, 'properties.jsonl')):
    p = json.loads(l)
    anchors[p['id']] = set(p.get('anchors', {}).get('files', []))
# measured quick wall times (seconds) for ordering
WALL = {'C01': 9, 'C02': 13, 'C03': 61, 'C04': 9, 'C05': 8, 'C06': 38, 'C07': 5, 'C08': 6, 'C09': 6, 'C10': 1, 'C11': 1, 'C12': 5, 'C13': 6,
        'C14': 11, 'C15': 9, 'C16': 14, 'C17': 16, 'C18': 13, 'C19': 6, 'C20': 7}

def checks_for(m):
    c = [cid for cid in ALL if any(a <= m['line'] <= b for a, b in cov[cid].get(m['file'], []))]
    c.sort(key=lambda cid: (m['file'] not in anchors[cid], WALL[cid]))
    return c

base = set(json.load(open('/root/.vp/BASELINE.json'))['stable_pass'])

mf = '/tmp/muts.%d.jsonl' % os.getpid()
subprocess.run('cd %s/mutsweep && go run . /repo > %s' % (VERIF, mf), shell=True, env=ENV, check=True, stderr=subprocess.DEVNULL)
muts = [json.loads(l) for l in open(mf)]
os.remove(mf)
if args.files:
    fs = set(args.files.split(','))
    muts = [m for m in muts if m['file'] in fs]
if args.ids:
    ids = set(args.ids.split(','))
    muts = [m for m in muts if m['id'] in ids]
done = set()
if os.path.exists(args.out):
    for l in open(args.out):
        try: done.add(json.loads(l)['key'])
        except Exception: pass
for m in muts:
    m['key'] = '%s:%d:%s:%s' % (m['file'], m['start'], m['op'], m['repl'][:20])
muts = [m for m in muts if m['key'] not in done]
if args.sample and len(muts) > args.sample:
    random.Random(args.seed).shuffle(muts)
    muts = muts[:args.sample]
print('%d mutants to run on %d lanes' % (len(muts), args.lanes), flush=True)

lock = threading.Lock()
queue = list(muts)
outf = open(args.out, 'a')

def lane(i):
    root = '%s/l%d' % (args.laneroot, i)
    repo, verif = root + '/repo', root + '/verif'
    subprocess.run('git -C /repo worktree remove --force %s 2>/dev/null; rm -rf %s; mkdir -p %s; git -C /repo worktree add -q --detach %s HEAD' % (repo, root, root, repo), shell=True)
    subprocess.run("rsync -a --exclude out --exclude build --exclude .git --exclude seeded --exclude mutsweep/results.jsonl %s/ %s/" % (VERIF, verif), shell=True)
    gm = open(verif + '/harness/go.mod').read().replace('=> /repo', '=> ' + repo)
    open(verif + '/harness/go.mod', 'w').write(gm)
    env = dict(ENV); env['VERIF_DIR'] = verif
    while True:
        with lock:
            if not queue: break
            m = queue.pop(0)
        t0 = time.time()
        res = {'key': m['key'], 'id': m['id'], 'file': m['file'], 'line': m['line'], 'func': m['func'], 'op': m['op'], 'orig': m['orig'][:80], 'repl': m['repl'][:80]}
        sh('git checkout -q -- . && git clean -fdq', repo)
        p = os.path.join(repo, m['file'])
        src = open(p, 'rb').read()
        open(p, 'wb').write(src[:m['start']] + m['repl'].encode() + src[m['end']:])
        rc, out = sh('go build ./... && go build -tags verif ./...', repo)
        if rc != 0:
            res['outcome'] = 'stillborn'
        else:
            rc, out = sh('go test -json -vet=off -count=1 -timeout 120s ./...', repo, timeout=300)
            passed = set()
            for l in out.splitlines():
                try: e = json.loads(l)
                except Exception: continue
                if e.get('Test') and e.get('Action') == 'pass': passed.add(e['Package'] + '::' + e['Test'])
            missing = [t for t in base if t not in passed]
            if missing:
                res['outcome'] = 'killed-by-tests'; res['tests'] = missing[:3]
            else:
                cands = checks_for(m)
                res['covering'] = cands
                res['outcome'] = 'survived' if cands else 'not-reached'
                res['ran'] = []
                for cid in cands[:args.max_checks]:
                    rc, out = sh('./check %s --tier quick' % cid, verif, timeout=1500, env=env)
                    res['ran'].append([cid, rc])
                    if rc == 1 and 'VIOLATION property=' in out:
                        res['outcome'] = 'killed-by:' + cid
                        res['keys'] = re.findall(r'^\s+key: (.*)$', out, re.M)[:3]
                        break
                    if rc == 3:
                        res['outcome'] = 'stillborn-verif'; break
        res['secs'] = round(time.time() - t0, 1)
        with lock:
            outf.write(json.dumps(res) + '\n'); outf.flush()
            print(m['id'], m['file'], m['line'], m['op'], '->', res['outcome'], res.get('keys', '')[:2] if res.get('keys') else '', res['secs'], flush=True)
    sh('git checkout -q -- . && git clean -fdq', repo)
    subprocess.run('git -C /repo worktree remove --force %s; rm -rf %s' % (repo, root), shell=True)

ths = [threading.Thread(target=lane, args=(i,)) for i in range(args.lanes)]
for t in ths: t.start()
for t in ths: t.join()
outf.close()
# summary
cnt = collections.Counter()
for l in open(args.out):
    r = json.loads(l); cnt[r['outcome'].split(':')[0]] += 1
print(dict(cnt))
