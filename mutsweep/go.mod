module mutgen

go 1.25
