#!/bin/bash
# Runs the repository's own test suite with the verif guard OFF and compares with /root/.vp/BASELINE.json:
# every test in stable_pass must pass. Exit 0 iff so.
cd "$(dirname "$(readlink -f "$0")")" && . ./env.sh
mkdir -p out; out=$(mktemp "$(pwd)/out/baseline.XXXXXX.json")
(cd /repo && go test -mod=mod -json -vet=off -count=1 -timeout 25m ./... > "$out" 2>/dev/null)
python3 - "$out" <<'PY'
import json,sys
passed=set(); failed=set()
for l in open(sys.argv[1]):
    try: e=json.loads(l)
    except Exception: continue
    if e.get('Test') and e.get('Action') in ('pass','fail'):
        (passed if e['Action']=='pass' else failed).add(e['Package']+'::'+e['Test'])
b=json.load(open('/root/.vp/BASELINE.json'))
missing=[t for t in b['stable_pass'] if t not in passed]
print(f"baseline(guard off): passed={len(passed)} failed={sorted(failed)} stable_pass_missing={missing}")
sys.exit(1 if missing else 0)
PY
rc=$?; rm -f "$out"; exit $rc
