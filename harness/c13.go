package main

// C13 — the rolling file appender loses nothing across rotations and never truncates.
// Real interval boundaries (1-2 s), client-side wall-clock stamps, exact once-and-whole oracle over
// the final directory, bounded (<= 50 ms) delays at guarded yield points.

import (
	"bytes"
	"fmt"
	"hash/crc32"
	"os"
	"path/filepath"
	"regexp"
	"sort"
	"strconv"
	"strings"
	"sync"
	"sync/atomic"
	"time"

	log "github.com/go-spring/log"
)

type c13rec struct {
	id         string
	snap       c12snap
	start, end time.Time
	writer     int
}

var c13nameRe = regexp.MustCompile(`^(.+)\.(\d{14})$`)

// c13parse splits a file into framed records and counts single 'x' bytes between them.
func c13parse(b []byte) (ids []string, snaps map[string][]c12snap, ones int, problem string) {
	snaps = map[string][]c12snap{}
	for len(b) > 0 {
		if b[0] == 'x' {
			ones++
			b = b[1:]
			continue
		}
		order, m, perr := parsePayloads(b[:recordEnd(b)])
		if perr != "" || len(order) != 1 {
			return ids, snaps, ones, fmt.Sprintf("torn or foreign bytes at %q (%s)", trunc(string(b), 50), perr)
		}
		ids = append(ids, order[0])
		snaps[order[0]] = append(snaps[order[0]], m[order[0]]...)
		b = b[m[order[0]][0].n:]
	}
	return
}

// recordEnd returns the end offset of the framed record starting at b[0] (or len(b) if unparsable).
func recordEnd(b []byte) int {
	i := indexByte(b, '|', 0)
	if i < 0 {
		return len(b)
	}
	j := indexByte(b, '|', i+1)
	if j < 0 {
		return len(b)
	}
	n, err := strconv.Atoi(string(b[i+1 : j]))
	if err != nil || j+1+n > len(b) {
		return len(b)
	}
	return j + 1 + n
}

func indexByte(b []byte, c byte, from int) int {
	for i := from; i < len(b); i++ {
		if b[i] == c {
			return i
		}
	}
	return -1
}

// syntheticZone builds a TZif (v1) zone that is at +1h (DST) until `fallBack` and at +0h afterwards.
func syntheticZone(fallBack time.Time) (*time.Location, error) {
	var b []byte
	be32 := func(v int32) { b = append(b, byte(v>>24), byte(v>>16), byte(v>>8), byte(v)) }
	b = append(b, "TZif"...)
	b = append(b, 0)
	b = append(b, make([]byte, 15)...)
	for _, c := range []int32{0, 0, 0, 2, 2, 8} { // isutcnt, isstdcnt, leapcnt, timecnt, typecnt, charcnt
		be32(c)
	}
	be32(1_000_000_000)          // transition 0: long ago -> type 0 (summer time)
	be32(int32(fallBack.Unix())) // transition 1: clocks go back one hour -> type 1
	b = append(b, 0, 1)
	be32(3600)
	b = append(b, 1, 0) // isdst, abbreviation index 0
	be32(0)
	b = append(b, 0, 4) // abbreviation index 4
	b = append(b, "SUM\x00STD\x00"...)
	return time.LoadLocationFromTZData("synthetic-fallback", b)
}

// c13HookClock: events reach the rolling appender through Append carrying a time that does NOT come from the wall clock (the
// public TimeNow hook may return a frozen, request-scoped or skewed time). Files are named after, and rotated by, the real
// time of the write: one writer, one event at a time, across real boundaries.
func c13HookClock(w *W) {
	dir := filepath.Join(w.Spec.Dir, w.Spec.Name+".d")
	_ = os.RemoveAll(dir)
	_ = os.MkdirAll(dir, 0755)
	defer os.RemoveAll(dir)
	variant := []string{"frozen", "ahead-90s", "year-2001", "zero"}[w.Spec.Shard%4]
	cs := map[string]any{"mode": "hookclock", "event_time": variant, "boundaries": w.Spec.N}
	all := log.LevelRange{MinLevel: log.NoneLevel, MaxLevel: log.MaxLevel}
	rl := &log.RollingFileLogger{LoggerBase: log.LoggerBase{Name: "hc", Level: all}, FileDir: dir, FileName: "hc.log", Rotation: log.TimeRotation{Interval: time.Second}, MaxAge: 24}
	if err := rl.Start(); err != nil {
		w.Violate("C13:start-failed", "Start failed: "+err.Error(), cs)
		return
	}
	t0 := time.Now()
	evTime := func() time.Time {
		switch variant {
		case "frozen":
			return t0
		case "ahead-90s":
			return time.Now().Add(90 * time.Second)
		case "year-2001":
			return time.Date(2001, 1, 1, 0, 0, 0, 0, time.UTC)
		}
		return time.Time{}
	}
	type wr struct {
		id         string
		start, end time.Time
	}
	var wrs []wr
	stopAt := t0.Truncate(time.Second).Add(time.Duration(w.Spec.N)*time.Second + 500*time.Millisecond)
	for i := 0; time.Now().Before(stopAt); i++ {
		id := fmt.Sprintf("id-hc%d-%d", w.Spec.Shard, i)
		e := log.GetEvent()
		e.Level, e.Time, e.Tag, e.Fields = log.InfoLevel, evTime(), "c13", []log.Field{log.Msg(id)}
		x := wr{id: id, start: time.Now()}
		rl.Append(e)
		x.end = time.Now()
		wrs = append(wrs, x)
		time.Sleep(25 * time.Millisecond)
	}
	rl.Stop()
	where := map[string][]time.Time{}
	ents, _ := os.ReadDir(dir)
	for _, en := range ents {
		m := c13nameRe.FindStringSubmatch(en.Name())
		if m == nil || m[1] != "hc.log" {
			w.Violate("C13:bad-file-name", fmt.Sprintf("unexpected entry %q in the log directory", en.Name()), cs)
			continue
		}
		nt, _ := time.ParseInLocation("20060102150405", m[2], time.Local)
		b, _ := os.ReadFile(filepath.Join(dir, en.Name()))
		for _, ln := range bytes.Split(b, []byte("\n")) {
			if id := idOf(ln); id != "" {
				where[id] = append(where[id], nt)
			}
		}
	}
	bad := false
	for _, x := range wrs {
		f := where[x.id]
		switch {
		case len(f) != 1:
			bad = true
			w.Violate("C13:lost-write", fmt.Sprintf("[hookclock/%s] %s is in the files %d times", variant, x.id, len(f)), cs)
		case f[0].After(x.end):
			bad = true
			w.Violate("C13:write-before-file-time", fmt.Sprintf("[hookclock/%s] %s completed at %s but sits in the file named %s", variant, x.id, x.end.Format("15:04:05.000"), f[0].Format("20060102150405")), cs)
		case f[0].Before(x.start.Truncate(time.Second)):
			bad = true
			w.Violate("C13:stale-file-after-boundary", fmt.Sprintf("[hookclock/%s, one write at a time] %s started at %s but went to the older file %s (the event itself carries the time %s)", variant, x.id, x.start.Format("15:04:05.000"), f[0].Format("150405"), evTime().Format(time.RFC3339)), cs)
		}
		if bad {
			break
		}
	}
	w.Eval(int64(len(wrs)))
	w.Count("records_written", int64(len(wrs)))
	w.Count("files_created", int64(len(ents)))
	if !bad {
		w.Distinct("hookclock|" + variant)
		w.Sample(map[string]any{"case": cs, "records": len(wrs), "files": len(ents)})
	}
}

func c13Worker(w *W) {
	if w.Arg("mode", "") == "hookclock" {
		c13HookClock(w)
		return
	}
	mode := w.Arg("mode", "continuous")
	W := w.ArgInt("writers", 4)
	interval := time.Duration(w.ArgInt("interval_s", 1)) * time.Second
	if ms := w.ArgInt("interval_ms", 0); ms > 0 {
		interval = time.Duration(ms) * time.Millisecond // a user-registered period that is not a whole number of seconds
	}
	boundaries := int(w.Spec.N)
	dir := filepath.Join(w.Spec.Dir, w.Spec.Name+".d")
	_ = os.RemoveAll(dir)
	_ = os.MkdirAll(dir, 0755)
	defer os.RemoveAll(dir)
	// legal file names, some of which look like pieces of a Go time layout (a name must be used verbatim)
	fname := []string{"roll.log", "gateway-2006.node1.log", "svc_Jan-02.15h", "roll.log", "app.Mon.MST.pm", "x", "a b.05.log", "日志-04.log"}[w.Spec.Shard%8]
	if mode == "dst" {
		// local clocks fall back by one hour 2.3 s from now: rotation must go on, interval after interval
		loc, err := syntheticZone(time.Now().Add(2300 * time.Millisecond))
		if err != nil {
			w.Inconclusive("synthetic zone: " + err.Error())
			return
		}
		time.Local = loc
	}
	cs := map[string]any{"mode": mode, "writers": W, "interval_s": interval.Seconds(), "boundaries": boundaries, "flavour": w.Spec.Flavour}
	w.Journal("C13 %v", cs)

	// bounded perturbation: a writer that has loaded the current file just before a boundary is held
	// until just after it (<= 50 ms), so that other writers rotate while it still holds the old file
	y := &yielder{}
	var holds atomic.Int64
	var inHold atomic.Int32
	var rotDone atomic.Int64
	var stallArmed atomic.Bool
	var burstLoads atomic.Int64
	var restarts, exact64k, looks atomic.Int64
	var lookFailed atomic.Bool
	var seqFrom atomic.Value // time.Time from which only writer 0 keeps writing (one write at a time)
	log.VerifPointFn = func(name string) {
		y.fn(name)
		if name == "roll.rotate.swapped" {
			rotDone.Add(1)
		}
		if name == "roll.rotate.created" && mode == "stalledrotator" && stallArmed.CompareAndSwap(true, false) {
			// the rotating goroutine is overtaken by the next rotation while it sits between creating its
			// file and publishing it; afterwards a single writer continues alone
			holds.Add(1)
			time.Sleep(interval + 400*time.Millisecond)
			seqFrom.Store(time.Now().Add(100 * time.Millisecond))
			return
		}
		if name == "roll.write.loaded" && mode == "stalledwriter" {
			// one writer is stalled for more than two whole intervals between loading the current file and
			// writing to it, while the other keeps writing (so two rotations pass): its line must still land
			if stallArmed.CompareAndSwap(true, false) {
				holds.Add(1)
				time.Sleep(2*interval + 300*time.Millisecond)
			}
			return
		}
		if name == "roll.write.loaded" && mode != "sequential" && mode != "seqrestart" && mode != "seqsteady" {
			now := time.Now()
			nb := now.Truncate(interval).Add(interval)
			// hold only part of the writers, so that the others cross the boundary and rotate meanwhile
			if d := nb.Sub(now); d < 12*time.Millisecond && inHold.Add(1) <= int32((W+1)/2) {
				holds.Add(1)
				// released once another writer has completed the rotation (+1 ms), at the latest 300 ms
				// after the boundary: far below one interval, so the deferred close of the design (the
				// previous file stays open until the NEXT rotation) must still cover this writer
				r0 := rotDone.Load()
				time.Sleep(d + 2*time.Millisecond)
				for rotDone.Load() == r0 && time.Since(nb) < 300*time.Millisecond {
					time.Sleep(500 * time.Microsecond)
				}
				time.Sleep(time.Millisecond)
				inHold.Add(-1)
			} else if d < 12*time.Millisecond {
				inHold.Add(-1)
			}
		}
		if mode == "idleburst" && (name == "roll.rotate.closedold" || name == "roll.rotate.created") {
			// the goroutine that rotates after the silence lingers a little (far below one interval) at each step while
			// the others, which resumed at the same instant, write
			// ... at least until every other writer has loaded the current file for its next write (bounded: 50 ms)
			if name == "roll.rotate.closedold" {
				from, t := burstLoads.Load(), time.Now()
				for burstLoads.Load() < from+int64(W-1) && time.Since(t) < 50*time.Millisecond {
					time.Sleep(100 * time.Microsecond)
				}
			}
			time.Sleep(2 * time.Millisecond)
			return
		}
		if mode == "idleburst" && name == "roll.write.loaded" {
			burstLoads.Add(1)
		}
		if name == "roll.rotate.cas" || name == "roll.rotate.closedold" || name == "roll.rotate.created" {
			if y.ctr.Add(1)%3 == 0 {
				time.Sleep(time.Duration(y.ctr.Load()%5) * time.Millisecond)
			}
		}
	}
	defer func() { log.VerifPointFn = nil }()

	mk := func() *log.RollingFileAppender {
		return &log.RollingFileAppender{AppenderBase: log.AppenderBase{Name: "roll"}, Layout: &log.TextLayout{}, FileDir: dir, FileName: fname, Rotation: log.TimeRotation{Interval: interval}, MaxAge: int32(w.ArgInt("maxage", 24))}
	}
	var mu sync.Mutex
	var recs []c13rec
	var onesWritten atomic.Int64
	preseed := map[string]c12snap{}

	if mode == "preseeded" {
		// the directory already holds files with the names of the current and the following seconds
		now := time.Now()
		for k := 0; k < 4; k++ {
			name := fname + "." + now.Add(time.Duration(k)*time.Second).Format("20060102150405")
			id := fmt.Sprintf("id-pre%dx%d-%d", w.Spec.Shard, k, k)
			const pre = "pre-existing content\n"
			body := fmt.Sprintf("%s|%d|%s", id, len(pre), pre)
			preseed[id] = c12snap{len(body), crc32.ChecksumIEEE([]byte(body))}
			_ = os.WriteFile(filepath.Join(dir, name), []byte(body), 0644)
		}
	}

	ap := mk()
	if err := ap.Start(); err != nil {
		w.Violate("C13:start-failed", "Start failed: "+err.Error(), cs)
		return
	}
	if mode == "stalledwriter" || mode == "stalledrotator" {
		go func() { // arm the stall a little after the start and again two intervals later
			time.Sleep(150 * time.Millisecond)
			stallArmed.Store(true)
		}()
	}
	var apMu sync.RWMutex // guards replacement of ap in the stop/start mode (writers take RLock around Write)
	t0 := time.Now().Truncate(interval)
	stopAt := t0.Add(time.Duration(boundaries)*interval + interval/2)
	var wg sync.WaitGroup
	for g := 0; g < W; g++ {
		wg.Add(1)
		go func(g int) {
			defer wg.Done()
			r := newRng(w.Spec.Seed, uint64(w.Spec.Shard)*131+uint64(g))
			buf := make([]byte, 0, 70000)
			i := 0
			for time.Now().Before(stopAt) {
				if t, ok := seqFrom.Load().(time.Time); ok && g != 0 && time.Now().After(t.Add(-150*time.Millisecond)) {
					return
				}
				switch mode {
				case "dst":
					time.Sleep(time.Duration(5+r.IntN(30)) * time.Millisecond)
				case "stalledrotator":
					time.Sleep(time.Duration(1+r.IntN(5)) * time.Millisecond)
				case "bursts":
					// idle, then a burst just before each boundary
					now := time.Now()
					nb := now.Truncate(interval).Add(interval)
					if d := nb.Sub(now); d > 30*time.Millisecond {
						time.Sleep(d - time.Duration(5+r.IntN(20))*time.Millisecond)
					}
				case "idleburst":
					// every writer is silent for more than one whole interval, then all of them resume at the same instant
					// (at varying offsets inside the interval, also right after a boundary); the first writes after the
					// silence race with the rotation that one of them performs
					k := int(time.Since(t0)/(2*interval)) + 1
					at := t0.Add(time.Duration(k)*2*interval + interval*time.Duration([]int{500, 20, 970, 300, 3, 700}[k%6])/1000)
					if at.After(stopAt) {
						return
					}
					if d := time.Until(at); d > 2*time.Millisecond {
						time.Sleep(d - 2*time.Millisecond)
					}
					for time.Now().Before(at) {
					}
				case "seqsteady":
					time.Sleep(20 * time.Millisecond) // one writer, one write every 20 ms: every part of every interval is visited
				case "seqrestart":
					// one writer; every now and then - between two writes - the very same appender object is stopped and started
					// again; it must go on rotating like a fresh one
					if i%9 == 8 {
						apMu.Lock()
						ap.Stop()
						err := ap.Start()
						if err == nil && (i/9)%2 == 1 {
							// an incarnation that is started on the existing file and stopped again without having written anything
							ap.Stop()
							err = ap.Start()
							restarts.Add(1)
						}
						apMu.Unlock()
						restarts.Add(1)
						if err != nil {
							w.Violate("C13:restart-failed", "Start after Stop failed: "+err.Error(), cs)
							return
						}
					}
					time.Sleep(time.Duration(r.IntN(60)) * time.Millisecond)
				case "sequential":
					if r.IntN(6) == 0 {
						time.Sleep(interval + time.Duration(r.IntN(400))*time.Millisecond) // idle across a whole interval
					} else {
						time.Sleep(time.Duration(r.IntN(40)) * time.Millisecond)
					}
				default:
					if r.IntN(4) == 0 {
						time.Sleep(time.Duration(r.IntN(3000)) * time.Microsecond)
					}
				}
				burst := 1
				if mode == "bursts" {
					burst = 20
				}
				if mode == "idleburst" {
					burst = 40
				}
				for k := 0; k < burst; k++ {
					i++
					if mode == "onebyte" && i%3 != 0 {
						apMu.RLock()
						ap.Write([]byte{'x'})
						apMu.RUnlock()
						onesWritten.Add(1)
						continue
					}
					id := fmt.Sprintf("id-w%dx%d-%d", g, w.Spec.Shard, i)
					var body int
					switch x := r.IntN(100); {
					case x < 60:
						body = r.IntN(100)
					case x < 95:
						body = 500 + r.IntN(4000)
					case x < 97:
						body = 30000 + r.IntN(35000)
					default:
						// a line of EXACTLY 64 KiB (the upper end of the stated sizes), or one byte less / more
						body = 65536 - len(id) - 7 + []int{0, 0, -1, 1}[r.IntN(4)]
					}
					buf = append(buf[:0], fmt.Sprintf("%s|%d|", id, body)...)
					for b := 0; b < body; b++ {
						buf = append(buf, byte('a'+(b+g)%26))
					}
					rc := c13rec{id: id, snap: c12snap{len(buf), crc32.ChecksumIEEE(buf)}, writer: g}
					apMu.RLock()
					rc.start = time.Now()
					ap.Write(buf)
					rc.end = time.Now()
					apMu.RUnlock()
					if len(buf) == 65536 {
						exact64k.Add(1)
					}
					if mode == "seqsteady" && !lookFailed.Load() {
						// one writer, nothing else going on: when Write has returned the line is in a file of the directory
						// (not in a buffer of the appender) - also while the writer then idles, and right after a boundary
						if !c13lineVisible(dir, id) {
							lookFailed.Store(true)
							w.Violate("C13:write-in-no-file-at-return", fmt.Sprintf("single sequential writer: Write of %s (%d bytes) has returned and the line is in no file of the directory (it may turn up later: the statement is about where a write LANDS, and a write that has returned has landed)", id, len(buf)), cs)
						}
						looks.Add(1)
					}
					mu.Lock()
					recs = append(recs, rc)
					mu.Unlock()
				}
			}
		}(g)
	}
	cycles, idleIncarnations := 0, 0
	if mode == "stopstart" {
		// Stop/Start cycles several times per second (no write is in progress during a cycle)
		for time.Now().Before(stopAt) {
			time.Sleep(time.Duration(150+cycles%5*60) * time.Millisecond)
			apMu.Lock()
			ap.Stop()
			if cycles%2 == 0 {
				ap = mk() // a fresh appender on the same directory ...
			} // ... or the very same instance started again
			err := ap.Start()
			if err == nil && cycles%3 == 1 {
				// an idle incarnation: started on the directory (usually on the file of the running second) and stopped again
				// before anybody wrote through it. What earlier incarnations wrote stays where it is.
				ap.Stop()
				if cycles%2 == 1 {
					ap = mk()
				}
				err = ap.Start()
				idleIncarnations++
			}
			apMu.Unlock()
			cycles++
			if err != nil {
				w.Violate("C13:restart-failed", "Start after Stop failed: "+err.Error(), cs)
				break
			}
		}
	}
	wg.Wait()
	ap.Stop()

	// ---- offline check over the final directory ----
	ents, _ := os.ReadDir(dir)
	type where struct {
		file     string
		nameTime time.Time
	}
	found := map[string][]where{}
	foundSnap := map[string][]c12snap{}
	ones := 0
	files := 0
	var fileTimes []time.Time
	for _, e := range ents {
		m := c13nameRe.FindStringSubmatch(e.Name())
		if m == nil || m[1] != fname {
			w.Violate("C13:bad-file-name", fmt.Sprintf("unexpected entry %q in the log directory (files must be named %s.<yyyyMMddHHmmss>)", e.Name(), fname), cs)
			continue
		}
		nt, err := time.ParseInLocation("20060102150405", m[2], time.Local)
		if err != nil {
			w.Violate("C13:bad-file-name", "unparsable timestamp in "+e.Name(), cs)
			continue
		}
		files++
		fileTimes = append(fileTimes, nt)
		b, _ := os.ReadFile(filepath.Join(dir, e.Name()))
		ids, snaps, o, problem := c13parse(b)
		if problem != "" {
			w.Violate("C13:torn-record", fmt.Sprintf("file %s: %s", e.Name(), problem), cs)
		}
		ones += o
		for _, id := range ids {
			found[id] = append(found[id], where{e.Name(), nt})
		}
		for id, s := range snaps {
			foundSnap[id] = append(foundSnap[id], s...)
		}
	}
	bad := false
	recFile := map[string]string{}
	inPrev := 0
	for _, rc := range recs {
		f := found[rc.id]
		switch {
		case len(f) == 0:
			bad = true
			w.Violate("C13:lost-write", fmt.Sprintf("[%s] %s (writer %d, %d bytes, written %s..%s) is in no file", mode, rc.id, rc.writer, rc.snap.n, rc.start.Format("15:04:05.000"), rc.end.Format("15:04:05.000")), cs)
		case len(f) > 1:
			bad = true
			w.Violate("C13:duplicated-write", fmt.Sprintf("[%s] %s appears %d times (%v)", mode, rc.id, len(f), f), cs)
		default:
			if foundSnap[rc.id][0] != rc.snap {
				bad = true
				w.Violate("C13:torn-record", fmt.Sprintf("[%s] %s in %s differs from what was written (len %d vs %d)", mode, rc.id, f[0].file, foundSnap[rc.id][0].n, rc.snap.n), cs)
			}
			// never in a file whose name is later than the completion of the write
			if mode != "dst" && f[0].nameTime.After(rc.end) {
				bad = true
				w.Violate("C13:write-before-file-time", fmt.Sprintf("[%s] %s completed at %s but sits in %s", mode, rc.id, rc.end.Format("15:04:05.000"), f[0].file), cs)
			}
			seqPhase := false
			if t, ok := seqFrom.Load().(time.Time); ok && mode == "stalledrotator" && rc.start.After(t.Add(50*time.Millisecond)) {
				seqPhase = true // well after the stall: one writer, one write at a time
			}
			if mode == "sequential" || mode == "seqrestart" || mode == "seqsteady" || seqPhase {
				// one write at a time: a write started in interval k must be in a file created in interval k or later
				if f[0].nameTime.Before(rc.start.Truncate(interval).Truncate(time.Second)) {
					bad = true
					w.Violate("C13:stale-file-after-boundary", fmt.Sprintf("["+mode+", one write at a time] %s started at %s (interval began %s) but went to the older file %s", rc.id, rc.start.Format("15:04:05.000"), rc.start.Truncate(interval).Format("15:04:05"), f[0].file), cs)
				}
			} else if f[0].nameTime.Before(rc.start.Truncate(interval).Truncate(time.Second)) {
				inPrev++
			}
		}
		if len(f) == 1 {
			recFile[rc.id] = f[0].file
		}
		delete(found, rc.id)
		if bad {
			break
		}
	}
	if mode == "dst" && !bad {
		// sequential writer across a fall-back of the local clock: records that lie well inside different
		// intervals must be in different files (file names are not compared: local time repeats itself)
		fileOf := map[int64]string{}
		for _, rc := range recs {
			k := rc.start.Unix() / int64(interval/time.Second)
			bStart := time.Unix(k*int64(interval/time.Second), 0)
			if rc.start.Sub(bStart) < 100*time.Millisecond || bStart.Add(interval).Sub(rc.end) < 100*time.Millisecond || recFile[rc.id] == "" {
				continue
			}
			fileOf[k] = recFile[rc.id]
		}
		seenFile := map[string]int64{}
		for k, f := range fileOf {
			if k2, dup := seenFile[f]; dup && k2 != k {
				bad = true
				w.Violate("C13:no-rotation-across-clock-change", fmt.Sprintf("[dst] records written one at a time well inside intervals %d and %d (local clocks fell back by one hour in between) share the file %s: no file was created for the new interval", k2, k, f), cs)
				break
			}
			seenFile[f] = k
		}
		w.Count("dst_intervals_with_own_file", int64(len(seenFile)))
	}
	for id, snap := range preseed {
		f := found[id]
		if len(f) != 1 || foundSnap[id][0] != snap {
			bad = true
			w.Violate("C13:preexisting-content-lost", fmt.Sprintf("pre-existing record %s of a same-named file was not preserved (found %d times)", id, len(f)), cs)
		}
		delete(found, id)
	}
	if !bad {
		for id := range found {
			bad = true
			w.Violate("C13:ghost-record", "record "+id+" was never written", cs)
			break
		}
	}
	if int64(ones) != onesWritten.Load() {
		bad = true
		w.Violate("C13:lost-write", fmt.Sprintf("[%s] %d one-byte writes issued, %d found", mode, onesWritten.Load(), ones), cs)
	}
	sort.Slice(fileTimes, func(i, j int) bool { return fileTimes[i].Before(fileTimes[j]) })
	w.Eval(int64(len(recs)) + onesWritten.Load())
	w.Count("records_written", int64(len(recs)))
	w.Count("one_byte_writes", onesWritten.Load())
	w.Count("files_created", int64(files))
	w.Count("writers_held_across_boundary", holds.Load())
	w.Count("records_landed_in_previous_file", int64(inPrev))
	w.Count("stop_start_cycles", int64(cycles))
	w.Count("lines_of_exactly_64KiB", exact64k.Load())
	w.Count("looks_into_the_directory_right_after_a_write_returned", looks.Load())
	w.Count("idle_incarnations_on_an_existing_file", int64(idleIncarnations))
	w.Count("rotations_won", y.counts()["roll.rotate.cas"])
	w.Count("rotation_attempts", y.counts()["roll.rotate.checked"])
	if mode == "idleburst" {
		var secs []string
		for _, ft := range fileTimes {
			secs = append(secs, ft.Format("05"))
		}
		w.Note("idleburst: files were created in seconds " + strings.Join(secs, ",") + " (started in second " + t0.Format("05") + ")")
		w.Count("resumptions_after_a_silent_interval", int64(files-1))
		if files < 3 {
			w.Inconclusive(fmt.Sprintf("idleburst: only %d files, too few resumptions after a silent interval", files))
		}
	}
	if mode == "seqrestart" {
		w.Count("same_object_restarts_between_sequential_writes", restarts.Load())
	}
	if files < boundaries && mode != "sequential" && mode != "idleburst" && mode != "seqrestart" && !(mode == "seqsteady" && interval < time.Second) {
		// (sub-second periods share file names: names have one-second resolution)
		w.Inconclusive(fmt.Sprintf("only %d files for %d boundaries: too few rotations observed", files, boundaries))
	}
	if !bad {
		w.Distinct(fmt.Sprintf("%s|W%d|int%v|%s|files>=%d", mode, W, interval, w.Spec.Flavour, files))
		w.Sample(map[string]any{"case": cs, "records": len(recs), "files": files, "held_across_boundary": holds.Load()})
	}
}

func init() {
	register(&Prop{
		ID: "C13", Level: "exploration", MinDistinct: 5, Worker: c13Worker,
		Rule: "RollingFileAppender built directly with 1 s / 2 s intervals, crossed by real boundaries (quick 3-4, thorough up to 10) in parallel child processes: continuous writers (4-16), bursts aligned just before each boundary (16 writers x 20 records), a sequential writer that also idles across whole intervals, 8 writers that are all silent for more than a whole interval and then resume at the same instant (3+ times), a sequential writer whose appender object is stopped and started again between writes, a steady sequential writer (one write every 20 ms) with rotation periods of 700 / 1500 / 2500 ms, events appended one at a time whose own time field is frozen / 90 s ahead / in 2001 / zero (rotation and names follow the real time of the write), retentions of 876000 / 5000000 / 2147483647 hours, Stop/Start cycles several times per second, Start on a directory pre-seeded with same-named files for the current and following seconds, a mix with one-byte writes, a run in which one writer is stalled for more than two whole intervals inside Write, a run in which the rotating goroutine is overtaken by the next rotation and a single writer then continues alone, and a sequential run during which the local clock falls back by one hour (synthetic time zone); " +
			"records are self-describing frames of 12 B - 64 KiB with client-side snapshot (length+CRC) and wall-clock start/end stamps; a guarded yield point holds half of the writers that loaded the current file within 12 ms of a boundary until another writer has completed the rotation (at most 300 ms after the boundary), and adds 0-4 ms inside rotate() (all below one interval). " +
			"Oracle over the final directory: every record whole, exactly once, in exactly one file named <name>.<14 digits>; no record in a file whose name-time is after the write completed; sequential mode: a write started in interval k is not in a file older than interval k; pre-existing content preserved; one-byte writes counted. Non-trivial/distinct = distinct (mode, writers, interval, build flavour, files created) runs that held.",
		Assumptions: []string{"delays injected at yield points stay <= 300 ms, below one rotation interval, except in the stalled-writer run, where one writer is held for 2.3 intervals between loading the current file and writing (two rotations pass)", "wall clock is monotone during a run; file-name times are compared at one-second resolution"},
		Run: func(d *D) {
			var specs []Spec
			add := func(mode string, writers, intervalS int, fl string, n int64) {
				s := d.NewSpec("roll", fmt.Sprintf("%s-w%d-i%d-%s", mode, writers, intervalS, fl), len(specs), 64)
				s.Args["mode"], s.Args["writers"], s.Args["interval_s"] = mode, fmt.Sprint(writers), fmt.Sprint(intervalS)
				s.Flavour = fl
				s.N = n
				s.TimeoutS = 300
				specs = append(specs, s)
			}
			nb := d.Pick(3, 8)
			add("continuous", 8, 1, "plain", nb)
			add("continuous", 4, 1, "race", nb)
			add("bursts", 16, 1, "plain", nb)
			add("sequential", 1, 1, "plain", nb+1)
			add("idleburst", 8, 1, "plain", nb+4)
			add("seqrestart", 1, 1, "plain", nb+1)
			for _, ms := range []string{"1500", "2500", "700"} {
				add("seqsteady", 1, 1, "plain", nb)
				specs[len(specs)-1].Name += "-" + ms + "ms"
				specs[len(specs)-1].Args["interval_ms"] = ms
			}
			for i := 0; i < 4; i++ { // event times that do not come from the wall clock (frozen, ahead, 2001, zero)
				add("hookclock", 1, 1, "plain", nb)
				specs[len(specs)-1].Name += fmt.Sprint(i)
				specs[len(specs)-1].Shard = i
			}
			// "keep for ever" retentions: the scan that follows every rotation must not touch anything
			for i, ma := range []string{"876000", "5000000", "2147483647"} {
				add("continuous", 2, 1, "plain", nb)
				specs[len(specs)-1].Name += "-maxage" + fmt.Sprint(i)
				specs[len(specs)-1].Args["maxage"] = ma
			}
			add("stopstart", 2, 1, "plain", nb)
			add("preseeded", 4, 1, "plain", nb)
			add("onebyte", 4, 2, "plain", 2)
			add("stalledwriter", 2, 1, "plain", 4)
			add("stalledrotator", 2, 1, "plain", 5)
			add("dst", 1, 1, "plain", 5)
			// local zones far from UTC with a retention of 1-2 hours: the retention scan that follows every rotation works on
			// names written in local time and must not touch the files being written
			for i, z := range []string{"America/Los_Angeles", "Pacific/Kiritimati", "Pacific/Pago_Pago"} {
				add("continuous", 2, 1, "plain", nb)
				specs[len(specs)-1].Name += "-tz" + fmt.Sprint(i)
				specs[len(specs)-1].Env = []string{"TZ=" + z}
				specs[len(specs)-1].Args["maxage"] = []string{"2", "1", "3"}[i]
			}
			if !d.Quick() {
				add("continuous", 16, 1, "plain", 10)
				add("continuous", 2, 2, "plain", 4)
				add("bursts", 8, 1, "race", nb)
				add("sequential", 1, 2, "plain", 4)
				add("stopstart", 4, 1, "race", nb)
				add("preseeded", 1, 1, "plain", nb)
				add("onebyte", 8, 1, "plain", nb)
				add("continuous", 1, 1, "plain", nb)
				add("idleburst", 16, 1, "race", 10)
				add("idleburst", 3, 2, "plain", 12)
			}
			if !d.Quick() {
				specs = d.Replicate(specs, 3)
				specs = d.WithRuntimeVariants(specs, 4, nil)
			}
			outs := d.RunWorkers(specs, 16)
			d.raceVerdict(outs)
		},
	})
}

// c13lineVisible: is the line with this id in one of the (newest three) files of the directory right now?
func c13lineVisible(dir, id string) bool {
	ents, err := os.ReadDir(dir)
	if err != nil {
		return true // not decidable: say nothing
	}
	var names []string
	for _, e := range ents {
		if !e.IsDir() {
			names = append(names, e.Name())
		}
	}
	sort.Strings(names)
	needle := []byte(id + "|")
	for k := len(names) - 1; k >= 0 && k >= len(names)-3; k-- {
		f, err := os.Open(filepath.Join(dir, names[k]))
		if err != nil {
			continue
		}
		st, _ := f.Stat()
		off := int64(0)
		if st != nil && st.Size() > 200<<10 {
			off = st.Size() - 200<<10
		}
		b := make([]byte, 200<<10)
		n, _ := f.ReadAt(b, off)
		f.Close()
		if bytes.Contains(b[:n], needle) {
			return true
		}
	}
	return false
}
