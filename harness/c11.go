package main

// C11 — the reported file:line is the caller's statement, in both caller-lookup modes.
// Programs: a generated source file (zz_callsites_gen.go) with one site per entry point x call shape,
// built three ways (default, -gcflags=all=-l, -race).

import (
	"bytes"
	"context"
	"fmt"
	"io"
	"os"
	"runtime"
	"runtime/debug"
	"strconv"
	"strings"
	"sync"
	"sync/atomic"

	log "github.com/go-spring/log"
)

func c11Worker(w *W) {
	registerMonitorPlugins()
	tag := log.RegisterTag("c11tag")
	log.Stdout = io.Discard // console appenders are part of some configurations; their output is not what C11 looks at
	ctx := context.Background()
	inlFile := c11inlFile()
	type key struct {
		site int
		fast bool
	}
	seenLoc := map[int]string{} // site -> location reported in default mode
	order := []struct{ caller, fast string }{{"true", "false"}, {"true", "true"}, {"false", "false"}, {"false", "true"}, {"true", "true"}, {"true", "false"}}
	for round, cf := range order {
		if round == 1 && w.Spec.Flavour != "race" {
			// before the first sequential fast-mode round: every site is still unknown to the fast lookup. 8 goroutines
			// reach each site at the same moment (spin barrier per site), so that a site is resolved by several
			// goroutines at once; each record must carry the location established in default mode
			c11coldLockstep(w, ctx, tag, seenLoc)
		}
		cfg := map[string]string{"appender.rec.type": "VRec", "logger.lg.type": "Logger", "logger.lg.tags": "c11tag", "logger.lg.appenderRef.ref": "rec",
			"enableCaller": cf.caller, "fastCaller": cf.fast}
		if round%2 == 1 {
			cfg["logger.lg.type"] = "AsyncLogger"
			cfg["logger.lg.bufferFullPolicy"] = "Block"
		}
		if round >= 4 {
			// built-in appenders with short file:line widths format the event BEFORE the recording appender sees it: the
			// location in the record is the statement's, whatever a layout made of it for display
			delete(cfg, "logger.lg.appenderRef.ref")
			cfg["appender.con.type"], cfg["appender.con.layout.type"], cfg["appender.con.layout.fileLineLength"] = "Console", "TextLayout", "10"
			cfg["appender.cj.type"], cfg["appender.cj.layout.type"], cfg["appender.cj.layout.fileLineLength"] = "Console", "JSONLayout", "3"
			cfg["logger.lg.appenderRef[0].ref"], cfg["logger.lg.appenderRef[1].ref"], cfg["logger.lg.appenderRef[2].ref"] = "con", "cj", "rec"
		}
		if err := log.Refresh(cfg); err != nil {
			w.Violate("C11:refresh-failed", "Refresh failed: "+err.Error(), cfg)
			log.Destroy()
			continue
		}
		type exp struct {
			f string
			l int
		}
		expAt := map[string]exp{} // "id#rep" not needed: expectation per site is stable
		for rep := 0; rep < 3; rep++ {
			for i, s := range c11sites {
				c11E[i].f, c11E[i].l = "", 0
				if pv, st := catch(func() { s.run(ctx, tag) }); pv != nil {
					w.Violate("C11:log-call-panic", fmt.Sprintf("site %d (%s/%s) panicked: %v\n%s", i, s.entry, s.shape, pv, trunc(st, 800)), nil)
					continue
				}
				e := exp{c11E[i].f, c11E[i].l}
				if s.staticLine != 0 {
					e = exp{inlFile, s.staticLine}
				}
				expAt[fmt.Sprintf("id-c11-%d", i)] = e
			}
		}
		log.Destroy()
		items := rec.take()
		perSite := map[int]int{}
		for _, it := range items {
			id := idOf(it.JSON)
			var n int
			fmt.Sscanf(id, "id-c11-%d", &n)
			if n < 0 || n >= len(c11sites) {
				continue
			}
			s := c11sites[n]
			perSite[n]++
			e := expAt[id]
			cs := map[string]any{"site": n, "entry": s.entry, "shape": s.shape, "enableCaller": cf.caller, "fastCaller": cf.fast, "flavour": w.Spec.Flavour}
			w.Eval(1)
			mode := "default"
			if cf.fast == "true" {
				mode = "fast"
			}
			if cf.caller == "false" {
				if it.File != "" || it.Line != 0 {
					w.Violate("C11:location-when-disabled:"+mode, fmt.Sprintf("caller lookup disabled but the record of site %d (%s/%s) carries %s:%d", n, s.entry, s.shape, it.File, it.Line), cs)
				} else {
					w.Distinct(fmt.Sprintf("%s|%s|off|%s|%s", s.entry, s.shape, mode, w.Spec.Flavour))
				}
				continue
			}
			if it.File != e.f || it.Line != e.l {
				w.Violate("C11:wrong-location:"+mode+":"+s.shape, fmt.Sprintf("site %d (%s in shape %s, %s mode, %s build): record says %s:%d, the statement is at %s:%d", n, s.entry, s.shape, mode, w.Spec.Flavour, it.File, it.Line, e.f, e.l), cs)
				continue
			}
			loc := fmt.Sprintf("%s:%d", it.File, it.Line)
			if prev, ok := seenLoc[n]; ok && prev != loc {
				w.Violate("C11:modes-disagree", fmt.Sprintf("site %d reported %s in one mode and %s in another", n, prev, loc), cs)
			}
			seenLoc[n] = loc
			w.Distinct(fmt.Sprintf("%s|%s|on|%s|%s", s.entry, s.shape, mode, w.Spec.Flavour))
		}
		for i, s := range c11sites {
			want := 3
			if s.shape == "generic" {
				want = 6
			}
			if perSite[i] != want {
				w.Violate("C11:record-count", fmt.Sprintf("site %d (%s/%s) produced %d records in 3 runs, expected %d", i, s.entry, s.shape, perSite[i], want), nil)
			}
		}
	}
	// Refresh applies the two switches in Go-map order, which changes from call to call: the outcome must not depend on it.
	// 120 short cycles over every combination (fastCaller given as true / false / not at all - then the previous value
	// stays), a handful of sites each: lookup off means an empty location whatever fastCaller says, lookup on means the
	// statement's location in whichever mode is in force.
	{
		nSites := 6
		if nSites > len(c11sites) {
			nSites = len(c11sites)
		}
		cyclesOK := 0
		for k := 0; k < 120; k++ {
			caller := []string{"false", "true"}[(k/3)%2]
			if k%5 == 0 {
				caller = "false"
			}
			cfg := map[string]string{"appender.rec.type": "VRec", "logger.lg.type": "Logger", "logger.lg.tags": "c11tag", "logger.lg.appenderRef.ref": "rec", "enableCaller": caller}
			switch k % 3 {
			case 0:
				cfg["fastCaller"] = "true"
			case 1:
				cfg["fastCaller"] = "false"
			}
			if err := log.Refresh(cfg); err != nil {
				w.Violate("C11:refresh-failed", "Refresh failed: "+err.Error(), cfg)
				log.Destroy()
				break
			}
			type exp struct {
				f string
				l int
			}
			expAt := map[string]exp{}
			for i := 0; i < nSites; i++ {
				s := c11sites[i]
				c11E[i].f, c11E[i].l = "", 0
				if pv, _ := catch(func() { s.run(ctx, tag) }); pv != nil {
					continue
				}
				e := exp{c11E[i].f, c11E[i].l}
				if s.staticLine != 0 {
					e = exp{inlFile, s.staticLine}
				}
				expAt[fmt.Sprintf("id-c11-%d", i)] = e
			}
			log.Destroy()
			good := true
			for _, it := range rec.take() {
				e, ok := expAt[idOf(it.JSON)]
				if !ok {
					continue
				}
				w.Eval(1)
				cs := map[string]any{"cycle": k, "config": cfg, "phase": "switches applied in map order"}
				if caller == "false" && (it.File != "" || it.Line != 0) {
					good = false
					w.Violate("C11:location-when-disabled:order", fmt.Sprintf("cycle %d: enableCaller=false (fastCaller=%q) but the record carries %s:%d", k, cfg["fastCaller"], it.File, it.Line), cs)
				} else if caller == "true" && (it.File != e.f || it.Line != e.l) {
					good = false
					w.Violate("C11:wrong-location:order", fmt.Sprintf("cycle %d: enableCaller=true (fastCaller=%q): record says %s:%d, the statement is at %s:%d", k, cfg["fastCaller"], it.File, it.Line, e.f, e.l), cs)
				}
			}
			if good {
				cyclesOK++
			}
		}
		w.Count("switch_order_cycles", int64(cyclesOK))
		if cyclesOK == 120 {
			w.Distinct("switch-order-cycles|" + w.Spec.Flavour)
		}
	}
	// concurrent phase (not in the race build: the generated sites store their marker in a shared table): 16 goroutines
	// hammer randomly chosen sites (32 calls in a row each time); the lookup caches are shared between goroutines. A cheap
	// appender compares each event's location with the one established above (millions of observations per second, so
	// that windows of a few instructions inside a shared cache are hit)
	if w.Spec.Flavour != "race" {
		c11locOnce.Do(func() { log.RegisterPlugin[VLoc]("VLoc", log.PluginTypeAppender) })
		c11loc = make([]string, len(c11sites))
		for n, loc := range seenLoc {
			c11loc[n] = loc
		}
		for _, fast := range []string{"true", "false"} {
			cfg := map[string]string{"appender.loc.type": "VLoc", "logger.lg.type": "Logger", "logger.lg.tags": "c11tag", "logger.lg.appenderRef.ref": "loc", "enableCaller": "true", "fastCaller": fast}
			if err := log.Refresh(cfg); err != nil {
				w.Violate("C11:refresh-failed", "Refresh failed: "+err.Error(), cfg)
				log.Destroy()
				continue
			}
			c11locBad.Store(0)
			c11locSeen.Store(0)
			c11locFirst.Store("")
			const G = 16
			rounds := 1500
			if fast == "false" {
				rounds = 300
			}
			var wg sync.WaitGroup
			for g := 0; g < G; g++ {
				wg.Add(1)
				go func(g int) {
					defer wg.Done()
					r := newRng(w.Spec.Seed, uint64(1000+g))
					for rep := 0; rep < rounds && c11locBad.Load() == 0; rep++ {
						s := c11sites[r.IntN(len(c11sites))]
						if s.shape == "goroutine" {
							continue // these sites spawn and join a goroutine per call: too slow for the hot loop, covered above
						}
						for k := 0; k < 32; k++ {
							s.run(ctx, tag)
						}
					}
				}(g)
			}
			wg.Wait()
			log.Destroy()
			mode := map[string]string{"true": "fast", "false": "default"}[fast]
			w.Eval(c11locSeen.Load())
			w.Count("concurrent_observations", c11locSeen.Load())
			if bad := c11locBad.Load(); bad > 0 {
				first, _ := c11locFirst.Load().(string)
				w.Violate("C11:wrong-location:"+mode+":concurrent", fmt.Sprintf("%d goroutines logging from randomly chosen sites (%s mode, %s build): %d of %d records carried another statement's location; first: %s", G, mode, w.Spec.Flavour, bad, c11locSeen.Load(), first),
					map[string]any{"fastCaller": fast, "goroutines": G})
			} else if c11locSeen.Load() > 0 {
				w.Distinct("concurrent|" + mode + "|" + w.Spec.Flavour)
			}
		}
	}
	// history phase: with caller lookup ON an asynchronous logger overflows and discards thousands of located events (their
	// objects go back to the pool), the configuration is destroyed, and the next one has caller lookup OFF: every record
	// must then carry an empty location - nothing a recycled event remembers may show
	for _, fast := range []string{"false", "true"} {
		for _, pol := range []string{"Discard", "DiscardOldest"} {
			cfg := map[string]string{"appender.g.type": "VGate", "logger.lg.type": "AsyncLogger", "logger.lg.tags": "c11tag", "logger.lg.appenderRef.ref": "g",
				"logger.lg.bufferSize": "100", "logger.lg.bufferFullPolicy": pol, "enableCaller": "true", "fastCaller": fast}
			if err := log.Refresh(cfg); err != nil {
				w.Violate("C11:refresh-failed", "Refresh failed: "+err.Error(), cfg)
				log.Destroy()
				continue
			}
			// a garbage collection empties the pools; this worker allocates enough to collect every millisecond, which would hide
			// anything a recycled event carries, so the collector is paused for the few milliseconds of this history
			gcOld := debug.SetGCPercent(-1)
			g := gateFor("g")
			g.Open.Store(false)
			// from 16 goroutines, so that the overflow (and whatever it leaves in per-processor pools) happens on many processors
			var fw sync.WaitGroup
			for fg := 0; fg < 16; fg++ {
				fw.Add(1)
				go func(fg int) {
					defer fw.Done()
					for k := 0; k < 200; k++ {
						if k%2 == 0 {
							log.Infof(ctx, tag, "id-c11of-%d overflow", fg*1000+k)
						} else {
							log.Warn(ctx, tag, log.Msg("overflow"), log.Int("k", k))
						}
					}
				}(fg)
			}
			fw.Wait()
			g.Open.Store(true)
			for i := 0; i < 8; i++ {
				g.Gate <- struct{}{}
			}
			log.Destroy()
			for len(g.Entered) > 0 {
				<-g.Entered
			}
			for len(g.Gate) > 0 {
				<-g.Gate
			}
			rec.take()
			cfg2 := map[string]string{"appender.rec.type": "VRec", "logger.lg.type": "Logger", "logger.lg.tags": "c11tag", "logger.lg.appenderRef.ref": "rec", "enableCaller": "false", "fastCaller": fast}
			if err := log.Refresh(cfg2); err != nil {
				w.Violate("C11:refresh-failed", "Refresh failed: "+err.Error(), cfg2)
				log.Destroy()
				debug.SetGCPercent(gcOld)
				continue
			}
			for fg := 0; fg < 48; fg++ {
				fw.Add(1)
				go func(fg int) {
					defer fw.Done()
					for k := 0; k < 25; k++ {
						log.Errorf(ctx, tag, "id-c11off-%d lookup disabled", fg*1000+k)
						if k%5 == 0 {
							runtime.Gosched()
						}
					}
				}(fg)
			}
			fw.Wait()
			log.Destroy()
			debug.SetGCPercent(gcOld)
			mode := map[string]string{"true": "fast", "false": "default"}[fast]
			stale := 0
			first := ""
			items := rec.take()
			for _, it := range items {
				if it.File != "" || it.Line != 0 {
					if stale++; first == "" {
						first = fmt.Sprintf("%s:%d", it.File, it.Line)
					}
				}
			}
			w.Eval(int64(len(items)))
			w.Count("records_checked_after_an_overflowing_cycle", int64(len(items)))
			if stale > 0 {
				w.Violate("C11:location-when-disabled:"+mode+":after-overflow", fmt.Sprintf("caller lookup disabled, yet %d of %d records carry a location (first: %s); the previous configuration (lookup enabled, async logger, policy %s) had discarded about 3000 located events", stale, len(items), first, pol),
					map[string]any{"fastCaller": fast, "policy": pol})
			} else if len(items) > 0 {
				w.Distinct("off-after-overflow|" + mode + "|" + pol + "|" + w.Spec.Flavour)
			}
		}
	}
	// leave defaults
	_ = log.Refresh(map[string]string{"appender.rec.type": "VRec", "enableCaller": "true", "fastCaller": "false"})
	log.Destroy()
	big := 0
	for i := range c11sites {
		if c11E[i].l > 65535 {
			big++
		}
	}
	w.Count("sites", int64(len(c11sites)))
	w.Count("sites_beyond_line_65535", int64(big))
	w.Sample(map[string]any{"flavour": w.Spec.Flavour, "site": "Errorf in a deferred closure", "expected": "the here() marker evaluated on the same source line", "inlined_helper_file": shortPath(inlFile)})
}

func c11coldLockstep(w *W, ctx context.Context, tag *log.Tag, seenLoc map[int]string) {
	c11locOnce.Do(func() { log.RegisterPlugin[VLoc]("VLoc", log.PluginTypeAppender) })
	c11loc = make([]string, len(c11sites))
	for n, loc := range seenLoc {
		c11loc[n] = loc
	}
	cfg := map[string]string{"appender.loc.type": "VLoc", "logger.lg.type": "Logger", "logger.lg.tags": "c11tag", "logger.lg.appenderRef.ref": "loc", "enableCaller": "true", "fastCaller": "true"}
	if err := log.Refresh(cfg); err != nil {
		w.Violate("C11:refresh-failed", "Refresh failed: "+err.Error(), cfg)
		log.Destroy()
		return
	}
	c11locBad.Store(0)
	c11locSeen.Store(0)
	c11locFirst.Store("")
	G := 8
	if n := runtime.NumCPU(); n < G {
		G = n
	}
	arrived := make([]atomic.Int32, len(c11sites))
	var wg sync.WaitGroup
	for g := 0; g < G; g++ {
		wg.Add(1)
		go func() {
			defer wg.Done()
			for i, s := range c11sites {
				if s.shape == "goroutine" {
					continue
				}
				arrived[i].Add(1)
				for spins := 0; arrived[i].Load() < int32(G); spins++ {
					if spins > 1<<22 {
						runtime.Gosched() // never wait forever on an overloaded machine
					}
				}
				s.run(ctx, tag)
			}
		}()
	}
	wg.Wait()
	log.Destroy()
	w.Eval(c11locSeen.Load())
	w.Count("cold_lockstep_observations", c11locSeen.Load())
	if bad := c11locBad.Load(); bad > 0 {
		first, _ := c11locFirst.Load().(string)
		w.Violate("C11:wrong-location:fast:concurrent", fmt.Sprintf("%d goroutines reaching each never-resolved site at the same moment (fast mode, %s build): %d of %d records carried a wrong location; first: %s", G, w.Spec.Flavour, bad, c11locSeen.Load(), first),
			map[string]any{"fastCaller": "true", "goroutines": G, "phase": "cold lockstep"})
	} else if c11locSeen.Load() > 0 {
		w.Distinct("cold-lockstep|fast|" + w.Spec.Flavour)
	}
}

// VLoc: appender that only compares the event's location with the expected one of its site (id in the msg field).
type VLoc struct{ log.AppenderBase }

var (
	c11locOnce  sync.Once
	c11loc      []string // site -> "file:line"
	c11locBad   atomic.Int64
	c11locSeen  atomic.Int64
	c11locFirst atomic.Value
)

func (a *VLoc) Start() error   { return nil }
func (a *VLoc) Stop()          {}
func (a *VLoc) Write(b []byte) {}
func (a *VLoc) Append(e *log.Event) {
	n := -1
	for _, f := range e.Fields {
		if f.Key == "msg" {
			if s := c11fieldString(f); strings.HasPrefix(s, "id-c11-") {
				n, _ = strconv.Atoi(s[len("id-c11-"):])
			}
			break
		}
	}
	if n < 0 || n >= len(c11loc) || c11loc[n] == "" {
		return
	}
	c11locSeen.Add(1)
	want := c11loc[n]
	i := strings.LastIndexByte(want, ':')
	if e.File != want[:i] || strconv.Itoa(e.Line) != want[i+1:] {
		if c11locBad.Add(1) == 1 {
			c11locFirst.Store(fmt.Sprintf("site %d (%s/%s) reported %s:%d, the statement is at %s", n, c11sites[n].entry, c11sites[n].shape, e.File, e.Line, want))
		}
	}
}

// c11fieldString returns the string carried by a string field (encoded through a tiny encoder).
func c11fieldString(f log.Field) string {
	var buf bytes.Buffer
	enc := log.NewTextEncoder(&buf, "||")
	f.Encode(enc)
	s := buf.String()
	if i := strings.IndexByte(s, '='); i >= 0 {
		return s[i+1:]
	}
	return s
}

func shortPath(p string) string {
	if i := strings.LastIndex(p, "/"); i >= 0 {
		return p[i+1:]
	}
	return p
}

func init() {
	register(&Prop{
		ID: "C11", Level: "exploration", MinDistinct: 300, Worker: c11Worker,
		Rule: "programs: a generated source file with 168 call sites = 15 entry points x 11 call shapes (plain, closure, deferred closure, goroutine closure, function value, method, method value, generic helper instantiated twice, small inlinable helper, and two shapes placed beyond line 65535 through //line directives) + Record through wrappers with skip 1, 2 and 3; " +
			"each site marks its own location with runtime.Caller on the same source line (inlinable helpers: static //line position). The file is compiled three ways (default, -gcflags=all=-l, -race) and every site runs 3x (cache miss, then hits) under Refresh-set enableCaller x fastCaller in the order on/default, on/fast, off, off, on/fast, on/default, alternating sync and async loggers (so pooled events are recycled across modes). " +
			"Afterwards (default and no-inlining builds) 8 goroutines run all sites 12x in different orders in fast and in default mode: the lookup caches are shared, every record must still carry its own site's location. " +
			"Non-trivial/distinct = distinct (entry point, shape, caller on/off, lookup mode) tuples whose record matched, per build flavour.",
		Assumptions: []string{"'go log.X(...)' and 'defer log.X(...)' written directly (no calling statement frame exists) are not generated"},
		Run: func(d *D) {
			var specs []Spec
			for i, fl := range []string{"plain", "noinline", "race"} {
				s := d.NewSpec("sites", "sites-"+fl, i, 3)
				s.Flavour = fl
				specs = append(specs, s)
			}
			flavours := []string{"default", "-gcflags=all=-l", "-race"}
			if !d.Quick() {
				// thorough: the same program compiled by the second pre-installed toolchain (go1.26.8), with and without inlining
				for _, fl := range []string{"go126", "go126noinline"} {
					if _, err := os.Stat(d.bin(fl)); err != nil {
						d.mu.Lock()
						d.Notes = append(d.Notes, "build flavour "+fl+" not available (toolchain go1.26.8 absent)")
						d.mu.Unlock()
						continue
					}
					s := d.NewSpec("sites", "sites-"+fl, len(specs), 5)
					s.Flavour = fl
					specs = append(specs, s)
					flavours = append(flavours, map[string]string{"go126": "go1.26.8 default", "go126noinline": "go1.26.8 -gcflags=all=-l"}[fl])
				}
			}
			outs := d.RunWorkers(specs, 5)
			d.raceVerdict(outs)
			d.Extra["programs"] = len(specs)
			d.Extra["build_flavours"] = flavours
		},
	})
}
