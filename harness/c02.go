package main

// C02 — each tag is served by the most specific configured logger, else root.

import (
	"context"
	"encoding/json"
	"fmt"
	"math/rand/v2"
	"sort"
	"strings"

	log "github.com/go-spring/log"
)

type c02logger struct {
	Name    string   `json:"name"`
	Entries []string `json:"entries"`                    // tag list entries as meant (trimmed)
	Raw     string   `json:"raw"`                        // as written in the configuration
	Mem     bool     `json:"user_logger_kind,omitempty"` // a user-written logger kind (VMem) that reports a decorated name
}

type c02case struct {
	Loggers  []c02logger       `json:"loggers"`
	Root     bool              `json:"root"`
	RootTags string            `json:"root_tags,omitempty"`
	ErrClass string            `json:"err_class"` // "" = valid
	Late     string            `json:"late,omitempty"`
	Config   map[string]string `json:"config"`
}

func c02universe(r *rand.Rand) []string {
	// incl. one-character segments (prefix arithmetic at index 0/1) and long ones: names and wildcard prefixes reach the 36-byte limit
	segs := []string{"ab", "cd", "svc", "x1", "req", "in", "a", "q", "7", "longsegment0", "eightchr", "x234567890", "app", "rpc"}
	set := map[string]bool{}
	for len(set) < 80 {
		k := 1 + r.IntN(4)
		var parts []string
		for i := 0; i < k; i++ {
			parts = append(parts, segs[r.IntN(len(segs))])
		}
		t := strings.Join(parts, "_")
		if r.IntN(2) == 0 {
			t = "_" + t
		}
		if c18valid(t) {
			set[t] = true
		}
	}
	var u []string
	for t := range set {
		u = append(u, t)
	}
	sort.Strings(u)
	return u
}

// prefixes returns the proper underscore-delimited prefixes P of t (t = P + "_" + rest, rest != "", P != "" and P != "_")
func c02prefixes(t string) []string {
	var ps []string
	for i := 1; i < len(t); i++ {
		if t[i] == '_' && i+1 < len(t) {
			p := t[:i]
			if p != "" && p != "_" {
				ps = append(ps, p)
			}
		}
	}
	return ps
}

func c02renderList(r *rand.Rand, entries []string) string {
	var sb strings.Builder
	for i, e := range entries {
		if i > 0 {
			sb.WriteByte(',')
		}
		if r.IntN(4) == 0 {
			sb.WriteString([]string{" ", "  ", "\t"}[r.IntN(3)])
		}
		sb.WriteString(e)
		if r.IntN(4) == 0 {
			sb.WriteByte(' ')
		}
		if r.IntN(8) == 0 {
			sb.WriteString(", ,")
		}
	}
	if r.IntN(6) == 0 {
		sb.WriteByte(',')
	}
	return sb.String()
}

func c02gen(r *rand.Rand, universe []string) *c02case {
	c := &c02case{Config: map[string]string{}}
	nl := 1 + r.IntN(4)
	used := map[string]bool{}
	// candidate wildcard prefixes
	var prefs []string
	ps := map[string]bool{}
	for _, t := range universe {
		for _, p := range c02prefixes(t) {
			ps[p] = true
		}
		if r.IntN(6) == 0 {
			ps[t] = true // wildcard "T_*" for a registered tag T: must not capture T itself
		}
	}
	for p := range ps {
		prefs = append(prefs, p)
	}
	sort.Strings(prefs)
	pickEntry := func() string {
		for {
			var e string
			switch x := r.IntN(10); {
			case x < 5:
				e = universe[r.IntN(len(universe))]
			case x < 6:
				e = "zz_unregistered_" + fmt.Sprint(r.IntN(5))
			default:
				p := prefs[r.IntN(len(prefs))]
				e = p + "_*"
				if r.IntN(7) == 0 {
					// oddly spelled entries that contain '*' and end in "_*" are accepted by the stated rule; none of them is
					// "P_*" for a proper underscore-delimited prefix P of any valid tag, so they serve nothing - in particular
					// they are not another spelling of p_*
					e = []string{p + "__*", p + "_*_*", p + "*_*", "_*", "*_*", p + "_*__*", p + "_**_*", "_" + p + "_*"}[r.IntN(8)]
				}
			}
			if !used[e] {
				return e
			}
		}
	}
	for i := 0; i < nl; i++ {
		lg := c02logger{Name: fmt.Sprintf("l%d", i)}
		ne := 1 + r.IntN(4)
		for k := 0; k < ne; k++ {
			e := pickEntry()
			lg.Entries = append(lg.Entries, e)
		}
		for _, e := range lg.Entries {
			used[e] = true
		}
		if r.IntN(4) == 0 { // repeated entry inside one logger is fine
			lg.Entries = append(lg.Entries, lg.Entries[r.IntN(len(lg.Entries))])
		}
		c.Loggers = append(c.Loggers, lg)
	}
	c.Root = r.IntN(2) == 0
	// error injection
	if r.IntN(14) == 0 {
		// a configuration that is fine as far as tags go but fails late (after tags were bound): whatever Refresh answers,
		// after Destroy the next configuration must be routed as if this one had never been tried
		c.ErrClass = "late-failure"
		c.Late = []string{"bufferCap=12XB", "enableCaller=perhaps", "fastCaller=maybe"}[r.IntN(3)]
	} else if r.IntN(3) == 0 {
		switch r.IntN(4) {
		case 0:
			if nl >= 2 {
				c.ErrClass = "duplicate-across-loggers"
				a, b := r.IntN(nl), r.IntN(nl)
				for b == a {
					b = r.IntN(nl)
				}
				e := c.Loggers[a].Entries[r.IntN(len(c.Loggers[a].Entries))]
				pos := r.IntN(len(c.Loggers[b].Entries) + 1)
				ent := c.Loggers[b].Entries
				c.Loggers[b].Entries = append(append(append([]string{}, ent[:pos]...), e), ent[pos:]...)
			}
		case 1:
			c.ErrClass = "root-with-tags"
			c.Root = true
			c.RootTags = []string{universe[r.IntN(len(universe))], prefs[r.IntN(len(prefs))] + "_*", "zz_other"}[r.IntN(3)]
		case 2:
			c.ErrClass = "logger-without-tags"
			i := r.IntN(nl)
			c.Loggers[i].Entries = nil
			c.Loggers[i].Raw = []string{"<absent>", "", " ", ",", " , ,, ", "\t"}[r.IntN(6)]
		case 3:
			c.ErrClass = "bad-wildcard"
			i := r.IntN(nl)
			p := prefs[r.IntN(len(prefs))]
			bad := []string{p + "*", "*", p + "_*_in", p + "**", "*_" + p, p + "_*x", p + "_*_*x", "_*" + p}[r.IntN(8)]
			pos := r.IntN(len(c.Loggers[i].Entries) + 1)
			ent := c.Loggers[i].Entries
			c.Loggers[i].Entries = append(append(append([]string{}, ent[:pos]...), bad), ent[pos:]...)
		}
	}
	// render
	cfg := c.Config
	refKey := func() string {
		return []string{"appenderRef.ref", "appender-ref.ref", "appender_ref.ref", "AppenderRef.ref", "appenderRef[0].ref"}[r.IntN(5)]
	}
	tagsKey := func() string { return []string{"tags", "Tags"}[r.IntN(2)] }
	cfg["appender.unused.type"] = "Discard" // (a configuration needs an appender section even if every logger records by itself)
	for i := range c.Loggers {
		lg := &c.Loggers[i]
		if lg.Mem = r.IntN(5) == 0; lg.Mem {
			cfg["logger."+lg.Name+".type"], cfg["logger."+lg.Name+".decorate"] = "VMem", "true"
		} else {
			cfg["appender.s"+lg.Name+".type"] = "VRec"
			cfg["logger."+lg.Name+".type"] = "Logger"
			cfg["logger."+lg.Name+"."+refKey()] = "s" + lg.Name
		}
		if lg.Raw == "<absent>" {
			continue
		}
		if lg.Entries != nil {
			lg.Raw = c02renderList(r, lg.Entries)
		}
		if r.IntN(5) == 0 {
			// the tag list comes from a top-level property through a ${} reference: the same rules apply to the resolved list
			cfg["logger."+lg.Name+"."+tagsKey()] = "${taglist" + lg.Name + "}"
			cfg["taglist"+lg.Name] = lg.Raw
		} else {
			cfg["logger."+lg.Name+"."+tagsKey()] = lg.Raw
		}
	}
	switch c.Late {
	case "bufferCap=12XB":
		cfg["bufferCap"] = "12XB"
	case "enableCaller=perhaps":
		cfg["enableCaller"] = "perhaps"
	case "fastCaller=maybe":
		cfg["fastCaller"] = "maybe"
	}
	if c.Root {
		cfg["appender.sroot.type"] = "VRec"
		cfg["logger.root.type"] = "Logger"
		cfg["logger.root."+refKey()] = "sroot"
		if c.RootTags != "" {
			cfg["logger.root."+tagsKey()] = c.RootTags
		}
	}
	return c
}

// c02owner is the reference matcher.
func (c *c02case) owner(tag string) string {
	lit := map[string]string{}
	for _, lg := range c.Loggers {
		for _, e := range lg.Entries {
			lit[e] = "s" + lg.Name
			if lg.Mem {
				lit[e] = "m" + lg.Name
			}
		}
	}
	if n, ok := lit[tag]; ok {
		return n
	}
	best, bestLen := "", -1
	for _, p := range c02prefixes(tag) {
		if n, ok := lit[p+"_*"]; ok && len(p) > bestLen {
			best, bestLen = n, len(p)
		}
	}
	if bestLen >= 0 {
		return best
	}
	if c.Root {
		return "sroot"
	}
	return "console"
}

// c02register registers a tag; names of the form _app_… / _rpc_… go through the helper API with the rest split into
// (subType, action) at a random underscore, so that helper parts consisting of several words occur. The name - and with it
// the routing - is the same whichever way it was registered.
func c02register(r *rand.Rand, t string) *log.Tag {
	for _, main := range []string{"app", "rpc"} {
		rest, ok := strings.CutPrefix(t, "_"+main+"_")
		if !ok || rest == "" || r.IntN(4) == 0 {
			continue
		}
		sub, act := rest, ""
		var cuts []int
		for i := 1; i < len(rest)-1; i++ {
			if rest[i] == '_' {
				cuts = append(cuts, i)
			}
		}
		if len(cuts) > 0 && r.IntN(3) > 0 {
			c := cuts[r.IntN(len(cuts))]
			sub, act = rest[:c], rest[c+1:]
		}
		var tg *log.Tag
		if main == "app" {
			tg = log.RegisterAppTag(sub, act)
		} else {
			tg = log.RegisterRPCTag(sub, act)
		}
		if tg != log.RegisterTag(t) {
			panic("harness: helper and RegisterTag disagree on " + t)
		}
		return tg
	}
	return log.RegisterTag(t)
}

// c02ManyTags: an application with more than 2^16 registered tags (legal while nothing is live). Three wildcard loggers
// by name class plus a configured root; every tag logs once and must arrive at the logger of its class, exactly once.
func c02ManyTags(w *W) {
	registerMonitorPlugins()
	sink := &chunkSink{}
	log.Stdout = sink
	n := int(w.Spec.N)
	tags := make([]*log.Tag, n)
	for i := 0; i < n; i++ {
		tags[i] = log.RegisterTag(fmt.Sprintf("%s_t%d", []string{"ka", "kb", "kc", "zz"}[i%4], i))
	}
	cfg := map[string]string{}
	for _, c := range []string{"ka", "kb", "kc"} {
		cfg["appender.s"+c+".type"] = "VRec"
		cfg["logger.l"+c+".type"], cfg["logger.l"+c+".tags"], cfg["logger.l"+c+".appenderRef.ref"] = "Logger", c+"_*", "s"+c
	}
	cfg["appender.sroot.type"], cfg["logger.root.type"], cfg["logger.root.appenderRef.ref"] = "VRec", "Logger", "sroot"
	cs := map[string]any{"scenario": "many registered tags", "tags": n}
	if err := log.Refresh(cfg); err != nil {
		w.Violate("C02:valid-config-rejected", "Refresh with "+fmt.Sprint(n)+" registered tags failed: "+trunc(err.Error(), 300), cs)
		log.Destroy()
		return
	}
	ctx := context.Background()
	for i, t := range tags {
		log.Info(ctx, t, log.Msg(fmt.Sprintf("id-mt%d-%d", w.Spec.Shard, i)))
	}
	log.Destroy()
	seen := make([]int8, n)
	bad := 0
	for _, it := range rec.take() {
		var i int
		if _, err := fmt.Sscanf(idOf(it.JSON), fmt.Sprintf("id-mt%d-%%d", w.Spec.Shard), &i); err != nil || i < 0 || i >= n {
			continue
		}
		want := []string{"ska", "skb", "skc", "sroot"}[i%4]
		seen[i]++
		if it.Sink != want && bad < 3 {
			bad++
			w.Violate("C02:misrouted", fmt.Sprintf("with %d registered tags, tag #%d (%s_t%d) was served by %s, expected %s", n, i, []string{"ka", "kb", "kc", "zz"}[i%4], i, it.Sink, want), cs)
		}
	}
	for i, k := range seen {
		if k != 1 && bad < 3 {
			bad++
			w.Violate("C02:lost", fmt.Sprintf("with %d registered tags, the event of tag #%d arrived %d times", n, i, k), cs)
		}
	}
	w.Eval(1)
	w.Count("tag_routings_checked", int64(n))
	if bad == 0 {
		w.Distinct(fmt.Sprintf("manytags|%d", n))
		w.Sample(cs)
	}
}

func c02Worker(w *W) {
	if w.Spec.Kind == "manytags" {
		c02ManyTags(w)
		return
	}
	registerMonitorPlugins()
	sink := &chunkSink{}
	log.Stdout = sink
	ur := newRng(w.Spec.Seed, 424242+uint64(w.Spec.Shard))
	universe := c02universe(ur)
	// a quarter of the universe is registered later, one tag at a time between Refresh/Destroy cycles (registration is
	// possible again after Destroy): a tag registered after earlier cycles must be routed like any other
	late := append([]string{}, universe[len(universe)*3/4:]...)
	ur.Shuffle(len(late), func(i, j int) { late[i], late[j] = late[j], late[i] })
	isLate := map[string]bool{}
	for _, t := range late {
		isLate[t] = true
	}
	tags := map[string]*log.Tag{}
	var all []string
	for _, t := range universe {
		if !isLate[t] {
			tags[t] = c02register(ur, t)
			all = append(all, t)
		}
	}
	tags["_app_def"] = log.TagAppDef
	tags["_biz_def"] = log.TagBizDef
	all = append(all, "_app_def", "_biz_def")
	sort.Strings(all)
	if got := log.GetAllTags(); len(got) != len(all) {
		w.Note(fmt.Sprintf("GetAllTags has %d names, harness registered %d (+2 built-in)", len(got), len(all)-2))
	}
	// every second worker also holds a named handle for logger l0 (obtained before the first Refresh, as the API demands): the
	// tag rules - in particular "a non-root logger that lists no tags is an error" - hold whether or not a logger is also
	// addressed by name, and a raw write through the handle reaches l0's appender only
	var handle interface{ Write([]byte) (int, error) }
	if w.Spec.Shard%2 == 1 {
		handle = log.GetLogger("l0")
	}
	ctx := context.Background()
	n := int(w.Spec.N)
	only := -1
	if w.Spec.Replay != nil {
		var rc struct {
			Index int `json:"index"`
		}
		_ = json.Unmarshal(w.Spec.Replay, &rc)
		only = rc.Index
		n = only + 1
	}
	for ci := 0; ci < n; ci++ {
		r := newRng(w.Spec.Seed, uint64(w.Spec.Shard)*1_000_003+uint64(ci)+9)
		c := c02gen(r, universe)
		if ci%5 == 2 && len(late) > 0 {
			t := late[0]
			late = late[1:]
			if pv, _ := catch(func() { tags[t] = c02register(ur, t) }); pv != nil {
				w.Violate("C02:late-registration-refused", fmt.Sprintf("RegisterTag(%q) after a Destroy panicked: %v", t, pv), map[string]any{"index": ci})
			} else {
				all = append(all, t)
				sort.Strings(all)
				w.Count("tags_registered_between_cycles", 1)
			}
		}
		if only >= 0 && ci != only {
			continue
		}
		cs := map[string]any{"index": ci, "case": c}
		w.Journal("C02 case %d %v", ci, c.Config)
		okAll := true
		for rep := 0; rep < 3; rep++ {
			rec.take()
			sink.take()
			var err error
			if pv, st := catch(func() { err = log.Refresh(c.Config) }); pv != nil {
				w.Violate("C02:refresh-panic", fmt.Sprintf("Refresh panicked: %v\n%s", pv, trunc(st, 1200)), cs)
				log.Destroy()
				okAll = false
				break
			}
			if c.ErrClass == "late-failure" {
				// judged by the cases that follow
				log.Destroy()
				w.Count("late_failing_refreshes", 1)
				continue
			}
			if c.ErrClass != "" {
				if err == nil {
					w.Violate("C02:error-not-reported:"+c.ErrClass, fmt.Sprintf("Refresh accepted a configuration with error class %q (loggers %+v root=%v rootTags=%q)", c.ErrClass, c.Loggers, c.Root, c.RootTags), cs)
					okAll = false
				}
				idsE := map[string]string{}
				if err != nil {
					// "an error instead of choosing": nothing has been chosen. Until Destroy every registered tag is still served by
					// the built-in console logger, not by a logger of the configuration that was just refused
					for k, t := range all {
						if k%3 != rep {
							continue
						}
						id := fmt.Sprintf("id-%dx%dx%de-%d", w.Spec.Shard, ci, rep, k)
						idsE[id] = t
						log.Info(ctx, tags[t], log.Msg(id))
					}
				}
				log.Destroy()
				if err == nil {
					break
				}
				seenE := map[string][]string{}
				for _, it := range rec.take() {
					id := idOf(it.JSON)
					seenE[id] = append(seenE[id], it.Sink)
				}
				for _, ch := range sink.take() {
					id := idOf(ch)
					seenE[id] = append(seenE[id], "console")
				}
				for id, t := range idsE {
					if got := seenE[id]; len(got) != 1 || got[0] != "console" {
						okAll = false
						w.Violate("C02:chosen-despite-error:"+c.ErrClass, fmt.Sprintf("Refresh refused the configuration (%s) - and yet tag %q, logged before Destroy, was served by %v instead of the built-in console logger", c.ErrClass, t, got), cs)
						break
					}
				}
				w.Count("tag_routings_checked_after_a_refused_refresh", int64(len(idsE)))
				continue
			}
			if err != nil {
				w.Violate("C02:valid-config-rejected", fmt.Sprintf("Refresh rejected a valid configuration: %v (loggers %+v)", trunc(err.Error(), 400), c.Loggers), cs)
				log.Destroy()
				okAll = false
				break
			}
			ids := map[string]string{} // id -> tag
			for k, t := range all {
				id := fmt.Sprintf("id-%dx%dx%d-%d", w.Spec.Shard, ci, rep, k)
				ids[id] = t
				log.Info(ctx, tags[t], log.Msg(id))
			}
			hid := ""
			if handle != nil {
				hid = fmt.Sprintf("id-h%dx%dx%d-0", w.Spec.Shard, ci, rep)
				if pv, _ := catch(func() { _, _ = handle.Write([]byte("raw " + hid + "\n")) }); pv != nil {
					w.Violate("C02:handle-write-panic", fmt.Sprintf("write through the named handle of l0 panicked: %v", pv), cs)
				}
				w.Count("handle_writes", 1)
			}
			log.Destroy()
			seen := map[string][]string{}
			for _, it := range rec.take() {
				id := idOf(it.JSON)
				seen[id] = append(seen[id], it.Sink)
			}
			for _, ch := range sink.take() {
				id := idOf(ch)
				seen[id] = append(seen[id], "console")
			}
			if hid != "" {
				wantH := "sl0"
				if c.Loggers[0].Mem {
					wantH = "ml0"
				}
				if got := seen[hid]; len(got) != 1 || got[0] != wantH {
					okAll = false
					w.Violate("C02:handle-misrouted", fmt.Sprintf("a raw write through the handle named l0 arrived at %v, expected exactly [%s]", got, wantH), cs)
				}
				delete(seen, hid)
			}
			for id, t := range ids {
				want := c.owner(t)
				got := seen[id]
				if len(got) == 1 && got[0] == want {
					continue
				}
				okAll = false
				cls := "misrouted"
				switch {
				case len(got) == 0:
					cls = "lost"
				case len(got) > 1:
					cls = "multiple"
				case want == "sroot" || want == "console":
					cls = "captured-instead-of-root"
				case got[0] == "sroot" || got[0] == "console":
					cls = "fell-to-root"
				}
				w.Violate("C02:"+cls, fmt.Sprintf("tag %q (repeat %d) was served by %v, expected %s; loggers: %+v root=%v", t, rep, got, want, c.Loggers, c.Root), cs)
				break
			}
			w.Count("tag_routings_checked", int64(len(ids)))
		}
		w.Eval(1)
		if okAll {
			// class: error class or (number of loggers, has wildcard, has nested wildcards, root)
			if c.ErrClass != "" {
				w.Distinct("err:" + c.ErrClass + fmt.Sprintf(":%d", len(c.Loggers)))
			} else {
				wild, overlap := 0, false
				var ws []string
				for _, lg := range c.Loggers {
					for _, e := range lg.Entries {
						if strings.HasSuffix(e, "_*") {
							wild++
							ws = append(ws, strings.TrimSuffix(e, "_*"))
						}
					}
				}
				for i := range ws {
					for j := range ws {
						if i != j && strings.HasPrefix(ws[j], ws[i]+"_") {
							overlap = true
						}
					}
				}
				if wild > 3 {
					wild = 3
				}
				w.Distinct(fmt.Sprintf("ok:l%d:w%d:nested=%v:root=%v", len(c.Loggers), wild, overlap, c.Root))
			}
			if ci < 1 {
				w.Sample(map[string]any{"config": c.Config, "err_class": c.ErrClass})
			}
		}
	}
}

func init() {
	register(&Prop{
		ID: "C02", Level: "exploration", MinDistinct: 30, Worker: c02Worker,
		Rule: "each worker registers a seeded universe of 80 valid tags (names beginning with _app_/_rpc_ through the helper API with multi-word parts; 1-4 segments over a 12-segment pool incl. one-character segments and 8-12 character ones (names and wildcard prefixes up to the 36-byte limit), with/without leading underscore, heavy prefix sharing) + the 2 built-in ones; cases: 1-4 sync loggers + optional root, each with a private recording appender (one in five loggers is of a user-written kind that records by itself and reports a decorated name); tag lists mix registered literals, unregistered literals, wildcards P_* for every proper prefix P in the universe and for whole registered tags, " +
			"blanks/empty entries/repeated entries, random key spelling; 1/3 of the cases carry one of the four stated errors (duplicate tag string across loggers, root with tags, logger without tags in 6 spellings, malformed wildcard in 8 shapes). Each map is Refreshed 3x (Destroy between; Go randomises map iteration each time) and one event per registered tag is routed. " +
			"Oracle: literal owner, else longest proper underscore-delimited prefix wildcard, else root/console; exactly one sink per event. One further worker registers 70000 (thorough 300000) tags in four name classes and routes one event per tag. Non-trivial/distinct = distinct (error class | #loggers, #wildcards, nested wildcards present, root configured) classes among cases that matched.",
		Assumptions: []string{"oddly spelled wildcard entries that still end in '_*' (doubled underscore, a second '*', the bare '_*') are accepted and serve no tag: none is P_* for a proper underscore-delimited prefix P of a valid tag"},
		Run: func(d *D) {
			var specs []Spec
			for i := 0; i < 16; i++ {
				s := d.NewSpec("cfg", fmt.Sprintf("cfg-%d", i), i, 16)
				s.N = d.Pick(3000, 30000)
				specs = append(specs, s)
			}
			for i := 0; i < int(d.Pick(1, 4)); i++ {
				s := d.NewSpec("cfg", fmt.Sprintf("cfg-race-%d", i), 200+i, 16)
				s.N = d.Pick(60, 1500)
				s.Flavour = "race"
				specs = append(specs, s)
			}
			mt := d.NewSpec("manytags", "manytags", 300, 16)
			mt.N = d.Pick(70000, 300000)
			specs = append(specs, mt)
			outs := d.RunWorkers(specs, 16)
			d.raceVerdict(outs)
		},
	})
}
