package main

// C10 — context hooks and lazy generators run exactly once iff the event is emitted.

import (
	"bytes"
	"context"
	"fmt"
	"os"
	"path/filepath"
	"strings"
	"time"

	log "github.com/go-spring/log"
)

type c10counts struct {
	timeN, strN, fieldsN, lazyN int
	ctxOK                       bool
}

func alnum(s string) string {
	b := []byte{}
	for i := 0; i < len(s); i++ {
		c := s[i]
		if c >= '0' && c <= '9' || c >= 'a' && c <= 'z' || c >= 'A' && c <= 'Z' {
			b = append(b, c)
		}
	}
	return string(b)
}

var c10zones = []*time.Location{time.UTC, time.FixedZone("ist", 5*3600+1800), time.FixedZone("pst", -8*3600), time.FixedZone("npt", 5*3600+2700), time.FixedZone("line", 14*3600)}

var c10prevHookT = time.Unix(978_000_000, 0)

type c10exp struct {
	id       string
	entry    string
	enabled  bool
	mask     int
	t        time.Time
	cs       string
	cf       string
	nCtx     int
	before   time.Time
	after    time.Time
	state    string
	ctxKind  string
	levelStr string
}

func c10Worker(w *W) {
	if w.Spec.Kind == "conc" {
		c10ConcWorker(w)
		return
	}
	c01init()
	registerMonitorPlugins()
	tag := log.RegisterTag("c10tag")
	sink := &chunkSink{}
	log.Stdout = sink

	type ctxk struct{}
	cancelled, cancel := context.WithCancel(context.WithValue(context.Background(), ctxk{}, "c"))
	cancel()
	contexts := []struct {
		name string
		ctx  context.Context
	}{
		{"background", context.Background()},
		{"todo", context.TODO()},
		{"values", context.WithValue(context.WithValue(context.Background(), ctxk{}, 1), "k2", "v2")},
		{"cancelled", cancelled},
		{"nil", nil},
	}
	entries := []struct {
		name  string
		level log.Level
	}{
		{"Trace", log.TraceLevel}, {"Tracef", log.TraceLevel}, {"Debug", log.DebugLevel}, {"Debugf", log.DebugLevel},
		{"Info", log.InfoLevel}, {"Infof", log.InfoLevel}, {"Warn", log.WarnLevel}, {"Warnf", log.WarnLevel},
		{"Error", log.ErrorLevel}, {"Errorf", log.ErrorLevel}, {"Panic", log.PanicLevel}, {"Panicf", log.PanicLevel},
		{"Fatal", log.FatalLevel}, {"Fatalf", log.FatalLevel},
		{"Record", log.TraceLevel}, {"Record", log.DebugLevel}, {"Record", log.InfoLevel}, {"Record", log.WarnLevel}, {"Record", log.ErrorLevel}, {"Record", log.PanicLevel}, {"Record", log.FatalLevel},
		{"Record", c01byName["NOTICE"].l}, {"Record", c01byName["L998"].l}, {"Record", log.NoneLevel},
	}
	seq := 0
	var exps []c10exp

	// doCalls runs the full cross product under the current configuration.
	doCalls := func(state string, lr rng, stride int) {
		for ei, en := range entries {
			for mask := 0; mask < 8; mask++ {
				for ci, cx := range contexts {
					if stride > 1 && (ei+mask+ci+seq)%stride != 0 {
						continue
					}
					seq++
					id := fmt.Sprintf("id-%s-%d", alnum(state), seq)
					cnt := &c10counts{ctxOK: true}
					// hook times: consecutive calls share one Unix second but lie in different zones (per-request zones), so the
					// record must show the hook's wall-clock reading, not a cached rendering of "the same second"
					hookT := time.Unix(978_307_200+int64(seq/2)*86_461, int64(seq%1000)*1e6).In(c10zones[seq%len(c10zones)])
					switch seq % 9 {
					case 4: // the clock the hook reads was stepped back a little (NTP): the record shows what the hook returned
						hookT = c10prevHookT.Add(-300 * time.Millisecond)
					case 7:
						hookT = c10prevHookT.Add(-7 * time.Millisecond)
					case 8:
						hookT = c10prevHookT // the very same instant twice
					}
					c10prevHookT = hookT
					hookS := fmt.Sprintf("cs-%d", seq)
					if seq%7 == 3 {
						hookS = "" // a hook may legitimately return nothing; it still runs exactly once
					}
					hookF := fmt.Sprintf("cf-%d", seq)
					nCtx := []int{2, 2, 3, 1, 2, 0, 8, 9, 2, 16, 17, 33, 2, 70}[seq%14]
					ctx := cx.ctx
					check := func(got context.Context) {
						if got != ctx {
							cnt.ctxOK = false
						}
					}
					log.TimeNow, log.StringFromContext, log.FieldsFromContext = nil, nil, nil
					if mask&1 != 0 {
						log.TimeNow = func(c context.Context) time.Time { cnt.timeN++; check(c); return hookT }
					}
					if mask&2 != 0 {
						log.StringFromContext = func(c context.Context) string { cnt.strN++; check(c); return hookS }
					}
					if mask&4 != 0 {
						log.FieldsFromContext = func(c context.Context) []log.Field {
							cnt.fieldsN++
							check(c)
							fs := []log.Field{log.String("ctxk1", hookF), log.Int("ctxk2", seq)}
							for j := 3; j <= nCtx; j++ { // a hook may return any number of fields: all of them belong in the record
								fs = append(fs, log.Int(fmt.Sprintf("ctxk%d", j), seq+j))
							}
							return fs[:nCtx]
						}
					}
					lazy := func() []log.Field { cnt.lazyN++; return []log.Field{log.Msg(id), log.Int("own", 1)} }
					ex := c10exp{id: id, entry: en.name, enabled: lr.has(en.level.Code()), mask: mask, t: hookT, cs: hookS, cf: hookF, nCtx: nCtx, state: state, ctxKind: cx.name, levelStr: en.level.Name()}
					ex.before = time.Now()
					pv, st := catch(func() {
						switch en.name {
						case "Trace":
							log.Trace(ctx, tag, lazy)
						case "Debug":
							log.Debug(ctx, tag, lazy)
						case "Tracef":
							log.Tracef(ctx, tag, "%s", id)
						case "Debugf":
							log.Debugf(ctx, tag, "%s", id)
						case "Info":
							log.Info(ctx, tag, log.Msg(id), log.Int("own", 1))
						case "Infof":
							log.Infof(ctx, tag, "%s", id)
						case "Warn":
							log.Warn(ctx, tag, log.Msg(id), log.Int("own", 1))
						case "Warnf":
							log.Warnf(ctx, tag, "%s", id)
						case "Error":
							log.Error(ctx, tag, log.Msg(id), log.Int("own", 1))
						case "Errorf":
							log.Errorf(ctx, tag, "%s", id)
						case "Panic":
							log.Panic(ctx, tag, log.Msg(id), log.Int("own", 1))
						case "Panicf":
							log.Panicf(ctx, tag, "%s", id)
						case "Fatal":
							log.Fatal(ctx, tag, log.Msg(id), log.Int("own", 1))
						case "Fatalf":
							log.Fatalf(ctx, tag, "%s", id)
						case "Record":
							log.Record(ctx, en.level, tag, 1, log.Msg(id), log.Int("own", 1))
						}
					})
					ex.after = time.Now()
					log.TimeNow, log.StringFromContext, log.FieldsFromContext = nil, nil, nil
					w.Eval(1)
					cs := map[string]any{"state": state, "entry": en.name, "level": en.level.Name(), "hooks_mask": mask, "context": cx.name, "enabled": ex.enabled}
					if pv != nil {
						w.Violate("C10:log-call-panic", fmt.Sprintf("%s panicked: %v\n%s", en.name, pv, trunc(st, 1000)), cs)
						continue
					}
					want := 0
					onoff := "disabled"
					if ex.enabled {
						want, onoff = 1, "enabled"
					}
					bad := false
					for _, h := range []struct {
						name string
						bit  int
						n    int
					}{{"TimeNow", 1, cnt.timeN}, {"StringFromContext", 2, cnt.strN}, {"FieldsFromContext", 4, cnt.fieldsN}} {
						if mask&h.bit != 0 && h.n != want {
							bad = true
							w.Violate("C10:hook-count:"+h.name+":"+onoff, fmt.Sprintf("%s hook ran %d times for one %s call at a %s level (state %s, expected %d)", h.name, h.n, en.name, onoff, state, want), cs)
						}
					}
					if (en.name == "Trace" || en.name == "Debug") && cnt.lazyN != want {
						bad = true
						w.Violate("C10:lazy-count:"+onoff, fmt.Sprintf("lazy generator of %s ran %d times at a %s level (state %s, expected %d)", en.name, cnt.lazyN, onoff, state, want), cs)
					}
					if !cnt.ctxOK {
						bad = true
						w.Violate("C10:wrong-context", fmt.Sprintf("a hook of %s was invoked with a context other than the caller's (%s)", en.name, cx.name), cs)
					}
					if !bad {
						w.Distinct(fmt.Sprintf("%s|%s|%s|m%d|%s", state, en.name+":"+en.level.Name(), onoff, mask, cx.name))
					}
					exps = append(exps, ex)
				}
			}
		}
	}

	// verify what was emitted against the expectations collected so far
	verify := func(lines map[string][]byte, times map[string]time.Time) {
		for _, ex := range exps {
			cs := map[string]any{"state": ex.state, "entry": ex.entry, "level": ex.levelStr, "hooks_mask": ex.mask, "context": ex.ctxKind, "enabled": ex.enabled}
			line, ok := lines[ex.id]
			if !ex.enabled {
				if ok {
					w.Violate("C10:emitted-when-disabled", fmt.Sprintf("%s at disabled level %s was emitted: %s", ex.entry, ex.levelStr, trunc(string(line), 300)), cs)
				}
				continue
			}
			if !ok {
				w.Violate("C10:not-emitted", fmt.Sprintf("%s at enabled level %s (state %s) produced no record", ex.entry, ex.levelStr, ex.state), cs)
				continue
			}
			w.Count("records_checked", 1)
			s := string(line)
			isJSON := strings.HasPrefix(s, "{")
			// time
			if ex.mask&1 != 0 {
				ts := ex.t.Format("2006-01-02T15:04:05.000")
				if !strings.Contains(s, ts) {
					w.Violate("C10:record-time", fmt.Sprintf("record does not carry the TimeNow hook's time %s: %s", ts, trunc(s, 300)), cs)
				}
			} else if t, ok := times[ex.id]; ok {
				if t.Before(ex.before.Add(-time.Millisecond)) || t.After(ex.after.Add(time.Millisecond)) {
					w.Violate("C10:record-time", fmt.Sprintf("event time %v outside the bracket [%v,%v] taken around the call", t, ex.before, ex.after), cs)
				}
			}
			// ctx string and field order
			pos := func(sub string) int { return strings.Index(s, sub) }
			var pCS, pK1, pK2, pMsg int
			if isJSON {
				pCS, pK1, pK2, pMsg = pos(`"ctxString":"`+ex.cs+`"`), pos(`"ctxk1":"`+ex.cf+`"`), pos(`"ctxk2":`), pos(`"msg":"`+ex.id+`"`)
			} else {
				pCS, pK1, pK2, pMsg = pos("||"+ex.cs+"||"), pos("ctxk1="+ex.cf+"||"), pos("ctxk2="), pos("msg="+ex.id)
			}
			if ex.cs == "" {
				pCS = -1
				if strings.Contains(s, `"ctxString"`) || strings.Contains(s, "||cs-") {
					w.Violate("C10:record-ctxstring", "record carries a context string although the hook returned none: "+trunc(s, 300), cs)
				}
			} else if ex.mask&2 != 0 && pCS < 0 {
				w.Violate("C10:record-ctxstring", fmt.Sprintf("record lacks the context string %q: %s", ex.cs, trunc(s, 300)), cs)
			}
			if ex.mask&2 == 0 && (strings.Contains(s, `"ctxString"`) || strings.Contains(s, "||cs-")) {
				w.Violate("C10:record-ctxstring", "record carries a context string although the hook is unset: "+trunc(s, 300), cs)
			}
			if ex.mask&4 != 0 && ex.nCtx >= 2 {
				if pK1 < 0 || pK2 < 0 || pMsg < 0 || !(pK1 < pK2 && pK2 < pMsg) || (pCS >= 0 && pCS > pK1) {
					w.Violate("C10:field-order", fmt.Sprintf("context fields must precede the call's fields (positions ctxString=%d ctxk1=%d ctxk2=%d msg=%d): %s", pCS, pK1, pK2, pMsg, trunc(s, 300)), cs)
				}
			}
			if ex.mask&4 != 0 {
				// every field the hook returned (0 to 70 of them), in the hook's order, ahead of the call's own fields - and no more
				prev := pCS
				for j := 1; j <= ex.nCtx+1; j++ {
					var pj int
					if isJSON {
						pj = pos(fmt.Sprintf(`"ctxk%d":`, j))
					} else {
						pj = pos(fmt.Sprintf("||ctxk%d=", j))
					}
					if j > ex.nCtx {
						if pj >= 0 {
							w.Violate("C10:record-ctxfields", fmt.Sprintf("the hook returned %d fields, the record also carries ctxk%d: %s", ex.nCtx, j, trunc(s, 300)), cs)
						}
						break
					}
					if pj < 0 || pj < prev || (pMsg >= 0 && pj > pMsg) {
						w.Violate("C10:record-ctxfields", fmt.Sprintf("the hook returned %d fields; ctxk%d is missing or out of place (position %d, previous %d, msg %d): %s", ex.nCtx, j, pj, prev, pMsg, trunc(s, 400)), cs)
						break
					}
					prev = pj
				}
				w.Count("context_fields_checked", int64(ex.nCtx))
			} else if strings.Contains(s, "ctxk1") {
				w.Violate("C10:field-order", "record carries context fields although the hook is unset: "+trunc(s, 300), cs)
			}
			if pMsg < 0 {
				w.Violate("C10:record-fields", "record lacks the call's own msg field: "+trunc(s, 300), cs)
			}
		}
		exps = exps[:0]
	}

	collect := func() (map[string][]byte, map[string]time.Time) {
		lines := map[string][]byte{}
		times := map[string]time.Time{}
		for _, it := range rec.take() {
			id := idOf(it.JSON)
			if _, dup := lines[id]; dup {
				w.Violate("C10:duplicate-record", "one call produced two records for "+id, nil)
			}
			lines[id] = it.JSON
			times[id] = it.Time
		}
		for _, ch := range sink.take() {
			id := idOf(ch)
			if _, dup := lines[id]; dup {
				w.Violate("C10:duplicate-record", "one call produced two records for "+id, nil)
			}
			lines[id] = ch
		}
		return lines, times
	}

	// scenario: the context-fields hook hands out one shared, immutable slice with spare capacity (a perfectly
	// legal thing to do); several events are in flight in an asynchronous logger at the same time. Every record
	// must still carry the hook's fields followed by ITS OWN fields.
	if w.Spec.Shard == 1%w.Spec.NShards {
		for _, kind := range []string{"AsyncLogger", "Logger"} {
			cfg := map[string]string{"appender.rg.type": "VGate", "logger.lg.type": kind, "logger.lg.tags": "c10tag", "logger.lg.appenderRef.ref": "rg", "enableCaller": "true", "fastCaller": "false"}
			if kind == "AsyncLogger" {
				cfg["logger.lg.bufferFullPolicy"] = "Block"
			}
			if err := log.Refresh(cfg); err != nil {
				w.Violate("C10:refresh-failed", err.Error(), cfg)
				log.Destroy()
				continue
			}
			g := gateFor("rg")
			g.Open.Store(kind == "Logger") // the synchronous logger cannot be gated from the caller's goroutine
			common := make([]log.Field, 2, 16)
			common[0], common[1] = log.String("svc", "checkout"), log.String("region", "eu-1")
			calls := 0
			log.FieldsFromContext = func(c context.Context) []log.Field { calls++; return common }
			ctx := context.Background()
			var ids []string
			for i := 0; i < 6; i++ {
				id := fmt.Sprintf("id-shared%s-%d", alnum(kind), i)
				ids = append(ids, id)
				switch i % 3 {
				case 0:
					log.Info(ctx, tag, log.Msg(id), log.Int("own", i))
				case 1:
					log.Warnf(ctx, tag, "%s", id)
				default:
					log.Debug(ctx, tag, func() []log.Field { return []log.Field{log.Msg(id), log.Int("own", i)} })
				}
			}
			log.FieldsFromContext = nil
			g.Open.Store(true)
			for i := 0; i < 8; i++ {
				g.Gate <- struct{}{}
			}
			log.Destroy()
			for len(g.Entered) > 0 {
				<-g.Entered
			}
			for len(g.Gate) > 0 {
				<-g.Gate
			}
			seen := map[string]string{}
			for _, it := range rec.take() {
				seen[idOf(it.JSON)] = string(it.JSON)
			}
			okAll := calls == len(ids)
			if calls != len(ids) {
				w.Violate("C10:hook-count:FieldsFromContext:enabled", fmt.Sprintf("shared-slice scenario: hook ran %d times for %d emitted events", calls, len(ids)), nil)
			}
			for i, id := range ids {
				line, ok := seen[id]
				cs := map[string]any{"scenario": "context-fields hook returns one shared slice with spare capacity", "logger": kind, "event": i}
				w.Eval(1)
				if !ok {
					okAll = false
					w.Violate("C10:record-fields", fmt.Sprintf("%s logger, several events in flight, hook result is a shared slice with spare capacity: the record of %s does not carry its own msg field (records seen: %d of %d distinct)", kind, id, len(seen), len(ids)), cs)
					break
				}
				pSvc, pReg, pMsg := strings.Index(line, `"svc":"checkout"`), strings.Index(line, `"region":"eu-1"`), strings.Index(line, `"msg":"`+id+`"`)
				if pSvc < 0 || pReg < 0 || !(pSvc < pReg && pReg < pMsg) {
					okAll = false
					w.Violate("C10:field-order", "shared-slice scenario: context fields missing or not ahead of the call's fields: "+trunc(line, 300), cs)
					break
				}
				if i%3 != 1 && !strings.Contains(line, fmt.Sprintf(`"own":%d`, i)) {
					okAll = false
					w.Violate("C10:record-fields", "shared-slice scenario: record lacks its own 'own' field: "+trunc(line, 300), cs)
					break
				}
			}
			if common[0].Key != "svc" || common[1].Key != "region" || len(common) != 2 {
				w.Violate("C10:record-fields", "the library modified the slice returned by the context-fields hook", nil)
			}
			if okAll {
				w.Distinct("shared-capacity-hook-slice|" + kind)
			}
		}
	}
	if w.Spec.Shard == 2%w.Spec.NShards {
		c10Scoped(w, tag)
	}
	if w.Spec.Shard == 3%w.Spec.NShards {
		c10RollingBoundary(w, tag)
	}
	stride := int(w.Spec.N)
	if stride < 1 {
		stride = 1
	}
	// state 1: before any Refresh (built-in console logger: everything below MAX enabled)
	if w.Spec.Shard == 0 {
		doCalls("before-refresh", rng{0, 999}, 1)
		l, t := collect()
		verify(l, t)
	}
	ranges := []string{"", "INFO", "WARN~FATAL", "TRACE~DEBUG", "DEBUG", "ERROR~ERROR", "NONE~TRACE", "PANIC", "DEBUG~PANIC", "NOTICE~L998", "ERROR~INFO", "FATAL~TRACE"}
	k := 0
	rdir := filepath.Join(w.Spec.Dir, w.Spec.Name+".roll")
	defer os.RemoveAll(rdir)
	for _, kind := range []string{"Logger", "AsyncLogger", "RollingFile"} {
		for _, caller := range []string{"true", "false"} {
			for _, fast := range []string{"false", "true"} {
				for _, rs := range ranges {
					k++
					if k%w.Spec.NShards != w.Spec.Shard {
						continue
					}
					cfg := map[string]string{
						"appender.rec.type": "VRec", "logger.lg.type": kind, "logger.lg.tags": "c10tag", "logger.lg.level": rs, "logger.lg.appenderRef.ref": "rec",
						"enableCaller": caller, "fastCaller": fast,
					}
					if kind == "AsyncLogger" {
						cfg["logger.lg.bufferFullPolicy"] = "Block"
					}
					if kind == "RollingFile" {
						if fast == "true" || k%3 != 0 {
							continue // a third of the ranges, default lookup mode only: keeps the file traffic small
						}
						_ = os.RemoveAll(rdir)
						_ = os.MkdirAll(rdir, 0755)
						delete(cfg, "logger.lg.appenderRef.ref")
						cfg["logger.lg.fileDir"], cfg["logger.lg.fileName"], cfg["logger.lg.rotation"], cfg["logger.lg.layout.type"] = rdir, "c10.log", "h", "JSONLayout"
					}
					if err := log.Refresh(cfg); err != nil {
						w.Violate("C10:refresh-failed", "Refresh of a plain configuration failed: "+err.Error(), cfg)
						log.Destroy()
						continue
					}
					lr, _ := parseRangeModel(rs)
					state := fmt.Sprintf("%s-caller%s-fast%s-%s", strings.ToLower(kind), caller, fast, rs)
					doCalls(state, lr, stride)
					log.Destroy()
					l, t := collect()
					if kind == "RollingFile" {
						for _, ln := range bytes.Split(readDirAll(rdir), []byte("\n")) {
							if id := idOf(ln); id != "" {
								if _, dup := l[id]; dup {
									w.Violate("C10:duplicate-record", "one call produced two records for "+id, nil)
								}
								l[id] = ln
							}
						}
					}
					verify(l, t)
					if rs == "PANIC" || rs == "WARN~FATAL" || rs == "ERROR~ERROR" {
						// nothing of the destroyed configuration (such as its level range) may linger:
						// the built-in logger serves every level again
						doCalls("after-destroy-of-"+alnum(rs), rng{0, 999}, 5)
						l, t = collect()
						verify(l, t)
					}
				}
			}
		}
	}
	// a user-written logger kind whose level range changes at run time (GetLevel belongs to the Logger interface): whether a
	// call is "enabled for the serving logger" is decided by the range the logger reports at the time of the call
	if w.Spec.Shard == 2%w.Spec.NShards {
		cfg := map[string]string{"appender.unused.type": "Discard", "logger.lg.type": "VMem", "logger.lg.tags": "c10tag", "logger.lg.dynamic": "true", "enableCaller": "true", "fastCaller": "false"}
		vmemDynamicMin.Store(log.InfoLevel)
		if err := log.Refresh(cfg); err != nil {
			w.Violate("C10:refresh-failed", "Refresh with a user-written logger kind failed: "+err.Error(), cfg)
			log.Destroy()
		} else {
			for _, thr := range []log.Level{log.InfoLevel, log.ErrorLevel, log.TraceLevel, log.WarnLevel, log.DebugLevel, log.FatalLevel} {
				vmemDynamicMin.Store(thr) // no Refresh in between: the same live logger now reports another range
				doCalls("userlogger-dynamic-"+strings.ToLower(thr.Name()), rng{thr.Code(), 999}, 3)
				l, t := collect()
				verify(l, t)
			}
			log.Destroy()
			w.Count("threshold_changes_of_a_live_user_logger", 6)
		}
	}
	// leave the globals in their default state
	_ = log.Refresh(map[string]string{"appender.rec.type": "VRec", "enableCaller": "true", "fastCaller": "false"})
	log.Destroy()
	w.Sample(map[string]any{"state": "asynclogger-callerfalse-fasttrue-WARN~FATAL", "entry": "Debug(lazy)", "hooks_mask": 7, "context": "cancelled", "expected": "0 hook calls, 0 generator calls, nothing emitted"})
	w.Sample(map[string]any{"state": "before-refresh", "entry": "Infof", "hooks_mask": 5, "context": "nil", "expected": "TimeNow x1, FieldsFromContext x1 with the nil context; console line carries hook time and ctxk1,ctxk2 before msg"})
}

func init() {
	register(&Prop{
		ID: "C10", Level: "exploration", MinDistinct: 500, Worker: c10Worker,
		Rule: "cross product of 24 call forms (14 fixed-level entry points + Record at 10 levels incl. custom and NONE) x 8 subsets of the three hooks set x 5 contexts (Background, TODO, value chain, cancelled, nil) under: the built-in logger before any Refresh and again right after Destroy of a restrictive configuration, and Refresh-built sync, async(Block) and rolling-file loggers x enableCaller on/off x fastCaller on/off x 10 logger level ranges chosen so that every level is enabled in some and disabled in others " +
			"(quick: the cross product under each Refresh is strided, the before-Refresh state is complete). Monitors: counting closures per call (hooks, lazy generator, identity of the context they receive), recording appender / console collector for the emitted record (hook time or [before,after] bracket, context string, context fields ahead of call fields). " +
			"A second worker kind keeps the three hooks installed while 4-32 goroutines log concurrently (150 calls each per round, call form / tag / level drawn per call) through a sync logger, an async (Block, capacity 128) logger and a configured root whose level ranges and caller-lookup modes are redrawn every round; each call's context carries its own atomic counters and hook results, so counts, context identity and the record's time / context string / field order are judged per call; one quarter of these workers runs under the race detector, others under GOMAXPROCS/GOGC variants. " +
			"A user-written logger kind changes the level range it reports six times while live (no Refresh in between): counts follow the range reported at the time of the call. One further scenario keeps six events in flight in an asynchronous logger (gated appender) while the context-fields hook returns one shared immutable slice with spare capacity: every record must carry the hook's fields followed by its own. Non-trivial/distinct = distinct (state, call form, enabled/disabled, hook subset, context kind) tuples whose counts were right.",
		Assumptions: []string{"hooks are swapped by the harness only while no log call is in progress (matrix kind: between calls of one goroutine; concurrent kind: before the goroutines start)", "the wall-clock bracket for unset TimeNow is widened by 1 ms on both sides (monotonic vs wall clock reading)"},
		Run: func(d *D) {
			var specs []Spec
			for i := 0; i < 16; i++ {
				s := d.NewSpec("matrix", fmt.Sprintf("m-%d", i), i, 16)
				s.N = d.Pick(1, 1)
				specs = append(specs, s)
			}
			// the same question under concurrency (hooks installed once, per-call counters travel in the context)
			for i := 0; i < int(d.Pick(4, 16)); i++ {
				s := d.NewSpec("conc", fmt.Sprintf("conc-%d", i), 100+i, 16)
				s.N = d.Pick(6, 40)
				s.Args["g"], s.Args["m"] = fmt.Sprint([]int{8, 16, 4, 32}[i%4]), "150"
				if i%4 == 3 {
					s.Flavour = "race"
					s.N = d.Pick(3, 12)
					s.Args["g"], s.Args["m"] = "8", "80"
				}
				specs = append(specs, s)
			}
			specs = d.WithRuntimeVariants(specs, int(d.Pick(2, 1)), func(s Spec) bool { return s.Kind == "conc" })
			outs := d.RunWorkers(specs, 16)
			d.raceVerdict(outs)
		},
	})
}
