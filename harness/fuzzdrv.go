package main

// Runs one of the Go fuzz targets (fuzz_test.go) from the driver with an execution-count budget.

import (
	"bytes"
	"fmt"
	"os"
	"os/exec"
	"path/filepath"
	"regexp"
	"strconv"
	"time"
)

var fuzzExecsRe = regexp.MustCompile(`execs: (\d+)`)
var fuzzFailRe = regexp.MustCompile(`Failing input written to (testdata/fuzz/\S+)`)

func (d *D) runFuzz(target string, execs int64, key string) {
	dir := filepath.Join(verifDir, "harness")
	logPath := filepath.Join(d.Out, "fuzz-"+target+".log")
	cmd := exec.Command("go", "test", "-tags", "verif", "-run", "^$", "-fuzz", "^"+target+"$", "-fuzztime", fmt.Sprintf("%dx", execs), "-parallel", "16", ".")
	cmd.Dir = dir
	lf, _ := os.Create(logPath)
	cmd.Stdout, cmd.Stderr = lf, lf
	t0 := time.Now()
	err := cmd.Run()
	lf.Close()
	out, _ := os.ReadFile(logPath)
	var n int64
	for _, m := range fuzzExecsRe.FindAllSubmatch(out, -1) {
		if v, e := strconv.ParseInt(string(m[1]), 10, 64); e == nil && v > n {
			n = v
		}
	}
	d.mu.Lock()
	d.Counters["fuzz_"+target+"_execs"] += n
	d.Evals += n
	d.Extra["fuzz_"+target+"_wall_s"] = int(time.Since(t0).Seconds())
	d.mu.Unlock()
	if err == nil {
		d.AddDistinct("fuzz|" + target)
		return
	}
	if m := fuzzFailRe.FindSubmatch(out); m != nil {
		p := filepath.Join(dir, string(m[1]))
		input, _ := os.ReadFile(p)
		keep := filepath.Join(verifDir, "out", "replay", d.ID+"-fuzz-"+filepath.Base(p))
		_ = os.WriteFile(keep, input, 0644)
		// The fuzzing engine also reports an input when its worker process was killed or starved ("hung or terminated
		// unexpectedly") - on a loaded machine that says nothing about the library. The verdict is therefore taken from a
		// deterministic re-run of exactly that input in a fresh process: only a reproducible failure is a violation.
		reproduced := 0
		var rerunOut []byte
		for i := 0; i < 3; i++ {
			rc := exec.Command("go", "test", "-tags", "verif", "-count=1", "-run", "^"+target+"$/^"+filepath.Base(p)+"$", ".")
			rc.Dir = dir
			o, e := rc.CombinedOutput()
			rerunOut = o
			if e != nil {
				reproduced++
			}
		}
		_ = os.Remove(p) // do not leave a regression seed behind in the tree
		if reproduced == 0 {
			d.mu.Lock()
			d.Inconcl = append(d.Inconcl, fmt.Sprintf("fuzz target %s: the engine reported input %s (kept at %s) but it passes in 3 of 3 isolated re-runs (worker process killed or starved); fuzzing stopped after %d executions", target, filepath.Base(p), keep, n))
			d.mu.Unlock()
			d.AddDistinct("fuzz|" + target + "|stopped-early")
			return
		}
		_ = rerunOut
		d.Violate(key, fmt.Sprintf("coverage-guided fuzzing (%s) found a failing input (kept at %s):\n%s\n%s", target, keep, trunc(string(input), 600), trunc(tailFile(logPath, 1500), 1500)),
			map[string]any{"fuzz_target": target, "corpus_entry": string(input)})
		return
	}
	if bytes.Contains(out, []byte("--- FAIL: "+target)) {
		// a seed-corpus entry already fails (no new corpus file is written in that case)
		d.Violate(key, fmt.Sprintf("fuzz target %s fails on its seed corpus:\n%s", target, trunc(tailFile(logPath, 1500), 1500)), map[string]any{"fuzz_target": target})
		return
	}
	d.mu.Lock()
	d.Infra = append(d.Infra, "go test -fuzz "+target+" failed without a failing input: "+trunc(tailFile(logPath, 1500), 1500))
	d.mu.Unlock()
}
