package main

// C06, worker kind "stalefull": an overflow decision must not outlive the overflow. The appender is stalled (gate closed),
// the queue is full, and one producer is held at the guarded yield point it passes after it has found the buffer full
// (async.full). Meanwhile the gate opens and the worker drains everything. Then the producer is released. From that moment
// the buffer is empty and the worker idle: whatever the policy did with the delayed item, the items submitted afterwards -
// one at a time, each awaited - find free space and must all be delivered, in order, without touching the discard counter.

import (
	"fmt"
	"time"

	log "github.com/go-spring/log"
)

func c06StaleFull(w *W) {
	registerMonitorPlugins()
	y := installYielder(uint64(w.Spec.Seed), 0, 0)
	for ci, policy := range []string{"Discard", "DiscardOldest", "Block", "Discard", "DiscardOldest", "Block"} {
		layout := ci >= 3
		c := asyncCase{Policy: policy, Buf: 100, Producers: 1, Appender: "gated", Layout: layout}
		cs := map[string]any{"scenario": "a producer delayed right after it found the buffer full; the queue drains meanwhile", "policy": policy, "layout": layout}
		w.Journal("C06 stalefull %+v", c)
		rec.take()
		l, sinkName, stop, err := buildAsync(c, "")
		if err != nil {
			w.Violate("C06:start-failed", err.Error(), c)
			continue
		}
		g := gateFor(sinkName)
		g.Open.Store(false)
		id := func(i int) string { return fmt.Sprintf("id-sf%dx%d-%d", w.Spec.Shard, ci, i) }
		submit := func(i int) {
			if i%4 == 3 {
				l.Write([]byte("raw " + id(i) + "\n"))
			} else {
				appendEvent(l, log.InfoLevel, id(i))
			}
		}
		submit(0)
		if _, ok := waitEntered(g, 20*time.Second); !ok {
			w.Inconclusive("stalefull: the worker never reached the appender")
			continue
		}
		for i := 1; i <= 100; i++ {
			submit(i)
		}
		// the 102nd item finds the buffer full; its producer is held at async.full
		hold := make(chan struct{})
		y.pause.Store("async.full", hold)
		h0 := y.counts()["async.full"]
		late := make(chan struct{})
		go func() { c06producer(func() { submit(101) }); close(late) }()
		t0 := time.Now()
		for y.counts()["async.full"] == h0 && time.Since(t0) < 20*time.Second {
			time.Sleep(50 * time.Microsecond)
		}
		if y.counts()["async.full"] == h0 {
			y.pause.Delete("async.full")
			close(hold)
			w.Inconclusive("stalefull: the overflowing producer never reached the yield point async.full")
			continue
		}
		// drain: open the gate and wait until the 101 accepted items have been delivered (the worker is idle then)
		g.Open.Store(true)
		for i := 0; i < 4; i++ {
			g.Gate <- struct{}{}
		}
		t0 = time.Now()
		for rec.count() < 101 && time.Since(t0) < 30*time.Second {
			time.Sleep(100 * time.Microsecond)
		}
		if rec.count() < 101 {
			y.pause.Delete("async.full")
			close(hold)
			w.Inconclusive(fmt.Sprintf("stalefull: only %d of 101 items drained", rec.count()))
			continue
		}
		y.pause.Delete("async.full")
		close(hold)
		select {
		case <-late:
		case <-time.After(20 * time.Second):
			k, gr := stuckInLibrary("c06producer")
			if k != "" {
				w.Violate("C06:stale-full:delayed-call-stuck:"+policy, fmt.Sprintf("the delayed call does not return although the buffer is empty (%s)\n%s", k, trunc(gr, 1000)), cs)
				w.flush()
				return
			}
			w.Inconclusive("stalefull: the delayed producer did not return")
			continue
		}
		counterAfterLate := l.GetDiscardCounter()
		if policy == "Block" && counterAfterLate != 0 {
			w.Violate("C06:stale-full:block-discards", fmt.Sprintf("discard counter %d under Block", counterAfterLate), cs)
		}
		if counterAfterLate > 1 {
			w.Violate("C06:stale-full:counter:"+policy, fmt.Sprintf("one call overflowed, the discard counter says %d", counterAfterLate), cs)
		}
		// now: empty buffer, idle worker. Ten more items, one at a time, each awaited at the appender.
		base := rec.count()
		bad := false
		for i := 102; i < 112 && !bad; i++ {
			if i == 105 || i == 108 {
				// a zero-length raw write from the same goroutine: one more item, delivered like any other, and the items
				// behind it follow in order
				before := rec.count()
				if i == 105 {
					l.Write(nil)
				} else {
					l.Write([]byte{})
				}
				t0 = time.Now()
				for rec.count() <= before && l.GetDiscardCounter() == counterAfterLate && time.Since(t0) < 20*time.Second {
					time.Sleep(50 * time.Microsecond)
				}
				if rec.count() <= before {
					bad = true
					w.Violate("C06:stale-full:empty-write-not-delivered:"+policy, "a zero-length raw write submitted to an empty buffer with an idle worker did not reach the appender", cs)
					break
				}
				base++
			}
			submit(i)
			t0 = time.Now()
			want := base + (i - 101)
			for rec.count() < want && l.GetDiscardCounter() == counterAfterLate && time.Since(t0) < 20*time.Second {
				time.Sleep(50 * time.Microsecond)
			}
			switch {
			case l.GetDiscardCounter() != counterAfterLate:
				bad = true
				w.Violate("C06:stale-full:dropped-with-free-space:"+policy, fmt.Sprintf("%s was submitted to an EMPTY buffer with an idle worker (the overflow ended long ago) and was counted as discarded (counter %d -> %d)", id(i), counterAfterLate, l.GetDiscardCounter()), cs)
			case rec.count() < want:
				bad = true
				w.Violate("C06:stale-full:not-delivered:"+policy, fmt.Sprintf("%s was submitted to an empty buffer with an idle worker and neither reached the appender nor was counted", id(i)), cs)
			}
		}
		if ok, pv, _ := callWithWatchdog(30*time.Second, stop); !ok || pv != nil {
			w.Violate("C06:stale-full:stop", fmt.Sprintf("Stop after the scenario: returned=%v panic=%v", ok, pv), cs)
			w.flush()
			return
		}
		// per-producer order of everything that was delivered (ids are submission-ordered)
		last := -1
		for _, it := range rec.take() {
			var k int
			if _, err := fmt.Sscanf(idOf(it.JSON), fmt.Sprintf("id-sf%dx%d-%%d", w.Spec.Shard, ci), &k); err != nil {
				continue
			}
			if k <= last && !(k == 101) { // the delayed item belongs to another goroutine: it may arrive anywhere after its own call
				bad = true
				w.Violate("C06:stale-full:order:"+policy, fmt.Sprintf("item %d was delivered after item %d of the same goroutine", k, last), cs)
				break
			}
			if k != 101 {
				last = k
			}
		}
		// the same logger object lives a second time: per-producer order and the policy hold for it like for a fresh one
		if !bad {
			if err := l.Start(); err != nil {
				w.Violate("C06:stale-full:restart", "Start after Stop failed: "+err.Error(), cs)
				continue
			}
			g.Open.Store(true)
			c0 := l.GetDiscardCounter()
			for i := 200; i < 206; i++ {
				submit(i)
			}
			if ok, pv, _ := callWithWatchdog(30*time.Second, l.Stop); !ok || pv != nil {
				w.Violate("C06:stale-full:stop", fmt.Sprintf("Stop of the second life: returned=%v panic=%v", ok, pv), cs)
				w.flush()
				return
			}
			var second []int
			for _, it := range rec.take() {
				var k int
				if _, err := fmt.Sscanf(idOf(it.JSON), fmt.Sprintf("id-sf%dx%d-%%d", w.Spec.Shard, ci), &k); err == nil {
					second = append(second, k)
				}
			}
			if fmt.Sprint(second) != "[200 201 202 203 204 205]" || l.GetDiscardCounter() != c0 {
				bad = true
				w.Violate("C06:stale-full:second-life:"+policy, fmt.Sprintf("after Stop and Start of the same logger object six items were submitted to the empty buffer: delivered %v, discard counter %d -> %d", second, c0, l.GetDiscardCounter()), cs)
			}
		}
		w.Eval(1)
		if !bad {
			w.Distinct(fmt.Sprintf("stalefull|%s|layout=%v", policy, layout))
			w.Sample(cs)
		}
	}
	// Block means wait, however long the consumer takes: a producer parked on the full queue is still parked after four seconds
	// of a stalled appender, nothing is counted as discarded, and once the appender moves again everything arrives in order.
	{
		c := asyncCase{Policy: "Block", Buf: 100, Producers: 1, Appender: "gated"}
		cs := map[string]any{"scenario": "Block policy, appender stalled for 4 s with a full queue and a waiting producer"}
		rec.take()
		l, sinkName, stop, err := buildAsync(c, "")
		if err == nil {
			g := gateFor(sinkName)
			g.Open.Store(false)
			id := func(i int) string { return fmt.Sprintf("id-lb%d-%d", w.Spec.Shard, i) }
			appendEvent(l, log.InfoLevel, id(0))
			if _, ok := waitEntered(g, 20*time.Second); ok {
				for i := 1; i <= 100; i++ {
					appendEvent(l, log.InfoLevel, id(i))
				}
				ret := make(chan struct{})
				go func() { c06blockedSender(func() { appendEvent(l, log.InfoLevel, id(101)) }); close(ret) }()
				early := false
				select {
				case <-ret:
					early = true
				case <-time.After(4 * time.Second):
				}
				counter := l.GetDiscardCounter()
				g.Open.Store(true)
				for i := 0; i < 4; i++ {
					g.Gate <- struct{}{}
				}
				<-ret
				if ok, pv, _ := callWithWatchdog(30*time.Second, stop); !ok || pv != nil {
					w.Inconclusive("long-block: Stop did not return")
				} else {
					var got []string
					for _, it := range rec.take() {
						got = append(got, idOf(it.JSON))
					}
					okAll := !early && counter == 0 && l.GetDiscardCounter() == 0 && len(got) == 102
					for i := 0; okAll && i < 102; i++ {
						okAll = got[i] == id(i)
					}
					w.Eval(1)
					if !okAll {
						w.Violate("C06:block-gave-up", fmt.Sprintf("Block policy with an appender stalled for 4 s: the waiting call returned early=%v, discard counter %d, %d of 102 items delivered in order", early, l.GetDiscardCounter(), len(got)), cs)
					} else {
						w.Distinct("long-block")
					}
				}
			}
		}
	}
	for k, v := range y.counts() {
		w.Count("yield_"+k, v)
	}
}
