// Core of the verification harness: one binary that acts as driver ("check") and as
// worker ("worker"). The driver derives deterministic case lists from VERIF_SEED and the tier,
// runs workers as child processes (so that a panic, fatal error, race abort or deadlock in the
// library cannot take the monitor down), merges their results, applies the known-findings file,
// writes the evidence file and prints VIOLATION / KNOWN-FINDING lines.
package main

import (
	"bytes"
	"crypto/sha256"
	"encoding/hex"
	"encoding/json"
	"fmt"
	"math/rand/v2"
	"os"
	"os/exec"
	"path/filepath"
	"regexp"
	"runtime"
	"sort"
	"strconv"
	"strings"
	"sync"
	"syscall"
	"time"
)

var verifDir = func() string {
	if d := os.Getenv("VERIF_DIR"); d != "" {
		return d
	}
	return "/verif"
}()

// ---------------------------------------------------------------------------------------------
// shared data types (driver <-> worker)

type Violation struct {
	Key  string `json:"key"`  // stable identity (used by known_findings.json)
	Desc string `json:"desc"` // human readable witness
	Case any    `json:"case"` // exact case (input / op sequence / history) for replay
}

type Result struct {
	Evals         int64            `json:"evals"`
	DistinctSet   []string         `json:"distinct_set,omitempty"`   // signatures, merged by union
	DistinctCount int64            `json:"distinct_count,omitempty"` // for disjoint enumerations, merged by sum
	Samples       []any            `json:"samples,omitempty"`
	Violations    []Violation      `json:"violations,omitempty"`
	Counters      map[string]int64 `json:"counters,omitempty"`
	Inconclusive  []string         `json:"inconclusive,omitempty"`
	Notes         []string         `json:"notes,omitempty"`
}

type Spec struct {
	Prop    string            `json:"prop"`
	Name    string            `json:"name"`
	Kind    string            `json:"kind"` // worker kind within the property
	Tier    string            `json:"tier"`
	Seed    int64             `json:"seed"`
	Shard   int               `json:"shard"`
	NShards int               `json:"nshards"`
	N       int64             `json:"n"` // generic size parameter
	Args    map[string]string `json:"args,omitempty"`
	Replay  json.RawMessage   `json:"replay,omitempty"` // when set: run only this case
	Dir     string            `json:"dir"`              // scratch directory for this worker
	Flavour string            `json:"flavour"`          // plain | race | noinline
	// driver side only
	TimeoutS int      `json:"timeout_s"`
	Env      []string `json:"env,omitempty"`
}

// ---------------------------------------------------------------------------------------------
// worker side

type W struct {
	Spec    Spec
	Res     Result
	set     map[string]struct{}
	mu      sync.Mutex
	journal *os.File
	lastJ   string
	rng     *rand.Rand
	maxViol int
}

func newRng(seed int64, stream uint64) *rand.Rand {
	return rand.New(rand.NewPCG(uint64(seed)*0x9E3779B97F4A7C15+0x1234567, stream*0xD1B54A32D192ED03+0x7654321))
}

func (w *W) Rng() *rand.Rand { return w.rng }

func (w *W) Arg(k, def string) string {
	if v, ok := w.Spec.Args[k]; ok {
		return v
	}
	return def
}
func (w *W) ArgInt(k string, def int) int {
	if v, ok := w.Spec.Args[k]; ok {
		n, err := strconv.Atoi(v)
		if err == nil {
			return n
		}
	}
	return def
}

// Journal records the case about to be executed (so the driver knows the input if the process dies).
func (w *W) Journal(format string, a ...any) {
	if w.journal == nil {
		return
	}
	w.mu.Lock()
	defer w.mu.Unlock()
	_, _ = w.journal.Seek(0, 0)
	_ = w.journal.Truncate(0)
	w.lastJ = fmt.Sprintf(format, a...)
	fmt.Fprint(w.journal, w.lastJ)
}

func (w *W) Distinct(sig string) {
	w.mu.Lock()
	w.set[sig] = struct{}{}
	w.mu.Unlock()
}
func (w *W) Count(k string, n int64) {
	w.mu.Lock()
	w.Res.Counters[k] += n
	w.mu.Unlock()
}
func (w *W) CountMax(k string, n int64) {
	w.mu.Lock()
	if w.Res.Counters[k] < n {
		w.Res.Counters[k] = n
	}
	w.mu.Unlock()
}
func (w *W) Eval(n int64) {
	w.mu.Lock()
	w.Res.Evals += n
	w.mu.Unlock()
}
func (w *W) Sample(s any) {
	w.mu.Lock()
	if len(w.Res.Samples) < 4 {
		w.Res.Samples = append(w.Res.Samples, s)
	}
	w.mu.Unlock()
}
func (w *W) Violate(key, desc string, c any) {
	w.mu.Lock()
	defer w.mu.Unlock()
	w.Res.Counters["violations_seen"]++
	// keep one witness per key, bounded number of keys
	for _, v := range w.Res.Violations {
		if v.Key == key {
			return
		}
	}
	if len(w.Res.Violations) >= w.maxViol {
		return
	}
	if len(desc) > 4000 {
		desc = desc[:4000] + "…"
	}
	w.Res.Violations = append(w.Res.Violations, Violation{Key: key, Desc: desc, Case: c})
}
func (w *W) Inconclusive(s string) {
	w.mu.Lock()
	if len(w.Res.Inconclusive) < 50 {
		w.Res.Inconclusive = append(w.Res.Inconclusive, s)
	}
	w.mu.Unlock()
}
func (w *W) Note(s string) {
	w.mu.Lock()
	if len(w.Res.Notes) < 50 {
		w.Res.Notes = append(w.Res.Notes, s)
	}
	w.mu.Unlock()
}

func (w *W) flush() {
	w.mu.Lock()
	defer w.mu.Unlock()
	if len(w.Res.Samples) == 0 && w.Res.Evals > 0 && w.lastJ != "" {
		w.Res.Samples = append(w.Res.Samples, map[string]any{"last_journaled_case": trunc(w.lastJ, 600)})
	}
	w.Res.DistinctSet = w.Res.DistinctSet[:0]
	for k := range w.set {
		w.Res.DistinctSet = append(w.Res.DistinctSet, k)
	}
	sort.Strings(w.Res.DistinctSet)
	b, _ := json.Marshal(&w.Res)
	tmp := filepath.Join(w.Spec.Dir, w.Spec.Name+".result.json.tmp")
	_ = os.WriteFile(tmp, b, 0644)
	_ = os.Rename(tmp, filepath.Join(w.Spec.Dir, w.Spec.Name+".result.json"))
}

func workerMain(args []string) {
	if len(args) != 1 {
		fmt.Fprintln(os.Stderr, "usage: vh worker <spec.json>")
		os.Exit(3)
	}
	b, err := os.ReadFile(args[0])
	if err != nil {
		fmt.Fprintln(os.Stderr, err)
		os.Exit(3)
	}
	w := &W{set: map[string]struct{}{}, maxViol: 20}
	if err := json.Unmarshal(b, &w.Spec); err != nil {
		fmt.Fprintln(os.Stderr, err)
		os.Exit(3)
	}
	w.Res.Counters = map[string]int64{}
	w.rng = newRng(w.Spec.Seed, uint64(w.Spec.Shard)+1)
	w.journal, _ = os.Create(filepath.Join(w.Spec.Dir, w.Spec.Name+".journal"))
	p := props[w.Spec.Prop]
	if p == nil || p.Worker == nil {
		fmt.Fprintln(os.Stderr, "unknown property", w.Spec.Prop)
		os.Exit(3)
	}
	go func() { // heartbeat for the driver: what the monitors have seen so far
		for {
			w.mu.Lock()
			ev := w.Res.Evals
			w.mu.Unlock()
			_ = os.WriteFile(filepath.Join(w.Spec.Dir, w.Spec.Name+".progress"), []byte(fmt.Sprintf("%d %d", libraryProgress(), ev)), 0644)
			time.Sleep(5 * time.Second)
		}
	}()
	p.Worker(w)
	w.flush()
	os.Exit(0)
}

// catch runs f and returns the recovered panic value (nil if none) and the stack at the panic.
func catch(f func()) (pv any, stack string) {
	defer func() {
		if r := recover(); r != nil {
			pv = r
			buf := make([]byte, 16<<10)
			stack = string(buf[:runtime.Stack(buf, false)])
		}
	}()
	f()
	return nil, ""
}

// ---------------------------------------------------------------------------------------------
// driver side

type Prop struct {
	ID          string
	Level       string // exploration | fault_enumeration
	Rule        string
	Assumptions []string
	MinDistinct int
	Run         func(d *D)
	Worker      func(w *W)
}

var props = map[string]*Prop{}

func register(p *Prop) { props[p.ID] = p }

type WorkerOut struct {
	Spec     Spec
	Exit     int
	TimedOut bool
	Res      *Result
	Journal  string
	LogTail  string
	Races    []RaceReport
	WallS    float64
}

type D struct {
	P      *Prop
	ID     string
	Tier   string
	Seed   int64
	Out    string // /verif/out/<ID>
	Replay json.RawMessage

	mu         sync.Mutex
	Evals      int64
	Set        map[string]struct{}
	DistinctN  int64
	Samples    []any
	Counters   map[string]int64
	Extra      map[string]any
	Violations []Violation
	Inconcl    []string
	Infra      []string
	Notes      []string
	start      time.Time
}

func (d *D) Quick() bool { return d.Tier != "thorough" }

// Pick returns q in the quick tier and t in the thorough tier.
func (d *D) Pick(q, t int64) int64 {
	if d.Quick() {
		return q
	}
	return t
}

func (d *D) bin(flavour string) string {
	if os.Getenv("VERIF_COVER") != "" {
		// coverage measurement (cover.sh): every worker runs the statement-coverage build; GOCOVERDIR is inherited
		return filepath.Join(verifDir, "build", "vh-cover")
	}
	switch flavour {
	case "race":
		return filepath.Join(verifDir, "build", "vh-race")
	case "noinline":
		return filepath.Join(verifDir, "build", "vh-noinline")
	case "go126", "go126noinline":
		return filepath.Join(verifDir, "build", "vh-"+flavour)
	}
	return filepath.Join(verifDir, "build", "vh")
}

func (d *D) NewSpec(kind, name string, shard, nshards int) Spec {
	return Spec{Prop: d.ID, Name: name, Kind: kind, Tier: d.Tier, Seed: d.Seed, Shard: shard, NShards: nshards,
		Dir: d.Out, Flavour: "plain", TimeoutS: int(d.Pick(240, 900)), Args: map[string]string{}, Replay: nil}
}

// runtimeVariants are Go runtime settings under which a concurrent workload is repeated: the scheduler and the
// garbage collector decide which interleavings and which sync.Pool reuse patterns occur (a GC cycle empties the
// pools; with one P goroutines only switch at preemption/blocking points), so the same seeded workload explores
// different executions under each of them.
var runtimeVariants = []struct {
	name string
	env  []string
}{
	{"p2", []string{"GOMAXPROCS=2"}},
	{"gc1", []string{"GOGC=1"}},
	{"p1", []string{"GOMAXPROCS=1"}},
	{"p3gc5", []string{"GOMAXPROCS=3", "GOGC=5"}},
	{"p64", []string{"GOMAXPROCS=64"}},
	// no garbage collection (bounded by a memory limit): sync.Pool contents survive, so whatever a recycled object carries shows
	{"gcoff", []string{"GOGC=off", "GOMEMLIMIT=3GiB"}},
	{"p2gcoff", []string{"GOMAXPROCS=2", "GOGC=off", "GOMEMLIMIT=3GiB"}},
}

// WithRuntimeVariants appends, for every `every`-th spec accepted by `pick`, a copy that runs under one of the
// runtimeVariants (chosen cyclically, offset by the seed).
func (d *D) WithRuntimeVariants(specs []Spec, every int, pick func(Spec) bool) []Spec {
	out := append([]Spec(nil), specs...)
	k := 0
	for _, s := range specs {
		if pick != nil && !pick(s) {
			continue
		}
		k++
		if k%every != 0 {
			continue
		}
		v := runtimeVariants[(k/every+int(d.Seed))%len(runtimeVariants)]
		c := s
		c.Name = s.Name + "-" + v.name
		c.Args = map[string]string{}
		for a, b := range s.Args {
			c.Args[a] = b
		}
		c.Env = append(append([]string(nil), s.Env...), v.env...)
		c.Shard = s.Shard + 7919 // a different PRNG stream than the original
		out = append(out, c)
		d.mu.Lock()
		d.Counters["runtime_variant_workers"]++
		d.Set["runtime-variant|"+v.name] = struct{}{}
		d.mu.Unlock()
	}
	return out
}

// Replicate returns specs followed by n-1 copies of each that draw from different PRNG streams (thorough tiers of the
// real-time checks: every placement/scenario is one execution, so depth comes from repeating it).
func (d *D) Replicate(specs []Spec, n int) []Spec {
	out := append([]Spec(nil), specs...)
	for k := 1; k < n; k++ {
		for _, s := range specs {
			c := s
			c.Name = fmt.Sprintf("%s-r%d", s.Name, k)
			c.Args = map[string]string{}
			for a, b := range s.Args {
				c.Args[a] = b
			}
			c.Shard = s.Shard + 1000*k
			out = append(out, c)
		}
	}
	return out
}

// RunWorkers runs the given specs as child processes, at most par at a time, and merges their results.
func (d *D) RunWorkers(specs []Spec, par int) []*WorkerOut {
	if par <= 0 {
		par = runtime.NumCPU()
	}
	outs := make([]*WorkerOut, len(specs))
	sem := make(chan struct{}, par)
	var wg sync.WaitGroup
	for i := range specs {
		wg.Add(1)
		sem <- struct{}{}
		go func(i int) {
			defer wg.Done()
			defer func() { <-sem }()
			outs[i] = d.runOne(specs[i])
		}(i)
	}
	wg.Wait()
	for _, o := range outs {
		d.merge(o)
	}
	return outs
}

func (d *D) runOne(s Spec) *WorkerOut {
	o := &WorkerOut{Spec: s}
	specPath := filepath.Join(s.Dir, s.Name+".spec.json")
	b, _ := json.Marshal(&s)
	_ = os.WriteFile(specPath, b, 0644)
	logPath := filepath.Join(s.Dir, s.Name+".log")
	lf, _ := os.Create(logPath)
	defer lf.Close()
	_ = os.Remove(filepath.Join(s.Dir, s.Name+".result.json"))
	cmd := exec.Command(d.bin(s.Flavour), "worker", specPath)
	cmd.Stdout = lf
	cmd.Stderr = lf
	cmd.Dir = s.Dir
	cmd.Env = append(os.Environ(), "GOTRACEBACK=all")
	racePrefix := filepath.Join(s.Dir, s.Name+".race")
	if s.Flavour == "race" {
		old, _ := filepath.Glob(racePrefix + ".*")
		for _, f := range old {
			_ = os.Remove(f)
		}
		cmd.Env = append(cmd.Env, "GORACE=halt_on_error=0 history_size=5 log_path="+racePrefix)
	}
	cmd.Env = append(cmd.Env, s.Env...)
	cmd.SysProcAttr = &syscall.SysProcAttr{Setpgid: true}
	t0 := time.Now()
	if err := cmd.Start(); err != nil {
		o.Exit = -1
		o.LogTail = err.Error()
		return o
	}
	done := make(chan error, 1)
	go func() { done <- cmd.Wait() }()
	timeout := time.Duration(s.TimeoutS) * time.Second
	if timeout <= 0 {
		timeout = 10 * time.Minute
	}
	var err error
	progressPath := filepath.Join(s.Dir, s.Name+".progress")
	readProgress := func() string { b, _ := os.ReadFile(progressPath); return string(b) }
	finished := false
	// The time limit is not a verdict on its own: a worker whose monitors still see the library making progress (heartbeat
	// file written by the worker every 5 s) is given more time, up to four times the limit; only a worker that makes no
	// progress any more is dumped (SIGQUIT) and classified.
waitLoop:
	for ext := 0; ; ext++ {
		select {
		case err = <-done:
			finished = true
			break waitLoop
		case <-time.After(timeout):
		}
		if ext >= 3 {
			break
		}
		p1 := readProgress()
		select {
		case err = <-done:
			finished = true
			break waitLoop
		case <-time.After(30 * time.Second):
		}
		if p2 := readProgress(); p2 == p1 || p2 == "" {
			break
		}
	}
	if !finished {
		o.TimedOut = true
		_ = syscall.Kill(-cmd.Process.Pid, syscall.SIGQUIT)
		select {
		case err = <-done:
		case <-time.After(10 * time.Second):
			_ = syscall.Kill(-cmd.Process.Pid, syscall.SIGKILL)
			err = <-done
		}
	}
	o.WallS = time.Since(t0).Seconds()
	if err != nil {
		if ee, ok := err.(*exec.ExitError); ok {
			o.Exit = ee.ExitCode()
		} else {
			o.Exit = -1
		}
	}
	if rb, e := os.ReadFile(filepath.Join(s.Dir, s.Name+".result.json")); e == nil {
		var r Result
		if json.Unmarshal(rb, &r) == nil {
			o.Res = &r
		}
	}
	if jb, e := os.ReadFile(filepath.Join(s.Dir, s.Name+".journal")); e == nil {
		o.Journal = string(jb)
	}
	o.LogTail = tailFile(logPath, 12000)
	if s.Flavour == "race" {
		o.Races = parseRaceLogs(racePrefix)
	}
	return o
}

func tailFile(p string, n int64) string {
	f, err := os.Open(p)
	if err != nil {
		return ""
	}
	defer f.Close()
	st, _ := f.Stat()
	off := int64(0)
	if st.Size() > n {
		off = st.Size() - n
	}
	b := make([]byte, st.Size()-off)
	_, _ = f.ReadAt(b, off)
	return string(b)
}

func headFile(p string, n int64) string {
	f, err := os.Open(p)
	if err != nil {
		return ""
	}
	defer f.Close()
	b := make([]byte, n)
	k, _ := f.Read(b)
	return string(b[:k])
}

var libFrameRe = regexp.MustCompile(`github\.com/go-spring/log(/expr)?\.`)

func (d *D) merge(o *WorkerOut) {
	d.mu.Lock()
	defer d.mu.Unlock()
	if o.Res != nil {
		r := o.Res
		d.Evals += r.Evals
		for _, s := range r.DistinctSet {
			d.Set[s] = struct{}{}
		}
		d.DistinctN += r.DistinctCount
		for _, s := range r.Samples {
			if len(d.Samples) < 6 {
				d.Samples = append(d.Samples, s)
			}
		}
		for k, v := range r.Counters {
			if strings.HasPrefix(k, "max_") {
				if d.Counters[k] < v {
					d.Counters[k] = v
				}
			} else {
				d.Counters[k] += v
			}
		}
		for _, v := range r.Violations {
			v.Case = map[string]any{"spec": o.Spec, "case": v.Case}
			d.addViolationLocked(v)
		}
		d.Inconcl = append(d.Inconcl, r.Inconclusive...)
		d.Notes = append(d.Notes, r.Notes...)
	}
	if o.Res == nil || o.Exit != 0 || o.TimedOut {
		// the worker died or hung: classify
		full := headFile(filepath.Join(o.Spec.Dir, o.Spec.Name+".log"), 1<<20)
		desc := fmt.Sprintf("worker %s exit=%d timedout=%v last journaled case: %s\nlog head:\n%s", o.Spec.Name, o.Exit, o.TimedOut, trunc(o.Journal, 3000), trunc(full, 6000))
		kind := classifyDeath(full, o.TimedOut)
		switch kind {
		case "lib-panic", "lib-fatal", "lib-deadlock":
			d.addViolationLocked(Violation{Key: "process-death:" + kind + ":" + o.Spec.Kind, Desc: desc,
				Case: map[string]any{"spec": o.Spec, "journal": o.Journal}})
		default:
			d.Infra = append(d.Infra, "worker "+o.Spec.Name+" failed ("+kind+"): "+trunc(desc, 3000))
		}
	}
}

// classifyDeath decides from a worker's output whether it died inside the library.
func classifyDeath(log string, timedOut bool) string {
	if timedOut {
		// SIGQUIT dump: is some goroutine blocked inside the library on a channel operation?
		for _, g := range strings.Split(log, "\n\ngoroutine ") {
			hdr, _, _ := strings.Cut(g, "\n")
			if (strings.Contains(hdr, "chan send") || strings.Contains(hdr, "chan receive") || strings.Contains(hdr, "select")) && libTop(g) {
				return "lib-deadlock"
			}
		}
		return "timeout"
	}
	if i := strings.Index(log, "fatal error:"); i >= 0 {
		if libFrameRe.MatchString(log[i:]) {
			return "lib-fatal"
		}
		return "fatal"
	}
	if i := strings.Index(log, "panic:"); i >= 0 {
		// first goroutine after the panic line is the panicking one
		rest := log[i:]
		if j := strings.Index(rest, "\n\ngoroutine "); j >= 0 {
			g := rest[j+2:]
			if k := strings.Index(g, "\n\n"); k >= 0 {
				g = g[:k]
			}
			if libFrameRe.MatchString(g) {
				return "lib-panic"
			}
		} else if libFrameRe.MatchString(rest) {
			return "lib-panic"
		}
		return "panic"
	}
	return "exit"
}

// libTop reports whether the innermost non-runtime frame of a goroutine dump block is in the library.
func libTop(g string) bool {
	lines := strings.Split(g, "\n")
	for _, l := range lines[1:] {
		if strings.HasPrefix(l, "\t") || l == "" {
			continue
		}
		if strings.HasPrefix(l, "runtime.") || strings.HasPrefix(l, "sync.") || strings.HasPrefix(l, "internal/") || strings.HasPrefix(l, "time.Sleep(") {
			continue
		}
		return libFrameRe.MatchString(l)
	}
	return false
}

func trunc(s string, n int) string {
	if len(s) > n {
		return s[:n] + "…"
	}
	return s
}

func (d *D) addViolationLocked(v Violation) {
	for _, x := range d.Violations {
		if x.Key == v.Key {
			return
		}
	}
	d.Violations = append(d.Violations, v)
}

func (d *D) Violate(key, desc string, c any) {
	d.mu.Lock()
	defer d.mu.Unlock()
	d.addViolationLocked(Violation{Key: key, Desc: desc, Case: c})
}

func (d *D) AddDistinct(sig string) {
	d.mu.Lock()
	d.Set[sig] = struct{}{}
	d.mu.Unlock()
}

// ---------------------------------------------------------------------------------------------
// race report parsing (GORACE log_path files)

type RaceReport struct {
	Text   string
	Stacks [][]string // function names per stack, outermost last
	Lib    bool       // at least one access stack inside the library
	Sig    string
}

var fnLineRe = regexp.MustCompile(`^  ([^\s].*)\(`)

func parseRaceLogs(prefix string) []RaceReport {
	files, _ := filepath.Glob(prefix + ".*")
	var reps []RaceReport
	for _, f := range files {
		b, err := os.ReadFile(f)
		if err != nil {
			continue
		}
		for _, blk := range strings.Split(string(b), "==================") {
			if !strings.Contains(blk, "WARNING: DATA RACE") {
				continue
			}
			r := RaceReport{Text: strings.TrimSpace(blk)}
			// split into sections separated by blank lines; the first two sections are the two accesses
			secs := strings.Split(strings.TrimSpace(blk), "\n\n")
			for si, sec := range secs {
				var st []string
				for _, l := range strings.Split(sec, "\n") {
					if m := fnLineRe.FindStringSubmatch(l); m != nil {
						st = append(st, m[1])
					}
				}
				if si < 2 {
					r.Stacks = append(r.Stacks, st)
				}
			}
			var sigParts []string
			for _, st := range r.Stacks {
				inner := ""
				if len(st) > 0 {
					inner = st[0]
				}
				// innermost frame that is in the library, if any
				libf := ""
				for _, fn := range st {
					if libFrameRe.MatchString(fn) {
						libf = fn
						r.Lib = true
						break
					}
				}
				sigParts = append(sigParts, inner+"|"+libf)
			}
			sort.Strings(sigParts)
			r.Sig = strings.Join(sigParts, " <-> ")
			reps = append(reps, r)
		}
	}
	return reps
}

// ---------------------------------------------------------------------------------------------
// known findings, evidence, main

type KnownFinding struct {
	Property  string `json:"property"`
	Key       string `json:"key"`
	Status    string `json:"status"` // open | fixed
	Commit    string `json:"commit,omitempty"`
	What      string `json:"what"`
	FirstSeen string `json:"first_seen,omitempty"`
}

func loadKnown() []KnownFinding {
	var k []KnownFinding
	b, err := os.ReadFile(filepath.Join(verifDir, "known_findings.json"))
	if err == nil {
		_ = json.Unmarshal(b, &k)
	}
	return k
}

func driverMain(args []string) {
	if len(args) < 1 {
		fmt.Fprintln(os.Stderr, "usage: vh check <ID> [--tier quick|thorough] [--replay file]")
		os.Exit(3)
	}
	id := args[0]
	p := props[id]
	if p == nil {
		fmt.Fprintln(os.Stderr, "unknown property", id)
		os.Exit(3)
	}
	tier := os.Getenv("VERIF_TIER")
	replay := ""
	for i := 1; i < len(args); i++ {
		switch args[i] {
		case "--tier":
			i++
			tier = args[i]
		case "--replay":
			i++
			replay = args[i]
		}
	}
	if tier != "thorough" {
		tier = "quick"
	}
	seed := int64(1)
	if s := os.Getenv("VERIF_SEED"); s != "" {
		if n, err := strconv.ParseInt(s, 10, 64); err == nil {
			seed = n
		}
	}
	d := &D{P: p, ID: id, Tier: tier, Seed: seed, Out: filepath.Join(verifDir, "out", id),
		Set: map[string]struct{}{}, Counters: map[string]int64{}, Extra: map[string]any{}, start: time.Now()}
	_ = os.RemoveAll(d.Out)
	_ = os.MkdirAll(d.Out, 0755)
	_ = os.MkdirAll(filepath.Join(verifDir, "out", "replay"), 0755)
	_ = os.MkdirAll(filepath.Join(verifDir, "evidence"), 0755)

	if replay != "" {
		b, err := os.ReadFile(replay)
		if err != nil {
			fmt.Fprintln(os.Stderr, "cannot read replay file:", err)
			os.Exit(3)
		}
		var rf struct {
			Property string `json:"property"`
			Key      string `json:"key"`
			Case     struct {
				Spec *Spec           `json:"spec"`
				Case json.RawMessage `json:"case"`
			} `json:"case"`
		}
		if err := json.Unmarshal(b, &rf); err != nil || rf.Case.Spec == nil {
			fmt.Fprintln(os.Stderr, "replay file has no worker spec (driver-level witness): re-run the check with the same VERIF_SEED")
			os.Exit(3)
		}
		s := *rf.Case.Spec
		s.Dir = d.Out
		s.Name = "replay"
		s.Replay = rf.Case.Case
		fmt.Printf("replaying %s case of worker kind %q (seed %d shard %d/%d flavour %s)\n", id, s.Kind, s.Seed, s.Shard, s.NShards, s.Flavour)
		d.Seed = s.Seed
		outs := d.RunWorkers([]Spec{s}, 1)
		d.raceVerdict(outs)
		d.finish(false)
		return
	}

	p.Run(d)
	d.finish(true)
}

// raceVerdict turns library-attributed race reports into violations (one per distinct signature).
func (d *D) raceVerdict(outs []*WorkerOut) {
	nLib, nHarness := 0, 0
	sigs := map[string]bool{}
	for _, o := range outs {
		for _, r := range o.Races {
			if r.Lib {
				nLib++
				if !sigs[r.Sig] {
					sigs[r.Sig] = true
					d.Violate("race:"+r.Sig, "data race reported by the race detector:\n"+trunc(r.Text, 3500), map[string]any{"spec": o.Spec, "case": nil})
				}
			} else {
				nHarness++
				d.mu.Lock()
				d.Infra = append(d.Infra, "race report with no library frame (harness race):\n"+trunc(r.Text, 2000))
				d.mu.Unlock()
			}
		}
	}
	d.mu.Lock()
	d.Counters["race_reports_library"] += int64(nLib)
	d.Counters["race_reports_harness"] += int64(nHarness)
	d.mu.Unlock()
}

func (d *D) finish(writeEvidence bool) {
	known := loadKnown()
	exit := 0
	var unsuppressed []Violation
	for _, v := range d.Violations {
		supp := false
		for _, k := range known {
			if k.Property == d.ID && k.Status == "open" && k.Key == v.Key {
				fmt.Printf("KNOWN-FINDING: property=%s %s (%s)\n", d.ID, k.What, v.Key)
				supp = true
			}
		}
		if !supp {
			unsuppressed = append(unsuppressed, v)
		}
	}
	for _, v := range unsuppressed {
		h := sha256.Sum256([]byte(v.Key))
		path := filepath.Join(verifDir, "out", "replay", d.ID+"-"+hex.EncodeToString(h[:6])+".json")
		rb, _ := json.MarshalIndent(map[string]any{"property": d.ID, "key": v.Key, "desc": v.Desc, "tier": d.Tier, "seed": d.Seed, "case": v.Case}, "", " ")
		_ = os.WriteFile(path, rb, 0644)
		fmt.Printf("VIOLATION property=%s replay=%s\n", d.ID, path)
		fmt.Printf("  key: %s\n  %s\n", v.Key, strings.ReplaceAll(trunc(v.Desc, 1500), "\n", "\n  "))
		exit = 1
	}
	distinct := int64(len(d.Set)) + d.DistinctN
	// measurement runs (cover.sh, mutation sweeps) never touch the evidence files
	if writeEvidence && os.Getenv("VERIF_NOEVIDENCE") == "" {
		cov := map[string]any{
			"evaluations":         d.Evals,
			"distinct_nontrivial": distinct,
			"rule":                d.P.Rule,
			"samples":             d.Samples,
		}
		for k, v := range d.Counters {
			cov[k] = v
		}
		for k, v := range d.Extra {
			cov[k] = v
		}
		if len(d.Inconcl) > 0 {
			cov["inconclusive"] = len(d.Inconcl)
			cov["inconclusive_detail"] = firstN(d.Inconcl, 10)
		}
		if len(d.Notes) > 0 {
			cov["notes"] = firstN(d.Notes, 20)
		}
		if d.Samples == nil {
			cov["samples"] = []any{}
		}
		ev := map[string]any{
			"property_id": d.ID,
			"tier":        d.Tier,
			"seed":        d.Seed,
			"level":       d.P.Level,
			"coverage":    cov,
			"assumptions": d.P.Assumptions,
			"wall_s":      float64(int(time.Since(d.start).Seconds()*100)) / 100,
			"violations":  len(unsuppressed),
		}
		b, _ := json.MarshalIndent(ev, "", " ")
		_ = os.WriteFile(filepath.Join(verifDir, "evidence", d.ID+".json"), append(b, '\n'), 0644)
	}
	fmt.Printf("%s tier=%s seed=%d evaluations=%d distinct_nontrivial=%d violations=%d known=%d inconclusive=%d wall=%.1fs\n",
		d.ID, d.Tier, d.Seed, d.Evals, distinct, len(unsuppressed), len(d.Violations)-len(unsuppressed), len(d.Inconcl), time.Since(d.start).Seconds())
	keys := make([]string, 0, len(d.Counters))
	for k := range d.Counters {
		keys = append(keys, k)
	}
	sort.Strings(keys)
	var sb bytes.Buffer
	for _, k := range keys {
		fmt.Fprintf(&sb, " %s=%d", k, d.Counters[k])
	}
	if sb.Len() > 0 {
		fmt.Println("  observed:" + sb.String())
	}
	if exit == 0 && len(d.Infra) > 0 {
		for _, s := range firstN(d.Infra, 5) {
			fmt.Println("INFRASTRUCTURE-ERROR:", trunc(s, 3000))
		}
		os.Exit(2)
	}
	if exit == 0 && writeEvidence {
		min := int64(d.P.MinDistinct)
		if min < 2 {
			min = 2
		}
		if d.Evals == 0 || distinct < min {
			fmt.Printf("INCONCLUSIVE: monitors observed too little (evaluations=%d distinct=%d, need >=%d)\n", d.Evals, distinct, min)
			os.Exit(2)
		}
		if len(d.Inconcl) > 0 {
			for _, s := range firstN(d.Inconcl, 5) {
				fmt.Println("INCONCLUSIVE:", trunc(s, 1000))
			}
			if d.Counters["inconclusive_fatal"] > 0 {
				os.Exit(2)
			}
		}
	}
	os.Exit(exit)
}

func firstN[T any](s []T, n int) []T {
	if len(s) > n {
		return s[:n]
	}
	return s
}

func main() {
	if len(os.Args) < 2 {
		fmt.Fprintln(os.Stderr, "usage: vh check|worker ...")
		os.Exit(3)
	}
	switch os.Args[1] {
	case "check":
		driverMain(os.Args[2:])
	case "worker":
		workerMain(os.Args[2:])
	case "list":
		ids := []string{}
		for k := range props {
			ids = append(ids, k)
		}
		sort.Strings(ids)
		fmt.Println(strings.Join(ids, " "))
	default:
		if f, ok := subcommands[os.Args[1]]; ok {
			f(os.Args[2:])
			return
		}
		fmt.Fprintln(os.Stderr, "unknown command", os.Args[1])
		os.Exit(3)
	}
}

var subcommands = map[string]func(args []string){}
