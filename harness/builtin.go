package main

// Built-in sinks as they are in production: most monitors of this harness look at the library through recording appenders and
// a replaced log.Stdout, which a fast path reserved for the library's own types (a type switch on *FileAppender, a check for
// log.Stdout being an *os.File) never reaches. builtinFaithful closes that gap for the formatting properties: the same events
// go through the built-in Console appender (log.Stdout = the write end of an os.Pipe, i.e. a real *os.File), the built-in File
// appender and the built-in RollingFile appender, each with a built-in layout; what arrives on the descriptor / in the file
// must be byte for byte what a second layout instance of the same type and width produces for the same events - and THAT
// output is what the property's own oracle has judged. One event at a time, from one goroutine.

import (
	"bytes"
	"fmt"
	"io"
	"os"
	"path/filepath"
	"time"

	log "github.com/go-spring/log"
)

type builtinMismatch struct {
	Sink, Layout string
	Index        int
	Got, Want    string
}

// builtinFaithful returns the first mismatch per (sink, layout) pair, nil if none. mk builds the events afresh for every
// pair (events are consumed by formatting when they carry single-use encoders).
func builtinFaithful(dir, name string, width int, mk func() []*log.Event) []builtinMismatch {
	var out []builtinMismatch
	mkLayout := func(kind string) log.Layout {
		if kind == "JSONLayout" {
			return &log.JSONLayout{BaseLayout: log.BaseLayout{FileLineLength: width}}
		}
		return &log.TextLayout{BaseLayout: log.BaseLayout{FileLineLength: width}}
	}
	for _, lk := range []string{"TextLayout", "JSONLayout"} {
		ref := mkLayout(lk)
		var want [][]byte
		for _, e := range mk() {
			want = append(want, append([]byte(nil), ref.ToBytes(e)...))
		}
		compare := func(sink string, got []byte) {
			off := 0
			for i, wl := range want {
				if off+len(wl) > len(got) || !bytes.Equal(got[off:off+len(wl)], wl) {
					end := off + len(wl) + 40
					if end > len(got) {
						end = len(got)
					}
					start := off
					if start > len(got) {
						start = len(got)
					}
					out = append(out, builtinMismatch{Sink: sink, Layout: lk, Index: i, Got: trunc(string(got[start:end]), 600), Want: trunc(string(wl), 600)})
					return
				}
				off += len(wl)
			}
			if off != len(got) {
				out = append(out, builtinMismatch{Sink: sink, Layout: lk, Index: len(want), Got: trunc(string(got[off:]), 600), Want: "<nothing more>"})
			}
		}
		// Console appender on a real *os.File (a pipe)
		if r, wp, err := os.Pipe(); err == nil {
			saved := log.Stdout
			log.Stdout = wp
			done := make(chan []byte, 1)
			go func() { b, _ := io.ReadAll(r); done <- b }()
			ca := &log.ConsoleAppender{AppenderBase: log.AppenderBase{Name: "bc"}, Layout: mkLayout(lk)}
			_ = ca.Start()
			for _, e := range mk() {
				ca.Append(e)
			}
			ca.Stop()
			log.Stdout = saved
			wp.Close()
			select {
			case b := <-done:
				compare("console on an *os.File", b)
			case <-time.After(20 * time.Second):
			}
			r.Close()
		}
		// File appender
		fdir := filepath.Join(dir, name+".bf")
		_ = os.MkdirAll(fdir, 0o755)
		fa := &log.FileAppender{AppenderBase: log.AppenderBase{Name: "bf"}, Layout: mkLayout(lk), FileDir: fdir, FileName: "f.log"}
		if fa.Start() == nil {
			for _, e := range mk() {
				fa.Append(e)
			}
			fa.Stop()
			b, _ := os.ReadFile(filepath.Join(fdir, "f.log"))
			compare("file appender", b)
		}
		_ = os.RemoveAll(fdir)
		// RollingFile appender (hourly: no boundary is crossed here)
		_ = os.MkdirAll(fdir, 0o755)
		ra := &log.RollingFileAppender{AppenderBase: log.AppenderBase{Name: "br"}, Layout: mkLayout(lk), FileDir: fdir, FileName: "r.log", Rotation: log.TimeRotation{Interval: time.Hour}, MaxAge: 24}
		if ra.Start() == nil {
			for _, e := range mk() {
				ra.Append(e)
			}
			ra.Stop()
			var all []byte
			ents, _ := os.ReadDir(fdir)
			for _, en := range ents {
				b, _ := os.ReadFile(filepath.Join(fdir, en.Name()))
				all = append(all, b...)
			}
			if len(ents) == 1 {
				compare("rolling file appender", all)
			}
		}
		_ = os.RemoveAll(fdir)
	}
	return out
}

func (m builtinMismatch) String() string {
	return fmt.Sprintf("%s with %s, event %d: the sink holds %q where the layout produces %q", m.Sink, m.Layout, m.Index, m.Got, m.Want)
}

// builtinFanout: ONE synchronous logger in front of several built-in file appenders whose layouts differ in kind and in
// file:line width (three text layouts, one JSON layout): every file holds, event by event, what a layout of ITS kind and ITS
// width produces - whatever the logger shares between its appenders when it hands an event to them.
func builtinFanout(dir, name string, widths []int, mk func() []*log.Event) []builtinMismatch {
	var out []builtinMismatch
	fdir := filepath.Join(dir, name+".fan")
	_ = os.RemoveAll(fdir)
	_ = os.MkdirAll(fdir, 0o755)
	defer os.RemoveAll(fdir)
	type sink struct {
		kind  string
		width int
		file  string
		ap    *log.FileAppender
	}
	mkLayout := func(kind string, width int) log.Layout {
		if kind == "JSONLayout" {
			return &log.JSONLayout{BaseLayout: log.BaseLayout{FileLineLength: width}}
		}
		return &log.TextLayout{BaseLayout: log.BaseLayout{FileLineLength: width}}
	}
	var sinks []*sink
	for k, wd := range widths {
		sinks = append(sinks, &sink{kind: "TextLayout", width: wd, file: fmt.Sprintf("t%d.log", k)})
	}
	sinks = append(sinks, &sink{kind: "JSONLayout", width: widths[0], file: "j.log"})
	all := log.LevelRange{MinLevel: log.NoneLevel, MaxLevel: log.MaxLevel}
	var refs []*log.AppenderRef
	for _, s := range sinks {
		s.ap = &log.FileAppender{AppenderBase: log.AppenderBase{Name: s.file}, Layout: mkLayout(s.kind, s.width), FileDir: fdir, FileName: s.file}
		if s.ap.Start() != nil {
			return nil
		}
		refs = append(refs, &log.AppenderRef{Appender: s.ap, Ref: s.file, Level: all})
	}
	lg := &log.SyncLogger{LoggerBase: log.LoggerBase{Name: "fan", Level: all}, AppenderRefs: log.AppenderRefs{AppenderRefs: refs}}
	if lg.Start() != nil {
		return nil
	}
	for _, e := range mk() {
		lg.Append(e)
	}
	lg.Stop()
	for _, s := range sinks {
		s.ap.Stop()
		got, _ := os.ReadFile(filepath.Join(fdir, s.file))
		ref := mkLayout(s.kind, s.width)
		off := 0
		for i, e := range mk() {
			wl := ref.ToBytes(e)
			if off+len(wl) > len(got) || !bytes.Equal(got[off:off+len(wl)], wl) {
				end := off + len(wl) + 40
				if end > len(got) {
					end = len(got)
				}
				st := off
				if st > len(got) {
					st = len(got)
				}
				out = append(out, builtinMismatch{Sink: fmt.Sprintf("file appender %s of a logger with %d appenders (widths %v + JSON)", s.file, len(sinks), widths), Layout: fmt.Sprintf("%s(width %d)", s.kind, s.width), Index: i, Got: trunc(string(got[st:end]), 500), Want: trunc(string(wl), 500)})
				break
			}
			off += len(wl)
		}
	}
	return out
}
