package main

// C19 — a failed rotation or unwritable target never loses the log call path.
// Fault enumeration: placements of a directory outage relative to real 1 s boundaries x writers;
// failing / closed / never-started sinks for every appender kind.

import (
	"bytes"
	"errors"
	"fmt"
	"hash/crc32"
	"os"
	"os/signal"
	"path/filepath"
	"sort"
	"strings"
	"sync"
	"sync/atomic"
	"time"

	log "github.com/go-spring/log"
	"syscall"
)

type c19outage struct {
	FromBoundary int  `json:"from_boundary"` // outage starts FromOffMs relative to boundary #FromBoundary
	FromOffMs    int  `json:"from_off_ms"`
	ToBoundary   int  `json:"to_boundary"`
	ToOffMs      int  `json:"to_off_ms"`
	AsFile       bool `json:"replaced_by_regular_file"`
	NoFds        bool `json:"descriptor_exhaustion,omitempty"` // instead of removing the directory: the process runs out of descriptors (EMFILE on create)
}

type c19placement struct {
	Name       string      `json:"name"`
	Outages    []c19outage `json:"outages"`
	Boundaries int         `json:"boundaries"`
}

func c19placements(thorough bool) []c19placement {
	ps := []c19placement{
		{"covers-boundary-1", []c19outage{{FromBoundary: 1, FromOffMs: -300, ToBoundary: 1, ToOffMs: 300}}, 3},
		{"covers-boundaries-1-2", []c19outage{{FromBoundary: 1, FromOffMs: -300, ToBoundary: 2, ToOffMs: 300, AsFile: false}}, 4},
		{"starts-right-after-rotation", []c19outage{{FromBoundary: 1, FromOffMs: 30, ToBoundary: 2, ToOffMs: 300, AsFile: false}}, 4},
		{"restored-just-before-boundary", []c19outage{{FromBoundary: 1, FromOffMs: -300, ToBoundary: 2, ToOffMs: -40, AsFile: false}}, 3},
		{"restored-just-after-boundary", []c19outage{{FromBoundary: 1, FromOffMs: -300, ToBoundary: 2, ToOffMs: 40, AsFile: false}}, 4},
		{"covers-three-boundaries", []c19outage{{FromBoundary: 1, FromOffMs: -200, ToBoundary: 3, ToOffMs: 200, AsFile: false}}, 5},
		{"replaced-by-file-covers-1", []c19outage{{FromBoundary: 1, FromOffMs: -300, ToBoundary: 1, ToOffMs: 300, AsFile: true}}, 3},
		{"replaced-by-file-covers-1-2", []c19outage{{FromBoundary: 1, FromOffMs: -250, ToBoundary: 2, ToOffMs: 250, AsFile: true}}, 4},
		{"two-outages", []c19outage{{FromBoundary: 1, FromOffMs: -200, ToBoundary: 1, ToOffMs: 200, AsFile: false}, {FromBoundary: 3, FromOffMs: -200, ToBoundary: 3, ToOffMs: 200, AsFile: false}}, 5},
		{"outage-at-first-boundary-after-start", []c19outage{{FromBoundary: 0, FromOffMs: -100, ToBoundary: 1, ToOffMs: 100, AsFile: false}}, 3},
		{"back-to-back", []c19outage{{FromBoundary: 1, FromOffMs: -200, ToBoundary: 1, ToOffMs: 150, AsFile: false}, {FromBoundary: 2, FromOffMs: -150, ToBoundary: 2, ToOffMs: 200, AsFile: true}}, 4},
		{"long-mid-interval-only", []c19outage{{FromBoundary: 1, FromOffMs: 200, ToBoundary: 1, ToOffMs: 800, AsFile: false}}, 3},
		{"emfile-covers-boundary-1", []c19outage{{FromBoundary: 1, FromOffMs: -300, ToBoundary: 1, ToOffMs: 300, NoFds: true}}, 3},
		{"emfile-covers-boundaries-1-2", []c19outage{{FromBoundary: 1, FromOffMs: -300, ToBoundary: 2, ToOffMs: 300, NoFds: true}}, 4},
		{"emfile-then-directory-outage", []c19outage{{FromBoundary: 1, FromOffMs: -200, ToBoundary: 1, ToOffMs: 200, NoFds: true}, {FromBoundary: 3, FromOffMs: -200, ToBoundary: 3, ToOffMs: 200}}, 5},
	}
	// a long outage: creation fails at eleven (thorough: forty) consecutive boundaries; whatever the appender remembers about
	// failed attempts, the calls keep returning, nothing is lost, and the first boundary after the restore gets its file
	ps = append(ps, c19placement{"covers-eleven-boundaries", []c19outage{{FromBoundary: 1, FromOffMs: -300, ToBoundary: 11, ToOffMs: 300}}, 13})
	if thorough {
		ps = append(ps, c19placement{"covers-forty-boundaries", []c19outage{{FromBoundary: 1, FromOffMs: -300, ToBoundary: 40, ToOffMs: 300, AsFile: true}}, 42})
		for _, off := range []int{-500, -100, -20, 20, 100, 500} {
			ps = append(ps, c19placement{fmt.Sprintf("start%+d-end-after-2", off), []c19outage{{FromBoundary: 1, FromOffMs: off, ToBoundary: 2, ToOffMs: 150, AsFile: false}}, 4})
			ps = append(ps, c19placement{fmt.Sprintf("start-before-1-end%+d", off), []c19outage{{FromBoundary: 1, FromOffMs: -150, ToBoundary: 2, ToOffMs: off, AsFile: off%40 == 0}}, 4})
		}
	}
	return ps
}

func c19Outage(w *W) {
	var pl c19placement
	for _, p := range c19placements(true) {
		if p.Name == w.Arg("placement", "") {
			pl = p
		}
	}
	W := w.ArgInt("writers", 1)
	cs := map[string]any{"placement": pl, "writers": W}
	w.Journal("C19 outage %v", cs)
	dir := filepath.Join(w.Spec.Dir, w.Spec.Name+".d")
	away := dir + ".away"
	_ = os.RemoveAll(dir)
	_ = os.RemoveAll(away)
	_ = os.MkdirAll(dir, 0755)
	defer os.RemoveAll(dir)
	defer os.RemoveAll(away)
	const fname = "out.log"
	for _, o := range pl.Outages {
		if o.NoFds {
			// a small descriptor table, so that it can be exhausted (and released) quickly
			_ = syscall.Setrlimit(syscall.RLIMIT_NOFILE, &syscall.Rlimit{Cur: 96, Max: 96})
			break
		}
	}
	interval := time.Second
	// start early in a second so that boundary numbering is stable
	for time.Now().Nanosecond() > 200_000_000 {
		time.Sleep(5 * time.Millisecond)
	}
	// via=asyncroot: the same outage, but the writes go through a named handle bound to a Refresh-built root logger of kind
	// RollingFile in asynchronous mode (Block policy, smallest queue) and arrive in bursts that keep the queue full, so a
	// rotation fails while the worker is the only consumer of a full queue. Judged there: no panic, no blocked call,
	// Destroy returns, every accepted write is in the directory exactly once (boundary placement is not judged: the
	// file write happens later than the call).
	async := w.Arg("via", "") == "asyncroot"
	cs["via"] = w.Arg("via", "appender")
	var ap *log.RollingFileAppender
	var handle *log.LoggerWrapper
	if async {
		handle = log.GetLogger("root")
		log.RegisterTimeRotation("c19sec", log.TimeRotation{Interval: interval})
		cfg := map[string]string{"appender.u.type": "Discard", "logger.root.type": "RollingFile", "logger.root.async": "true", "logger.root.bufferFullPolicy": "Block", "logger.root.bufferSize": "100",
			"logger.root.fileDir": dir, "logger.root.fileName": fname, "logger.root.rotation": "c19sec", "logger.root.maxAge": "24"}
		if err := log.Refresh(cfg); err != nil {
			w.Violate("C19:start-failed", err.Error(), cs)
			log.Destroy()
			return
		}
	} else {
		// the same target written in three legal spellings of (fileDir, fileName)
		fd, fn := dir, fname
		switch w.Arg("spell", "") {
		case "emptydir":
			fd, fn = "", filepath.Join(dir, fname)
		case "split":
			fd, fn = filepath.Dir(dir), filepath.Join(filepath.Base(dir), fname)
		}
		cs["spelling"] = map[string]string{"fileDir": fd, "fileName": fn}
		ap = &log.RollingFileAppender{AppenderBase: log.AppenderBase{Name: "roll"}, Layout: &log.TextLayout{}, FileDir: fd, FileName: fn, Rotation: log.TimeRotation{Interval: interval}, MaxAge: 24}
		if W >= 2 {
			// several writers reach the interval check of the same boundary together (bounded: 3 ms)
			var arrive atomic.Int32
			var lastB atomic.Int64
			log.VerifPointFn = func(name string) {
				if name != "roll.rotate.checked" {
					return
				}
				if b := time.Now().Unix(); lastB.Swap(b) != b {
					arrive.Store(0)
				}
				arrive.Add(1)
				for t0 := time.Now(); arrive.Load() < int32(W) && time.Since(t0) < 3*time.Millisecond; {
					time.Sleep(50 * time.Microsecond)
				}
			}
			defer func() { log.VerifPointFn = nil }()
		}
		if err := ap.Start(); err != nil {
			w.Violate("C19:start-failed", err.Error(), cs)
			return
		}
	}
	// sampler: every 100 ms a goroutine dump; remembers a log call seen parked (sleep / channel / lock) with a library frame
	// innermost in four consecutive samples while no other goroutine with library frames was running or in a system call
	var parkWitness atomic.Value
	samplerStop := make(chan struct{})
	if !async && W >= 2 {
		go func() {
			seen := map[string]int{}
			for {
				select {
				case <-samplerStop:
					return
				case <-time.After(100 * time.Millisecond):
				}
				now := map[string]string{}
				busy := false
				for _, g := range strings.Split(goroutineDump(), "\n\n") {
					if !libFrameRe.MatchString(g) {
						continue
					}
					hdr, _, _ := strings.Cut(g, "\n")
					parked := false
					for _, k := range []string{"[sleep", "[chan send", "[chan receive", "[select", "[sync.Mutex.Lock", "[sync.RWMutex", "[semacquire", "[sync.Cond.Wait", "[sync.WaitGroup.Wait"} {
						if strings.Contains(hdr, k) {
							parked = true
						}
					}
					if parked && libTop("goroutine "+strings.TrimPrefix(g, "goroutine ")) && strings.Contains(g, "c19Outage") {
						id, _, _ := strings.Cut(strings.TrimPrefix(hdr, "goroutine "), " ")
						now[id] = g
					} else if !parked || !libTop("goroutine "+strings.TrimPrefix(g, "goroutine ")) {
						busy = true // somebody is at work inside the library (or inside a sink / the harness's own hook on its behalf)
					}
				}
				for id := range seen {
					if _, ok := now[id]; !ok {
						delete(seen, id)
					}
				}
				for id, g := range now {
					if seen[id]++; seen[id] >= 4 && !busy && parkWitness.Load() == nil {
						parkWitness.Store(g)
					}
				}
			}
		}()
	}
	defer close(samplerStop)
	// in part of the runs the process's standard error - where the library reports failed rotations - is a pipe that nobody reads
	// (a supervisor that stopped collecting): the few reports of an outage fit into the pipe; logging goes on
	stderrPiped := false
	if !async && w.Spec.Shard%3 == 1 {
		if pr, pw, err := os.Pipe(); err == nil {
			oldErr := os.Stderr
			os.Stderr = pw
			stderrPiped = true
			cs["stderr"] = "a pipe nobody reads"
			defer func() { os.Stderr = oldErr; pw.Close(); pr.Close() }()
		}
	}
	b0 := time.Now().Truncate(interval) // boundary #0 = start of the current interval; #k = b0 + k s
	at := func(k, offMs int) time.Time {
		return b0.Add(time.Duration(k)*interval + time.Duration(offMs)*time.Millisecond)
	}
	stopAt := at(pl.Boundaries, 400)
	type span struct{ from, to time.Time }
	var outages []span
	var omu sync.Mutex
	var ctlErr atomic.Value
	// fault controller
	ctlDone := make(chan struct{})
	go func() {
		defer close(ctlDone)
		for _, o := range pl.Outages {
			time.Sleep(time.Until(at(o.FromBoundary, o.FromOffMs)))
			if o.NoFds {
				t1 := time.Now()
				var hold []*os.File
				for {
					f, err := os.Open("/dev/null")
					if err != nil {
						break
					}
					hold = append(hold, f)
				}
				time.Sleep(time.Until(at(o.ToBoundary, o.ToOffMs)))
				for _, f := range hold {
					f.Close()
				}
				if len(hold) == 0 {
					ctlErr.Store("fault controller: could not exhaust descriptors")
				}
				omu.Lock()
				outages = append(outages, span{t1, time.Now()})
				omu.Unlock()
				continue
			}
			t1 := time.Now()
			e1 := os.Rename(dir, away)
			if o.AsFile {
				_ = os.WriteFile(dir, []byte("not a directory"), 0644)
			}
			time.Sleep(time.Until(at(o.ToBoundary, o.ToOffMs)))
			if o.AsFile {
				_ = os.Remove(dir)
			}
			e2 := os.Rename(away, dir)
			if st, e3 := os.Stat(dir); e1 != nil || e2 != nil || e3 != nil || !st.IsDir() {
				ctlErr.Store(fmt.Sprintf("fault controller: rename away: %v, rename back: %v, stat: %v", e1, e2, e3))
			}
			omu.Lock()
			outages = append(outages, span{t1, time.Now()})
			omu.Unlock()
		}
	}()
	var mu sync.Mutex
	var recs []c13rec
	var wg sync.WaitGroup
	var lookBad atomic.Bool
	var looks atomic.Int64
	defer func() { w.Count("looks_for_the_line_right_after_a_write_returned", looks.Load()) }()
	for g := 0; g < W; g++ {
		wg.Add(1)
		go func(g int) {
			defer wg.Done()
			i := 0
			for time.Now().Before(stopAt) {
				i++
				id := fmt.Sprintf("id-w%dx%d-%d", g, w.Spec.Shard, i)
				body := 10 + (i*7+g)%200
				buf := []byte(fmt.Sprintf("%s|%d|", id, body))
				for b := 0; b < body; b++ {
					buf = append(buf, byte('a'+b%26))
				}
				rc := c13rec{id: id, snap: c12snap{len(buf), crc32.ChecksumIEEE(buf)}, writer: g, start: time.Now()}
				pv, st := catch(func() {
					if async {
						_, _ = handle.Write(buf)
					} else {
						ap.Write(buf)
					}
				})
				rc.end = time.Now()
				if pv != nil {
					w.Violate("C19:write-panic", fmt.Sprintf("[%s] Write panicked: %v\n%s", pl.Name, pv, trunc(st, 1000)), cs)
					return
				}
				mu.Lock()
				recs = append(recs, rc)
				mu.Unlock()
				if !async && g == 0 && i%4 == 0 && !lookBad.Load() {
					// "keeps writing to the file it already has": when the synchronous Write has returned, the line is in a file -
					// in the directory, or in the directory as it is called during an outage (descriptors survive the rename)
					looks.Add(1)
					if c19lineNowhere(id, dir, away) {
						time.Sleep(5 * time.Millisecond) // the directory may have been renamed between the two listings
						if c19lineNowhere(id, dir, away) && lookBad.CompareAndSwap(false, true) {
							w.Violate("C19:write-in-no-file-at-return", fmt.Sprintf("[%s] Write of %s returned at %s and the line is in no file, neither in the log directory nor in the directory moved aside (it may be written later; a reader of the file, or a crash, would not see it)", pl.Name, id, rc.end.Format("15:04:05.000")), cs)
						}
					}
				}
				if async {
					if i%1500 == 0 { // bursts of 1500 back-to-back writes keep the 100-slot queue full
						time.Sleep(4 * time.Millisecond)
					}
					continue
				}
				time.Sleep(time.Duration(500+(i%7)*300) * time.Microsecond)
			}
		}(g)
	}
	if async {
		joined := make(chan struct{})
		go func() { wg.Wait(); close(joined) }()
		select {
		case <-joined:
		case <-time.After(time.Until(stopAt) + 30*time.Second):
			dump := goroutineDump()
			if blocked, gr := blockedInLibrary(dump, "c19Outage"); blocked {
				w.Violate("C19:log-call-blocked:asyncroot", fmt.Sprintf("[%s] a Write through the handle of the asynchronous rolling root logger is parked inside the library 30 s after the workload should have ended:\n%s", pl.Name, trunc(gr, 1800)), cs)
			} else {
				w.Inconclusive("[" + pl.Name + "] async writers did not finish within the watchdog")
			}
			w.flush()
			os.Exit(0)
		}
		<-ctlDone
		ok, pv, dump := callWithWatchdog(60*time.Second, log.Destroy)
		if !ok {
			if blocked, gr := blockedInLibrary(dump, "watchdogMarker"); blocked {
				w.Violate("C19:destroy-blocked:asyncroot", fmt.Sprintf("[%s] Destroy is parked inside the library:\n%s", pl.Name, trunc(gr, 1500)), cs)
			} else {
				w.Inconclusive("[" + pl.Name + "] Destroy did not return within the watchdog")
			}
			w.flush()
			os.Exit(0)
		}
		if pv != nil {
			w.Violate("C19:stop-panic", fmt.Sprintf("Destroy panicked: %v", pv), cs)
		}
	} else {
		joined := make(chan struct{})
		go func() { wg.Wait(); close(joined) }()
		select {
		case <-joined:
		case <-time.After(time.Until(stopAt) + 30*time.Second):
			// the writers should have ended half a minute ago
			k, gr := stuckInLibrary("c19Outage")
			if k == "" {
				// parked in the network poller inside the library? The log target here is a regular file (writes to it never
				// wait in the poller), so this is a wait on another descriptor - the report channel - in two dumps 300 ms apart
				ioWait := func() string {
					for _, g := range strings.Split(goroutineDump(), "\n\n") {
						hdr, _, _ := strings.Cut(g, "\n")
						if strings.Contains(g, "c19Outage") && strings.Contains(hdr, "[IO wait") && libFrameRe.MatchString(g) {
							return g
						}
					}
					return ""
				}
				if g1 := ioWait(); g1 != "" {
					time.Sleep(300 * time.Millisecond)
					if g2 := ioWait(); g2 != "" {
						k, gr = "io-wait", g2
					}
				}
			}
			if k != "" {
				w.Violate("C19:log-call-blocked:"+k, fmt.Sprintf("[%s] 30 s after the workload should have ended a Write is still inside the library (%s; standard error is a pipe nobody reads: %v):\n%s", pl.Name, k, stderrPiped, trunc(gr, 1500)), cs)
			} else {
				w.Inconclusive("[" + pl.Name + "] writers did not finish within the watchdog")
			}
			w.flush()
			os.Exit(0)
		}
		<-ctlDone
		if pv, _ := catch(ap.Stop); pv != nil {
			w.Violate("C19:stop-panic", fmt.Sprintf("Stop panicked: %v", pv), cs)
		}
	}
	if e, _ := ctlErr.Load().(string); e != "" {
		// the fault injector itself failed: nothing can be concluded from this run
		w.Inconclusive("[" + pl.Name + "] " + e)
		w.Eval(1)
		return
	}
	// offline check
	ents, _ := os.ReadDir(dir)
	found := map[string][]time.Time{}
	foundSnap := map[string][]c12snap{}
	var fileTimes []time.Time
	for _, e := range ents {
		m := c13nameRe.FindStringSubmatch(e.Name())
		if m == nil {
			continue
		}
		nt, _ := time.ParseInLocation("20060102150405", m[2], time.Local)
		fileTimes = append(fileTimes, nt)
		b, _ := os.ReadFile(filepath.Join(dir, e.Name()))
		ids, snaps, _, problem := c13parse(b)
		if problem != "" {
			w.Violate("C19:torn-record", fmt.Sprintf("[%s] file %s: %s", pl.Name, e.Name(), problem), cs)
		}
		for _, id := range ids {
			found[id] = append(found[id], nt)
		}
		for id, s := range snaps {
			foundSnap[id] = append(foundSnap[id], s...)
		}
	}
	inOutage := func(t time.Time) bool {
		for _, o := range outages {
			if !t.Before(o.from) && !t.After(o.to) {
				return true
			}
		}
		return false
	}
	bad := false
	duringOutage := 0
	for _, rc := range recs {
		f := found[rc.id]
		if inOutage(rc.start) {
			duringOutage++
		}
		switch {
		case len(f) == 0:
			bad = true
			phase := "outside any outage"
			if inOutage(rc.start) {
				phase = "during the outage"
			} else if len(outages) > 0 && rc.start.After(outages[0].to) {
				phase = "after the directory was restored"
			}
			var spans []string
			for _, o := range outages {
				spans = append(spans, o.from.Format("05.000")+"-"+o.to.Format("05.000"))
			}
			w.Violate("C19:accepted-write-lost", fmt.Sprintf("[%s] %s written %s..%s (call took %v; %s) is in no file after the outage (files %v, actual outages %v)", pl.Name, rc.id, rc.start.Format("15:04:05.000"), rc.end.Format("05.000"), rc.end.Sub(rc.start), phase, fmtTimes(fileTimes), spans), cs)
		case len(f) > 1:
			bad = true
			w.Violate("C19:duplicated-write", fmt.Sprintf("[%s] %s appears %d times", pl.Name, rc.id, len(f)), cs)
		case foundSnap[rc.id][0] != rc.snap:
			bad = true
			w.Violate("C19:torn-record", fmt.Sprintf("[%s] %s differs from what was written", pl.Name, rc.id), cs)
		}
		if bad {
			break
		}
	}
	// no blocked log call, judged by relative progress instead of a deadline: if, while ONE call of a writer was in progress, another
	// writer of the same process started and completed at least 300 calls (each followed by a pause of 0.5-2.3 ms) and an interval
	// boundary passed, the call was not merely slow or descheduled - it was waiting inside the library
	if !bad && !async && W >= 2 {
		byW := map[int][]c13rec{}
		for _, rc := range recs {
			byW[rc.writer] = append(byW[rc.writer], rc)
		}
		for _, rc := range recs {
			if rc.end.Sub(rc.start) < 100*time.Millisecond || rc.start.Truncate(interval).Equal(rc.end.Truncate(interval)) {
				continue
			}
			for g, list := range byW {
				if g == rc.writer {
					continue
				}
				n := 0
				for _, o := range list {
					if o.start.After(rc.start) && o.end.Before(rc.end) {
						n++
					}
				}
				if n >= 300 {
					// slow or waiting? A call may legitimately be slow (the rotating goroutine fsyncs the retired file; under load
					// that can take a second). It is a blocked call only if the sampler below SAW it parked inside the library.
					if wit, _ := parkWitness.Load().(string); wit != "" {
						bad = true
						w.Violate("C19:log-call-blocked:relative-progress", fmt.Sprintf("[%s] the call for %s by writer %d lasted from %s to %s (across an interval boundary); meanwhile writer %d started and completed %d calls, and goroutine dumps taken every 100 ms show a log call parked inside the library (not in a system call) in four consecutive samples while no other goroutine was at work inside the library:\n%s", pl.Name, rc.id, rc.writer, rc.start.Format("15:04:05.000"), rc.end.Format("05.000"), g, n, trunc(wit, 1200)), cs)
					} else {
						w.Count("slow_calls_not_parked_in_the_library", 1)
					}
					break
				}
			}
			if bad {
				break
			}
		}
	}
	// creation must be attempted again: every boundary that lies outside all outages (with 30 ms
	// margin) and after the appender's start must have produced a file whose name-time is in that interval
	retried := 0
	if !bad && !async {
		for k := 1; k <= pl.Boundaries; k++ {
			bt := at(k, 0)
			clear := true
			for _, o := range outages {
				if bt.After(o.from.Add(-30*time.Millisecond)) && bt.Before(o.to.Add(30*time.Millisecond)) {
					clear = false
				}
			}
			if !clear || !bt.Before(stopAt.Add(-100*time.Millisecond)) {
				continue
			}
			// judged only if some write started after the boundary and completed before the next outage
			// began: then a rotation attempt certainly happened while the directory was there
			nextOut := stopAt
			for _, o := range outages {
				if o.from.After(bt) && o.from.Before(nextOut) {
					nextOut = o.from
				}
			}
			attempted := false
			for _, rc := range recs {
				if rc.start.After(bt) && rc.start.Before(bt.Add(interval)) && rc.end.Before(nextOut.Add(-5*time.Millisecond)) {
					attempted = true
					break
				}
			}
			if !attempted {
				continue
			}
			has := false
			for _, ft := range fileTimes {
				if !ft.Before(bt.Truncate(time.Second)) && ft.Before(bt.Add(interval)) {
					has = true
				}
			}
			after := false
			for _, o := range outages {
				if bt.After(o.to) {
					after = true
				}
			}
			if !has {
				bad = true
				cls := "no-file-at-healthy-boundary"
				if after {
					cls = "no-retry-after-restore"
				}
				var spans []string
				for _, o := range outages {
					spans = append(spans, o.from.Format("05.000")+"-"+o.to.Format("05.000"))
				}
				nW := 0
				var firstW, lastW time.Time
				for _, rc := range recs {
					if rc.start.After(bt) && rc.start.Before(bt.Add(interval)) {
						nW++
						if firstW.IsZero() || rc.start.Before(firstW) {
							firstW = rc.start
						}
						if rc.end.After(lastW) {
							lastW = rc.end
						}
					}
				}
				w.Violate("C19:"+cls, fmt.Sprintf("[%s] boundary #%d (%s) lies outside every outage but no file was created in that interval (files: %v; actual outages %v; %d writes started in that interval, first at %s, last ended %s)", pl.Name, k, bt.Format("15:04:05"), fmtTimes(fileTimes), spans, nW, firstW.Format("05.000"), lastW.Format("05.000")), cs)
				break
			}
			if after {
				retried++
			}
			if W == 1 {
				// sequential writer: writes started after this healthy boundary must not sit in an older file
				for _, rc := range recs {
					if rc.start.After(bt.Add(5*time.Millisecond)) && rc.start.Before(bt.Add(interval)) && len(found[rc.id]) == 1 && found[rc.id][0].Before(bt.Truncate(time.Second)) {
						bad = true
						w.Violate("C19:stale-file-after-restore", fmt.Sprintf("[%s] %s started %s, after healthy boundary #%d, but is in an older file (%s)", pl.Name, rc.id, rc.start.Format("15:04:05.000"), k, found[rc.id][0].Format("150405")), cs)
						break
					}
				}
			}
		}
	}
	w.Eval(1)
	w.Count("writes_checked", int64(len(recs)))
	w.Count("writes_during_outage", int64(duringOutage))
	w.Count("files_created", int64(len(fileTimes)))
	w.Count("healthy_boundaries_after_restore_with_new_file", int64(retried))
	if len(outages) != len(pl.Outages) {
		w.Inconclusive("fault controller did not complete all outages")
	}
	if !bad {
		w.Distinct(fmt.Sprintf("outage|%s|W%d", pl.Name, W))
		w.Sample(map[string]any{"placement": pl, "writers": W, "writes": len(recs), "during_outage": duringOutage, "files": fmtTimes(fileTimes)})
	}
}

func fmtTimes(ts []time.Time) []string {
	var s []string
	for _, t := range ts {
		s = append(s, t.Format("150405"))
	}
	return s
}

type errWriter struct{}

func (errWriter) Write(b []byte) (int, error) { return 0, errors.New("sink failure") }

type shortWriter struct{}

func (shortWriter) Write(b []byte) (int, error) { return len(b) / 2, nil }

func c19Sinks(w *W) {
	dir := filepath.Join(w.Spec.Dir, w.Spec.Name+".d")
	_ = os.MkdirAll(dir, 0755)
	defer os.RemoveAll(dir)
	ev := func() *log.Event {
		e := log.GetEvent()
		e.Level, e.Time, e.Tag, e.File, e.Line = log.ErrorLevel, time.Now(), "c19", "f.go", 1
		e.Fields = []log.Field{log.Msg("id-c19-1"), log.String("k", "v")}
		return e
	}
	tl := func() log.Layout { return &log.TextLayout{BaseLayout: log.BaseLayout{FileLineLength: 48}} }
	closedFile, _ := os.Create(filepath.Join(dir, "closed"))
	closedFile.Close()
	roFile, _ := os.Open("/dev/null") // opened read-only: writes fail with EBADF
	type scenario struct {
		name string
		run  func()
	}
	var sc []scenario
	add := func(name string, f func()) { sc = append(sc, scenario{name, f}) }
	both := func(a log.Appender) {
		a.Append(ev())
		a.Write([]byte("raw\n"))
		a.Append(ev())
	}
	add("file:never-started", func() { both(&log.FileAppender{Layout: tl(), FileDir: dir, FileName: "x"}) })
	add("file:after-stop", func() {
		a := &log.FileAppender{Layout: tl(), FileDir: dir, FileName: "x"}
		_ = a.Start()
		a.Stop()
		both(a)
		a.Stop()
	})
	add("file:/dev/full", func() {
		a := &log.FileAppender{Layout: tl(), FileDir: "/dev", FileName: "full"}
		if err := a.Start(); err == nil {
			both(a)
			a.Stop()
		}
	})
	add("file:missing-directory-start", func() {
		a := &log.FileAppender{Layout: tl(), FileDir: filepath.Join(dir, "nope", "deeper"), FileName: "x"}
		if err := a.Start(); err == nil {
			panic("Start succeeded on a missing directory")
		}
		both(a)
		a.Stop()
	})
	add("file:directory-removed-while-open", func() {
		d2 := filepath.Join(dir, "gone")
		_ = os.MkdirAll(d2, 0755)
		a := &log.FileAppender{Layout: tl(), FileDir: d2, FileName: "x"}
		_ = a.Start()
		_ = os.RemoveAll(d2)
		both(a)
		a.Stop()
	})
	add("rolling:never-started", func() {
		both(&log.RollingFileAppender{Layout: tl(), FileDir: dir, FileName: "r", Rotation: log.TimeRotation{Interval: time.Hour}})
	})
	add("rolling:after-stop", func() {
		a := &log.RollingFileAppender{Layout: tl(), FileDir: dir, FileName: "r", Rotation: log.TimeRotation{Interval: time.Hour}}
		_ = a.Start()
		a.Stop()
		both(a)
		a.Stop()
	})
	add("rolling:missing-directory-start", func() {
		a := &log.RollingFileAppender{Layout: tl(), FileDir: filepath.Join(dir, "nope"), FileName: "r", Rotation: log.TimeRotation{Interval: time.Second}}
		if err := a.Start(); err == nil {
			panic("Start succeeded on a missing directory")
		}
		both(a)
		time.Sleep(1100 * time.Millisecond) // a boundary passes: rotation is attempted on a missing directory
		both(a)
		a.Stop()
	})
	add("rolling:target-is-/dev/full-dir", func() {
		a := &log.RollingFileAppender{Layout: tl(), FileDir: "/dev/full", FileName: "r", Rotation: log.TimeRotation{Interval: time.Hour}}
		_ = a.Start()
		both(a)
		a.Stop()
	})
	add("rolling:retention-scan-while-entries-vanish", func() {
		// thousands of expired own files; a rotation starts the asynchronous retention scan while another
		// goroutine removes the same files: a failing stat must be skipped, not crash the process
		d3 := filepath.Join(dir, "vanish")
		_ = os.MkdirAll(d3, 0755)
		old := time.Now().Add(-100 * time.Hour)
		var names []string
		for i := 0; i < 3000; i++ {
			p := filepath.Join(d3, fmt.Sprintf("v.log.2020%02d%02d%02d%02d%02d", 1+i%12, 1+i%28, i%24, i%60, (i/60)%60))
			if os.WriteFile(p, []byte("x"), 0644) == nil {
				_ = os.Chtimes(p, old, old)
				names = append(names, p)
			}
		}
		a := &log.RollingFileAppender{Layout: tl(), FileDir: d3, FileName: "v.log", Rotation: log.TimeRotation{Interval: time.Second}, MaxAge: 1}
		_ = a.Start()
		for round := 0; round < 2; round++ {
			now := time.Now()
			time.Sleep(now.Truncate(time.Second).Add(time.Second + 2*time.Millisecond).Sub(now))
			a.Write([]byte("id-v1-1 after boundary\n")) // rotation -> go clearExpiredFiles()
			for _, p := range names {
				_ = os.Remove(p)
			}
			time.Sleep(150 * time.Millisecond)
			for _, p := range names { // recreate for the second round
				if os.WriteFile(p, []byte("x"), 0644) == nil {
					_ = os.Chtimes(p, old, old)
				}
			}
		}
		a.Stop()
		time.Sleep(100 * time.Millisecond)
	})
	// write(2) failing on REGULAR files: the soft RLIMIT_FSIZE is lowered to 4 KiB for the duration of the scenario (SIGXFSZ
	// ignored), so every write beyond that offset fails with EFBIG - for the plain file, and for a rolling appender across
	// one real rotation (the new file accepts 4 KiB again). The calls must return normally; what fit must be in the files.
	fsize := func(run func()) {
		var old syscall.Rlimit
		if syscall.Getrlimit(syscall.RLIMIT_FSIZE, &old) != nil {
			return
		}
		signal.Ignore(syscall.SIGXFSZ)
		_ = syscall.Setrlimit(syscall.RLIMIT_FSIZE, &syscall.Rlimit{Cur: 4096, Max: old.Max})
		defer func() { _ = syscall.Setrlimit(syscall.RLIMIT_FSIZE, &old) }()
		run()
	}
	add("file:write-fails-EFBIG", func() {
		fsize(func() {
			a := &log.FileAppender{Layout: tl(), FileDir: dir, FileName: "efbig.log"}
			_ = a.Start()
			for i := 0; i < 80; i++ { // ~80 x 90 bytes: crosses the limit
				both(a)
			}
			a.Stop()
		})
		if st, err := os.Stat(filepath.Join(dir, "efbig.log")); err != nil || st.Size() == 0 || st.Size() > 4096 {
			w.Note(fmt.Sprintf("file-size limit scenario: the limit did not take effect (%v)", err))
		}
	})
	add("rolling:write-fails-EFBIG-across-a-rotation", func() {
		d4 := filepath.Join(dir, "efbig")
		_ = os.MkdirAll(d4, 0755)
		fsize(func() {
			a := &log.RollingFileAppender{Layout: tl(), FileDir: d4, FileName: "r.log", Rotation: log.TimeRotation{Interval: time.Second}, MaxAge: 24}
			_ = a.Start()
			for i := 0; i < 80; i++ {
				both(a)
			}
			now := time.Now()
			time.Sleep(now.Truncate(time.Second).Add(time.Second + 5*time.Millisecond).Sub(now))
			for i := 0; i < 80; i++ {
				both(a)
			}
			a.Stop()
		})
		ents, _ := os.ReadDir(d4)
		if len(ents) < 2 {
			w.Note(fmt.Sprintf("file-size limit scenario: expected two rotated files, found %d", len(ents)))
		}
	})
	for name, wr := range map[string]func(){
		"console:erroring-writer": func() { log.Stdout = errWriter{} },
		"console:short-writer":    func() { log.Stdout = shortWriter{} },
		"console:closed-file":     func() { log.Stdout = closedFile },
		"console:read-only-file":  func() { log.Stdout = roFile },
		// the process's standard output as a real descriptor on which every write fails for good: a full device (ENOSPC) ...
		"console:/dev/full": func() {
			if f, err := os.OpenFile("/dev/full", os.O_WRONLY, 0); err == nil {
				log.Stdout = f
			}
		},
		// ... and a pipe whose reader has gone away (EPIPE)
		"console:pipe-without-reader": func() {
			if r, wp, err := os.Pipe(); err == nil {
				r.Close()
				log.Stdout = wp
			}
		},
	} {
		set := wr
		add(name, func() {
			set()
			both(&log.ConsoleAppender{Layout: tl()})
			both(&log.ConsoleAppender{Layout: &log.JSONLayout{}})
		})
	}
	for _, s := range sc {
		w.Journal("C19 sink scenario %s", s.name)
		done, pv, _ := callWithWatchdog(20*time.Second, s.run)
		w.Eval(1)
		cs := map[string]any{"scenario": s.name}
		switch {
		case !done:
			kind, gr := stuckInLibrary("watchdogMarker")
			switch kind {
			case "blocked":
				w.Violate("C19:sink-call-blocks:"+s.name, "log call is parked inside the library:\n"+trunc(gr, 1200), cs)
			case "spinning":
				w.Violate("C19:sink-call-spins:"+s.name, "log call does not return: its goroutine keeps running inside the library (two dumps 300 ms apart):\n"+trunc(gr, 1200), cs)
			default:
				w.Inconclusive("scenario " + s.name + " did not finish")
			}
			// the stuck call cannot be cancelled: report what was seen and end this worker
			w.flush()
			os.Exit(0)
		case pv != nil:
			w.Violate("C19:sink-failure-panics:"+s.name, fmt.Sprintf("I/O failure surfaced as a panic in scenario %s: %v", s.name, pv), cs)
		default:
			w.Distinct("sink|" + s.name)
		}
	}
	log.Stdout = os.Stdout
	w.Sample(map[string]any{"sink_scenarios": len(sc)})
}

// c19DirReplaced: an operator (or a logrotate-like tool) moves the log directory aside and creates a fresh one under the same
// name while the appender runs: `mv logs logs.1 && mkdir logs`. Nothing already written is lost (it is in logs.1), the writes
// go on without a panic, and from the first boundary after the replacement the files are created where the configuration
// says: in the directory of that NAME.
func c19DirReplaced(w *W) {
	dir := filepath.Join(w.Spec.Dir, w.Spec.Name+".d")
	moved := dir + ".1"
	_ = os.RemoveAll(dir)
	_ = os.RemoveAll(moved)
	_ = os.MkdirAll(dir, 0755)
	defer os.RemoveAll(dir)
	defer os.RemoveAll(moved)
	cs := map[string]any{"scenario": "mv logs logs.1 && mkdir logs while the appender runs", "symlinked": w.Spec.Shard%2 == 1}
	cfgDir := dir
	if w.Spec.Shard%2 == 1 {
		// the configured directory is a symbolic link that the operator re-points
		cfgDir = dir + ".link"
		_ = os.Remove(cfgDir)
		_ = os.Symlink(dir, cfgDir)
		defer os.Remove(cfgDir)
	}
	ap := &log.RollingFileAppender{AppenderBase: log.AppenderBase{Name: "roll"}, Layout: &log.TextLayout{}, FileDir: cfgDir, FileName: "rep.log", Rotation: log.TimeRotation{Interval: time.Second}, MaxAge: 24}
	for time.Now().Nanosecond() > 200_000_000 {
		time.Sleep(5 * time.Millisecond)
	}
	if err := ap.Start(); err != nil {
		w.Violate("C19:start-failed", err.Error(), cs)
		return
	}
	type wr struct {
		id    string
		start time.Time
	}
	var wrs []wr
	t0 := time.Now().Truncate(time.Second)
	var replacedAt time.Time
	for i := 0; time.Since(t0) < 4400*time.Millisecond; i++ {
		if replacedAt.IsZero() && time.Since(t0) > 1300*time.Millisecond {
			if cfgDir == dir {
				_ = os.Rename(dir, moved)
				_ = os.MkdirAll(dir, 0755)
			} else {
				_ = os.MkdirAll(moved, 0755)
				_ = os.Remove(cfgDir)
				_ = os.Symlink(moved, cfgDir) // from now on the name leads to another directory
			}
			replacedAt = time.Now()
		}
		id := fmt.Sprintf("id-rep%d-%d", w.Spec.Shard, i)
		x := wr{id, time.Now()}
		if pv, st := catch(func() { ap.Write([]byte(id + " line\n")) }); pv != nil {
			w.Violate("C19:write-panic", fmt.Sprintf("[dir-replaced] Write panicked: %v\n%s", pv, trunc(st, 800)), cs)
			return
		}
		wrs = append(wrs, x)
		time.Sleep(15 * time.Millisecond)
	}
	ap.Stop()
	// where the name leads after the replacement, and the other place
	newPlace, oldPlace := dir, moved
	if cfgDir != dir {
		newPlace, oldPlace = moved, dir
	}
	inNew, inOld := idsIn(readDirAll(newPlace)), idsIn(readDirAll(oldPlace))
	firstBoundary := replacedAt.Truncate(time.Second).Add(time.Second)
	w.Eval(1)
	for _, x := range wrs {
		n := inNew[x.id] + inOld[x.id]
		if n != 1 {
			w.Violate("C19:accepted-write-lost", fmt.Sprintf("[dir-replaced] %s is in the two directories %d times", x.id, n), cs)
			return
		}
		if x.start.After(firstBoundary.Add(50*time.Millisecond)) && inNew[x.id] != 1 {
			w.Violate("C19:no-retry-after-restore", fmt.Sprintf("[dir-replaced] the directory was replaced at %s; %s, written at %s (after the next boundary), is not in a file under the configured directory name but in the directory that was moved aside", replacedAt.Format("15:04:05.000"), x.id, x.start.Format("15:04:05.000")), cs)
			return
		}
	}
	w.Count("writes_checked", int64(len(wrs)))
	w.Distinct(fmt.Sprintf("dir-replaced|symlink=%v", cfgDir != dir))
	w.Sample(cs)
}

func c19Worker(w *W) {
	switch w.Spec.Kind {
	case "outage":
		c19Outage(w)
	case "sinks":
		c19Sinks(w)
	case "replaced":
		c19DirReplaced(w)
	}
}

func init() {
	register(&Prop{
		ID: "C19", Level: "fault_enumeration", MinDistinct: 10, Worker: c19Worker,
		Rule: "faults: (a) the log directory of a running rolling appender (1 s interval) is renamed away and back - or replaced by a regular file - at 12 enumerated placements relative to real boundaries, plus 3 placements in which the process runs out of descriptors instead (EMFILE on create), (covering one, two, three or eleven (thorough: forty) boundaries, starting right after a successful rotation, restored 40 ms before / after a boundary, two separate outages, back-to-back outages, outage at the first boundary, outage inside one interval only; thorough adds 12 offset sweeps) x {1,2,4} writers issuing self-describing records with call stamps, the target written in three spellings of (fileDir, fileName) - plain, empty fileDir with the whole path in fileName, path split in the middle -, several writers held together (3 ms) at the interval check of each boundary; in a third of the runs standard error is a pipe nobody reads; a call during which another writer completes 300 calls and a boundary passes counts as blocked if goroutine dumps taken every 100 ms show it parked inside the library (sleep, channel, lock - not a system call) in four consecutive samples while nobody else is at work inside the library; " +
			"oracle: no panic, every record present whole exactly once after the restore, every boundary lying outside all outages has a file created in its interval (creation retried), a sequential writer's post-boundary writes are not in an older file. (b) 14 sink-failure scenarios (one of them: the retention scan runs while the directory entries it lists are being removed): File/RollingFile appenders never started, after Stop, on /dev/full, with a missing directory at Start and at rotation, directory removed while open; console stream replaced by an erroring writer, a short writer, a closed file, a read-only file - Append and Write must return without panic or block. " +
			"(c) the log directory is moved aside and a fresh one created under the same name (or the symbolic link that is the configured directory is re-pointed) while the appender runs: nothing lost, and from the next boundary on the files appear under the configured name. Non-trivial/distinct = distinct (placement, writers) runs + sink scenarios that held.",
		Assumptions: []string{"the outage is produced by rename(2), so descriptors already open stay valid (that is what 'keeps writing to the file it already has' relies on)", "boundaries closer than 30 ms to an outage edge are not judged for retry"},
		Run: func(d *D) {
			var specs []Spec
			pls := c19placements(!d.Quick())
			for i, pl := range pls {
				ws := []int{[]int{1, 2, 4}[i%3]}
				if !d.Quick() {
					ws = []int{1, 2, 4}
				}
				for _, wr := range ws {
					s := d.NewSpec("outage", fmt.Sprintf("out-%s-w%d", pl.Name, wr), len(specs), 256)
					s.Args["placement"], s.Args["writers"] = pl.Name, fmt.Sprint(wr)
					s.Args["spell"] = []string{"", "emptydir", "split", ""}[(i+wr)%4]
					s.TimeoutS = 120
					specs = append(specs, s)
				}
			}
			// the outage seen through an asynchronous rolling root logger whose queue is kept full
			for i, plName := range []string{"covers-boundary-1", "covers-boundaries-1-2", "two-outages", "emfile-covers-boundary-1"} {
				if d.Quick() && i >= 2 {
					break
				}
				s := d.NewSpec("outage", "out-asyncroot-"+plName, len(specs), 256)
				s.Args["placement"], s.Args["writers"], s.Args["via"] = plName, "2", "asyncroot"
				s.TimeoutS = 150
				specs = append(specs, s)
			}
			if !d.Quick() {
				specs = d.Replicate(specs, 3)
			}
			s := d.NewSpec("sinks", "sinks", 0, 1)
			s.TimeoutS = 300
			specs = append(specs, s)
			for i := 0; i < 2; i++ {
				rs := d.NewSpec("replaced", fmt.Sprintf("replaced-%d", i), i, 2)
				rs.TimeoutS = 120
				specs = append(specs, rs)
			}
			d.RunWorkers(specs, 16)
			d.Extra["fault_placements"] = len(pls)
		},
	})
}

// c19lineNowhere reports true only if every named directory could be listed (or does not exist), every candidate file could
// be read, and none of the newest three files of any of them holds the line. Anything undecidable counts as "not nowhere".
func c19lineNowhere(id string, dirs ...string) bool {
	needle := []byte(id + "|")
	for _, d := range dirs {
		st, err := os.Stat(d)
		if err != nil {
			if os.IsNotExist(err) {
				continue
			}
			return false
		}
		if !st.IsDir() {
			continue
		}
		ents, err := os.ReadDir(d)
		if err != nil {
			return false
		}
		var names []string
		for _, e := range ents {
			if !e.IsDir() {
				names = append(names, e.Name())
			}
		}
		sort.Strings(names)
		for k := len(names) - 1; k >= 0 && k >= len(names)-3; k-- {
			b, err := os.ReadFile(filepath.Join(d, names[k]))
			if err != nil {
				return false
			}
			if bytes.Contains(b, needle) {
				return false
			}
		}
	}
	return true
}
