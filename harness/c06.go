package main

// C06 — async logger keeps per-producer order and honours its overflow policy.
// (a) deterministic single-stepped histories (gated appender) enumerated exhaustively against an
//     executable queue model; (b) small concurrent histories with the consumer parked, checked by
//     prefix/suffix oracles and porcupine; (c) free-running producers, per-producer order.

import (
	"bytes"
	"context"
	"fmt"
	"os"
	"path/filepath"
	"runtime"
	"sort"
	"strings"
	"sync"
	"sync/atomic"
	"time"

	"github.com/anishathalye/porcupine"
	log "github.com/go-spring/log"
)

type c06model struct {
	cap       int
	policy    string
	inflight  string
	queue     []string
	blocked   []string // items of parked Block-policy senders, FIFO
	counter   int64
	delivered []string
}

func (m *c06model) add(id string) (parks bool) {
	if m.inflight == "" && len(m.queue) == 0 {
		// the idle worker takes it at once and enters the appender
		m.inflight = id
		return false
	}
	if len(m.queue) < m.cap {
		m.queue = append(m.queue, id)
		return false
	}
	switch m.policy {
	case "Discard":
		m.counter++
	case "DiscardOldest":
		m.queue = append(m.queue[1:], id)
		m.counter++
	case "Block":
		m.blocked = append(m.blocked, id)
		return true
	}
	return false
}

// step lets the worker finish the in-flight item and take the next one; returns whether a new item entered.
func (m *c06model) step() (entered bool) {
	if m.inflight == "" {
		return false
	}
	m.delivered = append(m.delivered, m.inflight)
	m.inflight = ""
	if len(m.queue) > 0 {
		m.inflight = m.queue[0]
		m.queue = m.queue[1:]
		if len(m.blocked) > 0 {
			m.queue = append(m.queue, m.blocked[0])
			m.blocked = m.blocked[1:]
		}
		return true
	}
	return false
}

func (m *c06model) drain() {
	for m.inflight != "" {
		m.step()
	}
}

func waitEntered(g *gateCtl, d time.Duration) (string, bool) {
	select {
	case id := <-g.Entered:
		return id, true
	case <-time.After(d):
		return "", false
	}
}

// c06single runs one operation sequence deterministically. ops: 'A' append event, 'W' raw write, 'S' step.
func c06single(w *W, y *yielder, policy string, cap, prefill int, ops string, tagN int) (string, string) {
	c := asyncCase{Policy: policy, Buf: cap, Appender: "gated", ViaCfg: (tagN/13)%4 == 3} // one case in four is built by Refresh from a configuration map
	rec.take()
	l, sinkName, stop, err := buildAsync(c, "c06tag")
	if err != nil {
		return "start failed: " + err.Error(), "start"
	}
	g := gateFor(sinkName)
	g.Open.Store(false)
	m := &c06model{cap: cap, policy: policy}
	n := 0
	newID := func(kind string) string {
		n++
		return fmt.Sprintf("id-%s%dx%d-%d", kind, w.Spec.Shard, tagN, n)
	}
	// some histories use very large raw payloads (size must not change how a raw write is queued)
	pad := ""
	switch {
	case tagN%7 == 3:
		pad = strings.Repeat("x", 70_000)
	case tagN%31 == 11:
		pad = strings.Repeat("y", 1<<20)
	}
	submit := func(kind byte, id string) {
		if kind == 'W' {
			l.Write([]byte("raw " + id + "\n" + pad))
		} else {
			appendEvent(l, log.InfoLevel, id)
		}
	}
	var parked []chan struct{}
	fullHits := func() int64 {
		if c, ok := y.hits.Load("async.full"); ok {
			return c.(*atomic.Int64).Load()
		}
		return 0
	}
	do := func(kind byte) (string, string) {
		id := newID(string(kind))
		idleBefore := m.inflight == "" && len(m.queue) == 0
		parks := m.add(id)
		if parks {
			// Block policy on a full buffer: the call must park until a step frees a slot
			h0 := fullHits()
			done := make(chan struct{})
			go func() { c06blockedSender(func() { submit(kind, id) }); close(done) }()
			deadline := time.Now().Add(20 * time.Second)
			for fullHits() == h0 && time.Now().Before(deadline) {
				select {
				case <-done:
					return fmt.Sprintf("Block-policy call for %s returned although the buffer is full and the consumer is parked", id), "block-did-not-wait"
				default:
					time.Sleep(20 * time.Microsecond)
				}
			}
			select {
			case <-done:
				return fmt.Sprintf("Block-policy call for %s returned although the buffer is full and the consumer is parked", id), "block-did-not-wait"
			case <-time.After(300 * time.Microsecond):
			}
			parked = append(parked, done)
			return "", ""
		}
		// must return without waiting for the appender (the gate is closed)
		if done, pv, _ := callWithWatchdog(20*time.Second, func() { c06producer(func() { submit(kind, id) }) }); !done {
			k, gr := stuckInLibrary("c06producer")
			if k == "" {
				if in, g2 := stuckInAppender("c06producer"); in {
					k, gr = "running the appender itself", g2
				}
			}
			if k != "" {
				w.Violate("C06:call-waits-for-appender:"+policy, fmt.Sprintf("policy %s, buffer %d holding %d items, worker parked inside the appender: the call for %s does not return (%s)\n%s", policy, cap, len(m.queue), id, k, trunc(gr, 1200)),
					map[string]any{"policy": policy, "cap": cap, "prefill": prefill, "ops": ops})
				w.flush()
				os.Exit(0)
			}
			return "a submit call did not return (not parked in the library)", "inconclusive"
		} else if pv != nil {
			return fmt.Sprintf("submit panicked: %v", pv), "panic"
		}
		if idleBefore {
			got, ok := waitEntered(g, 20*time.Second)
			if !ok || got != id {
				return fmt.Sprintf("idle worker did not pick up %s (entered %q)", id, got), "worker-idle"
			}
		}
		return "", ""
	}
	// initial state: item0 in flight, `prefill` items queued
	if d, cls := do('A'); d != "" {
		return d, cls
	}
	for i := 0; i < prefill; i++ {
		kind := byte('A')
		if i%3 == 1 {
			kind = 'W'
		}
		if d, cls := do(kind); d != "" {
			return d, cls
		}
	}
	for _, op := range []byte(ops) {
		switch op {
		case 'A', 'W':
			if len(m.blocked) > 0 {
				// a Block-policy sender is already parked: a second one from another goroutine has no
				// specified order relative to the first (arrival order at the channel is not observable
				// from outside), so at most one sender is parked at a time
				continue
			}
			if d, cls := do(op); d != "" {
				return d, cls
			}
		case 'S':
			if m.inflight == "" {
				continue
			}
			willEnter := len(m.queue) > 0
			nParkedBefore := len(m.blocked)
			m.step()
			g.Gate <- struct{}{}
			if willEnter {
				if _, ok := waitEntered(g, 20*time.Second); !ok {
					return "after a step the worker did not take the next queued item", "worker-stalled"
				}
				if nParkedBefore > 0 {
					// the first parked sender must now complete
					select {
					case <-parked[0]:
						parked = parked[1:]
					case <-time.After(20 * time.Second):
						return "a parked Block-policy call did not complete after a slot was freed", "block-stuck"
					}
				}
			}
		}
	}
	counterBefore := l.GetDiscardCounter()
	// drain everything and stop
	m.drain()
	g.Open.Store(true)
	for i := 0; i < 4; i++ {
		g.Gate <- struct{}{}
	}
	for _, p := range parked {
		select {
		case <-p:
		case <-time.After(30 * time.Second):
			return "a parked Block-policy call never completed during the drain", "block-stuck"
		}
	}
	okStop, pv, _ := callWithWatchdog(60*time.Second, stop)
	if !okStop || pv != nil {
		return fmt.Sprintf("Stop did not return / panicked (%v)", pv), "stop"
	}
	// empty the signalling channels
	for len(g.Entered) > 0 {
		<-g.Entered
	}
	for len(g.Gate) > 0 {
		<-g.Gate
	}
	var got []string
	for _, it := range rec.take() {
		if it.Sink == sinkName {
			got = append(got, idOf(it.JSON))
		}
	}
	if counterBefore != m.counter || l.GetDiscardCounter() != m.counter {
		return fmt.Sprintf("discard counter %d (before drain %d), model %d; delivered %d items, model %d", l.GetDiscardCounter(), counterBefore, m.counter, len(got), len(m.delivered)), "counter"
	}
	if len(got) != len(m.delivered) {
		return fmt.Sprintf("delivered %d items, model says %d (counter %d)", len(got), len(m.delivered), m.counter), "delivered-set"
	}
	for i := range got {
		if got[i] != m.delivered[i] {
			cls := "delivered-set"
			gs, ms := append([]string{}, got...), append([]string{}, m.delivered...)
			sort.Strings(gs)
			sort.Strings(ms)
			if strings.Join(gs, ",") == strings.Join(ms, ",") {
				cls = "order"
			}
			return fmt.Sprintf("delivery %d is %q, model says %q (policy %s: a full buffer must drop %s)", i, got[i], m.delivered[i], policy, map[string]string{"Discard": "the arriving item", "DiscardOldest": "the oldest queued item", "Block": "nothing"}[policy]), cls
		}
	}
	return "", ""
}

//go:noinline
func c06blockedSender(f func()) { f() }

// ---- porcupine model for the concurrent histories ----

type c06in struct {
	Drain bool
	ID    string
}
type c06out struct {
	Delivered []string
	Counter   int64
}
type c06state struct {
	q []string
	n int64
}

func c06porcupine(policy string, cap int, prefilled []string) porcupine.Model {
	return porcupine.Model{
		Init: func() any { return c06state{q: append([]string{}, prefilled...)} },
		Step: func(st, in, out any) (bool, any) {
			s := st.(c06state)
			i := in.(c06in)
			if i.Drain {
				o := out.(c06out)
				if o.Counter != s.n || len(o.Delivered) != len(s.q) {
					return false, s
				}
				for k := range s.q {
					if s.q[k] != o.Delivered[k] {
						return false, s
					}
				}
				return true, c06state{}
			}
			q := append([]string{}, s.q...)
			n := s.n
			switch {
			case len(q) < cap:
				q = append(q, i.ID)
			case policy == "Discard":
				n++
			case policy == "DiscardOldest":
				q = append(q[1:], i.ID)
				n++
			}
			return true, c06state{q, n}
		},
		Equal: func(a, b any) bool {
			x, y := a.(c06state), b.(c06state)
			if x.n != y.n || len(x.q) != len(y.q) {
				return false
			}
			for i := range x.q {
				if x.q[i] != y.q[i] {
					return false
				}
			}
			return true
		},
	}
}

// c06concurrent: P producers against a parked consumer, then drain.
func c06concurrent(w *W, policy string, cap, prefill, P, opsEach int, ci int) (string, string) {
	c := asyncCase{Policy: policy, Buf: cap, Appender: "gated", ViaCfg: ci%4 == 3}
	rec.take()
	l, sinkName, stop, err := buildAsync(c, "c06tag")
	if err != nil {
		return "start failed: " + err.Error(), "start"
	}
	g := gateFor(sinkName)
	g.Open.Store(false)
	t0 := time.Now()
	now := func() int64 { return int64(time.Since(t0)) }
	var mu sync.Mutex
	var ops []porcupine.Operation
	record := func(client int, in c06in, call, ret int64, out any) {
		mu.Lock()
		ops = append(ops, porcupine.Operation{ClientId: client, Input: in, Call: call, Output: out, Return: ret})
		mu.Unlock()
	}
	// item0 in flight (not part of the queue model)
	appendEvent(l, log.InfoLevel, fmt.Sprintf("id-z%dx%d-0", w.Spec.Shard, ci))
	if _, ok := waitEntered(g, 20*time.Second); !ok {
		return "idle worker did not pick up the first item", "worker-idle"
	}
	var prefilled []string
	for i := 0; i < prefill; i++ {
		id := fmt.Sprintf("id-f%dx%d-%d", w.Spec.Shard, ci, i)
		appendEvent(l, log.InfoLevel, id)
		prefilled = append(prefilled, id) // sequential, before any concurrency: the model's initial state
	}
	// the producers are lined up at the yield point just before the enqueue attempt, so that they compete
	// for the last free slots at the same moment
	var arrivals atomic.Int64
	prevFn := log.VerifPointFn
	log.VerifPointFn = func(name string) {
		prevFn(name)
		if name == "async.append.before" || name == "async.write.before" {
			n := arrivals.Add(1)
			target := (n + int64(P) - 1) / int64(P) * int64(P)
			for t0 := time.Now(); arrivals.Load() < target && time.Since(t0) < 2*time.Millisecond; {
				runtime.Gosched()
			}
		}
	}
	defer func() { log.VerifPointFn = prevFn }()
	subs := make([][]string, P)
	var wg sync.WaitGroup
	start := make(chan struct{})
	for p := 0; p < P; p++ {
		wg.Add(1)
		go func(p int) {
			defer wg.Done()
			<-start
			c06producer(func() {
				for i := 0; i < opsEach; i++ {
					id := fmt.Sprintf("id-q%dp%dx%d-%d", w.Spec.Shard, p, ci, i)
					c0 := now()
					if (p+i)%3 == 0 {
						l.Write([]byte("raw " + id + "\n"))
					} else {
						appendEvent(l, log.WarnLevel, id)
					}
					record(p+1, c06in{ID: id}, c0, now(), nil)
					subs[p] = append(subs[p], id)
				}
			})
		}(p)
	}
	close(start)
	done := make(chan struct{})
	go func() { wg.Wait(); close(done) }()
	select {
	case <-done:
	case <-time.After(25 * time.Second):
		dump := goroutineDump()
		if blocked, gr := blockedInLibrary(dump, "c06producer"); blocked {
			w.Violate("C06:call-waits-for-appender:"+policy, fmt.Sprintf("under %s a log call is parked inside the library while the appender gate is closed (the call must not wait for the appender):\n%s", policy, trunc(gr, 1500)),
				map[string]any{"policy": policy, "cap": cap, "prefill": prefill, "producers": P})
			w.flush()
			os.Exit(0)
		}
		return "producers did not finish and no library frame is parked (inconclusive)", "inconclusive"
	}
	cDrain := now()
	counter := l.GetDiscardCounter()
	g.Open.Store(true)
	for i := 0; i < 4; i++ {
		g.Gate <- struct{}{}
	}
	okStop, pv, _ := callWithWatchdog(60*time.Second, stop)
	if !okStop || pv != nil {
		return fmt.Sprintf("Stop did not return / panicked (%v)", pv), "stop"
	}
	for len(g.Entered) > 0 {
		<-g.Entered
	}
	for len(g.Gate) > 0 {
		<-g.Gate
	}
	var got []string
	for _, it := range rec.take() {
		if it.Sink == sinkName {
			got = append(got, idOf(it.JSON))
		}
	}
	if len(got) == 0 || !strings.HasPrefix(got[0], "id-z") {
		return fmt.Sprintf("the in-flight item was not delivered first (got %v…)", firstN(got, 3)), "order"
	}
	got = got[1:]
	record(99, c06in{Drain: true}, cDrain, now(), c06out{Delivered: got, Counter: counter})
	// direct oracles
	pos := map[string]int{}
	for i, id := range got {
		if _, dup := pos[id]; dup {
			return "item " + id + " delivered twice", "delivered-set"
		}
		pos[id] = i
	}
	total := prefill + P*opsEach
	wantSurvive := total
	if wantSurvive > cap {
		wantSurvive = cap
	}
	if len(got) != wantSurvive || int64(total-len(got)) != counter {
		return fmt.Sprintf("%d items survived and the counter is %d; %d were submitted into a buffer of %d", len(got), counter, total, cap), "counter"
	}
	for p := range subs {
		var alive []int
		last := -1
		for i, id := range subs[p] {
			if ps, ok := pos[id]; ok {
				alive = append(alive, i)
				if ps < last {
					return fmt.Sprintf("producer %d: %s was delivered before an earlier submission", p, id), "order"
				}
				last = ps
			}
		}
		for k, i := range alive {
			switch policy {
			case "Discard": // survivors form a prefix
				if i != k {
					return fmt.Sprintf("Discard must drop the arriving item: producer %d lost an earlier item but kept a later one (survivor indexes %v)", p, alive), "policy"
				}
			case "DiscardOldest": // survivors form a suffix
				if i != len(subs[p])-len(alive)+k {
					return fmt.Sprintf("DiscardOldest must keep the arriving item: producer %d kept an earlier item but lost a later one (survivor indexes %v of %d)", p, alive, len(subs[p])), "policy"
				}
			}
		}
	}
	if policy != "Block" && P*opsEach <= 9 {
		res := porcupine.CheckOperationsTimeout(c06porcupine(policy, cap, prefilled), ops, 5*time.Second)
		w.Count("porcupine_"+string(res), 1)
		switch res {
		case porcupine.Illegal:
			return fmt.Sprintf("history of %d operations is not linearizable against the bounded-queue-with-%s model", len(ops), policy), "not-linearizable"
		case porcupine.Unknown:
			w.Inconclusive("porcupine timed out on a history of " + fmt.Sprint(len(ops)) + " operations")
		}
	}
	return "", ""
}

//go:noinline
func c06producer(f func()) { f() }

// c06rolling: the asynchronous rolling-file logger must honour its overflow policy too. The worker is parked
// inside its first file write (guarded yield point), the buffer (100) is overfilled by one producer, and the
// calls must return while the worker is parked; afterwards the files must hold exactly the survivors the
// policy prescribes.
var c06rollTag *log.Tag
var c06rollHandle *log.LoggerWrapper

func c06rolling(w *W, y *yielder, policy string, sep bool, ci int) (string, string) {
	dir := filepath.Join(w.Spec.Dir, fmt.Sprintf("%s.r%d", w.Spec.Name, ci))
	_ = os.RemoveAll(dir)
	_ = os.MkdirAll(dir, 0755)
	defer os.RemoveAll(dir)
	tag := c06rollTag
	cfg := map[string]string{"appender.u.type": "Discard", "logger.lg.type": "RollingFile", "logger.lg.tags": "c06roll", "logger.lg.fileDir": dir, "logger.lg.fileName": "q.log",
		"logger.lg.rotation": "h", "logger.lg.async": "true", "logger.lg.bufferSize": "100", "logger.lg.bufferFullPolicy": policy, "logger.lg.separate": fmt.Sprint(sep)}
	if err := log.Refresh(cfg); err != nil {
		log.Destroy()
		return "Refresh failed: " + err.Error(), "refresh"
	}
	release := make(chan struct{})
	y.pause.Store("roll.write.loaded", release)
	hits := func() int64 {
		if c, ok := y.hits.Load("roll.write.loaded"); ok {
			return c.(*atomic.Int64).Load()
		}
		return 0
	}
	h0 := hits()
	ctx := context.Background()
	id := func(i int) string { return fmt.Sprintf("id-k%dx%d-%d", w.Spec.Shard, ci, i) }
	log.Info(ctx, tag, log.Msg(id(0)))
	for t0 := time.Now(); hits() == h0; {
		if time.Since(t0) > 20*time.Second {
			y.pause.Delete("roll.write.loaded")
			close(release)
			log.Destroy()
			return "the worker never reached its first file write", "worker-idle"
		}
		time.Sleep(100 * time.Microsecond)
	}
	const total = 250
	done, pv, _ := callWithWatchdog(20*time.Second, func() {
		c06producer(func() {
			for i := 1; i <= total; i++ {
				if i%3 == 0 {
					_, _ = c06rollHandle.Write([]byte("raw " + id(i) + "\n")) // raw writes obey the same queue and policy
				} else {
					log.Info(ctx, tag, log.Msg(id(i)))
				}
			}
		})
	})
	if !done {
		kind, gr := stuckInLibrary("c06producer")
		y.pause.Delete("roll.write.loaded")
		close(release)
		if kind == "blocked" {
			return "a log call through the asynchronous rolling-file logger is parked inside the library while its worker is held in a file write (policy " + policy + " must not wait for the appender):\n" + trunc(gr, 1200), "call-waits-for-appender"
		}
		return "producer did not finish", "inconclusive"
	}
	if pv != nil {
		y.pause.Delete("roll.write.loaded")
		close(release)
		return fmt.Sprintf("log call panicked: %v", pv), "panic"
	}
	y.pause.Delete("roll.write.loaded")
	close(release)
	log.Destroy()
	got := idsIn(readDirAll(dir))
	var want []int
	switch policy {
	case "Discard":
		for i := 0; i <= 100; i++ {
			want = append(want, i)
		}
	case "DiscardOldest":
		want = append(want, 0)
		for i := total - 99; i <= total; i++ {
			want = append(want, i)
		}
	}
	for _, i := range want {
		expCount := 1
		if sep && i > 0 && i%3 == 0 {
			expCount = 2 // a raw write reaches every appender of the logger: both files when separate is on
		}
		if got[id(i)] != expCount {
			return fmt.Sprintf("policy %s: item %d should have survived (buffer 100, 1 in flight, %d submitted) but is in the files %d times; %d items survived", policy, i, total+1, got[id(i)], len(got)), "policy"
		}
	}
	if len(got) != len(want) {
		return fmt.Sprintf("policy %s: %d items in the files, expected %d", policy, len(got), len(want)), "policy"
	}
	// submission order (events and raw writes alike) within each file
	ents, _ := os.ReadDir(dir)
	for _, e := range ents {
		b, _ := os.ReadFile(filepath.Join(dir, e.Name()))
		last := -1
		for _, x := range idRe.FindAll(b, -1) {
			var sh, c, i int
			if _, err := fmt.Sscanf(string(x), "id-k%dx%d-%d", &sh, &c, &i); err == nil {
				if i < last {
					return fmt.Sprintf("policy %s: item %d was written to %s after item %d (a single goroutine's items must keep their order, events and raw writes alike)", policy, i, e.Name(), last), "order"
				}
				last = i
			}
		}
	}
	return "", ""
}

// c06console: free-running producers through AsyncLogger -> ConsoleAppender (JSON layout); every delivered line
// must be a complete record of a submitted id, at most once, in per-producer order.
func c06console(w *W, c asyncCase, ci int) string {
	sink := &chunkSink{}
	log.Stdout = sink
	all := log.LevelRange{MinLevel: log.NoneLevel, MaxLevel: log.MaxLevel}
	pol := map[string]log.BufferFullPolicy{"Block": log.BufferFullPolicyBlock, "Discard": log.BufferFullPolicyDiscard, "DiscardOldest": log.BufferFullPolicyDiscardOldest}[c.Policy]
	ap := &log.ConsoleAppender{Layout: &log.JSONLayout{BaseLayout: log.BaseLayout{FileLineLength: 48}}}
	l := &log.AsyncLogger{LoggerBase: log.LoggerBase{Name: "c06console", Level: all}, BufferSize: c.Buf, BufferFullPolicy: pol,
		AppenderRefs: log.AppenderRefs{AppenderRefs: []*log.AppenderRef{{Appender: ap, Level: all}}}}
	if err := l.Start(); err != nil {
		return "start: " + err.Error()
	}
	per := 1200 / c.Producers
	var wg sync.WaitGroup
	for p := 0; p < c.Producers; p++ {
		wg.Add(1)
		go func(p int) {
			defer wg.Done()
			for i := 0; i <= per; i++ {
				appendEvent(l, log.ErrorLevel, fmt.Sprintf("id-o%dp%dx%d-%d", w.Spec.Shard, p, ci, i))
			}
		}(p)
	}
	wg.Wait()
	if ok, pv, _ := callWithWatchdog(90*time.Second, l.Stop); !ok || pv != nil {
		return fmt.Sprintf("Stop did not return / panicked (%v)", pv)
	}
	last := map[int]int{}
	seen := map[string]bool{}
	n := 0
	for _, ch := range sink.take() {
		n++
		id := idOf(ch)
		var sh, p, cc, i int
		if _, err := fmt.Sscanf(id, "id-o%dp%dx%d-%d", &sh, &p, &cc, &i); err != nil || !bytes.HasSuffix(ch, []byte("\"}\n")) || !bytes.Contains(ch, []byte(`"level":"error"`)) {
			return fmt.Sprintf("[%s] console line %d is not the record of a submitted event: %q", c.class(), n, trunc(string(ch), 200))
		}
		if seen[id] {
			return fmt.Sprintf("[%s] %s delivered twice", c.class(), id)
		}
		seen[id] = true
		if prev, ok := last[p]; ok && i <= prev {
			return fmt.Sprintf("[%s] producer %d: item %d delivered after item %d", c.class(), p, i, prev)
		}
		last[p] = i
	}
	if int64(n)+l.GetDiscardCounter() != int64(c.Producers*(per+1)) {
		return fmt.Sprintf("[%s] delivered %d + discarded %d != submitted %d", c.class(), n, l.GetDiscardCounter(), c.Producers*(per+1))
	}
	return ""
}

func c06Worker(w *W) {
	log.RegisterTag("c06tag")
	if w.Spec.Kind == "builtinfile" {
		asyncBuiltinFile(w, "C06")
		return
	}
	if w.Spec.Kind == "manydiscards" {
		c06ManyDiscards(w)
		return
	}
	if w.Spec.Kind == "stalefull" {
		c06StaleFull(w)
		return
	}
	registerMonitorPlugins()
	y := installYielder(uint64(w.Spec.Seed), 0, 0)
	if w.Spec.Kind == "rolling" {
		c06rollTag = log.RegisterTag("c06roll")
		c06rollHandle = log.GetLogger("lg")
		ci := 0
		for rep := 0; rep < int(w.Spec.N); rep++ {
			for _, pol := range []string{"Discard", "DiscardOldest"} {
				for _, sep := range []bool{false, true} {
					ci++
					w.Journal("rolling policy=%s separate=%v", pol, sep)
					d, cls := c06rolling(w, y, pol, sep, ci)
					w.Eval(1)
					cs := map[string]any{"logger": "RollingFile async", "policy": pol, "separate": sep, "buffer": 100}
					switch {
					case cls == "inconclusive":
						w.Inconclusive(d)
					case d != "":
						w.Violate("C06:rolling-async:"+cls+":"+pol, d, cs)
						if cls == "call-waits-for-appender" || cls == "refresh" {
							// a producer is still parked inside the library: this process cannot be reused
							w.flush()
							os.Exit(0)
						}
					default:
						w.Distinct(fmt.Sprintf("rolling|%s|sep=%v", pol, sep))
						w.Sample(cs)
					}
				}
			}
		}
		return
	}
	policies := []string{"Block", "Discard", "DiscardOldest"}
	switch w.Spec.Kind {
	case "enum":
		L := int(w.Spec.N)
		idx := 0
		var rec2 func(p string)
		rec2 = func(p string) {
			if len(p) > 0 {
				for pi, pol := range policies {
					for si, st := range []struct{ cap, prefill int }{{100, 100}, {101, 99}, {100, 0}, {100, 1}} {
						idx++
						if idx%w.Spec.NShards != w.Spec.Shard {
							continue
						}
						w.Journal("enum policy=%s cap=%d prefill=%d ops=%s", pol, st.cap, st.prefill, p)
						d, cls := c06single(w, y, pol, st.cap, st.prefill, p, idx)
						w.Eval(1)
						cs := map[string]any{"policy": pol, "cap": st.cap, "prefill": st.prefill, "ops": p}
						if cls == "inconclusive" {
							w.Inconclusive(d)
						} else if d != "" {
							w.Violate("C06:model:"+cls+":"+pol, fmt.Sprintf("policy %s, buffer %d with %d queued + 1 in flight, ops %q: %s", pol, st.cap, st.prefill, p, d), cs)
						} else {
							w.Res.DistinctCount++
							if idx == w.Spec.Shard+w.Spec.NShards*40 {
								w.Sample(cs)
							}
						}
						_, _ = pi, si
					}
				}
			}
			if len(p) == L {
				return
			}
			for _, o := range "AWS" {
				rec2(p + string(o))
			}
		}
		rec2("")
	case "concurrent":
		r := w.Rng()
		n := int(w.Spec.N)
		for ci := 0; ci < n; ci++ {
			pol := policies[1+ci%2]
			if ci%7 == 0 {
				pol = "Block"
			}
			cap := []int{100, 101}[r.IntN(2)]
			P := []int{2, 3, 4, 8, 2, 3}[r.IntN(6)]
			opsEach := 3 + r.IntN(3)
			if P <= 3 {
				opsEach = 3 + r.IntN(2)
			}
			prefill := cap - r.IntN(3)
			if pol == "Block" {
				prefill = cap - P*opsEach - r.IntN(5) // never fills: Block must not drop or park
			}
			y.prob, y.maxUS = []uint64{0, 2, 5}[r.IntN(3)], 20
			w.Journal("concurrent policy=%s cap=%d prefill=%d P=%d ops=%d", pol, cap, prefill, P, opsEach)
			d, cls := c06concurrent(w, pol, cap, prefill, P, opsEach, ci)
			w.Eval(1)
			cs := map[string]any{"policy": pol, "cap": cap, "prefill": prefill, "producers": P, "ops_each": opsEach}
			switch {
			case cls == "inconclusive":
				w.Inconclusive(d)
			case d != "":
				w.Violate("C06:concurrent:"+cls+":"+pol, fmt.Sprintf("policy %s, buffer %d (%d prefilled), %d producers x %d ops, consumer parked: %s", pol, cap, prefill, P, opsEach, d), cs)
			default:
				w.Distinct(fmt.Sprintf("conc|%s|cap%d|pre%d|P%d|ops%d", pol, cap, cap-prefill, P, opsEach))
				if ci == 0 {
					w.Sample(cs)
				}
			}
		}
		y.prob = 0
	case "free":
		r := w.Rng()
		n := int(w.Spec.N)
		for ci := 0; ci < n; ci++ {
			c := asyncCase{Policy: policies[ci%3], Buf: []int{100, 128, 1000}[r.IntN(3)], Producers: []int{1, 2, 8, 32}[r.IntN(4)], Appender: []string{"fast", "slow"}[r.IntN(2)]}
			if ci%4 == 3 {
				// the built-in console appender behind the async logger (real formatting, real pooling of events)
				if d := c06console(w, c, ci); d != "" {
					w.Violate("C06:free-running:console:"+c.Policy, d, c)
				} else {
					w.Distinct("free-console|" + c.class())
				}
				w.Eval(1)
				continue
			}
			y.prob, y.maxUS = []uint64{0, 3, 7}[r.IntN(3)], 40
			w.Journal("free %+v", c)
			rec.take()
			l, sinkName, stop, err := buildAsync(c, "")
			if err != nil {
				continue
			}
			per := 1500 / c.Producers
			if c.Appender == "slow" && c.Policy == "Block" {
				per = 300 / c.Producers
			}
			var wg sync.WaitGroup
			for p := 0; p < c.Producers; p++ {
				wg.Add(1)
				go func(p int) {
					defer wg.Done()
					for i := 0; i < per+1; i++ {
						id := fmt.Sprintf("id-r%dp%dx%d-%d", w.Spec.Shard, p, ci, i)
						if i%4 == 3 {
							l.Write([]byte("raw " + id + "\n"))
						} else {
							appendEvent(l, log.ErrorLevel, id)
						}
					}
				}(p)
			}
			wg.Wait()
			if okStop, pv, _ := callWithWatchdog(90*time.Second, stop); !okStop || pv != nil {
				w.Inconclusive("free-running: Stop did not return")
				continue
			}
			last := map[string]int{}
			bad := false
			for _, it := range rec.take() {
				if it.Sink != sinkName {
					continue
				}
				id := idOf(it.JSON)
				var sh, p, cc, i int
				if _, err := fmt.Sscanf(id, "id-r%dp%dx%d-%d", &sh, &p, &cc, &i); err != nil {
					continue
				}
				k := fmt.Sprint(p)
				if prev, ok := last[k]; ok && i <= prev {
					bad = true
					w.Violate("C06:free-running:order:"+c.Policy, fmt.Sprintf("[%s] producer %d: item %d delivered after item %d", c.class(), p, i, prev), c)
					break
				}
				last[k] = i
			}
			w.Eval(1)
			if !bad {
				w.Distinct("free|" + c.class())
			}
		}
		y.prob = 0
	}
	for k, v := range y.counts() {
		w.Count("yield_"+k, v)
	}
}

func init() {
	register(&Prop{
		ID: "C06", Level: "exploration", MinDistinct: 300, Worker: c06Worker,
		Rule: "(a) deterministic histories: a gated appender parks the worker inside Append with one item in flight; from a full buffer (cap 100, 100 queued), a nearly full one (cap 101, 99 queued), an empty one and one holding a single item, ALL operation sequences of length 1..5 (quick) / 1..7 (thorough) over {append event, raw write, let the worker take one item} are executed for each of the three policies and compared step-wise and at the end (delivered sequence, discard counter) with an executable queue model; Block-policy calls on a full buffer are issued from a goroutine, must park and are released by a later step. " +
			"(b) concurrent histories: 2-8 producers x 3-5 operations against a parked consumer and a (nearly) full buffer, then drain; oracles: survivor count and counter, per-producer order, Discard => survivors are a prefix / DiscardOldest => a suffix of each producer's submissions, and porcupine linearizability of the recorded call/return history against the bounded-queue-with-policy model; a call parked inside the library while the gate is closed is a deadlock witness. " +
			"(d) the asynchronous rolling-file logger (buffer 100, Discard/DiscardOldest, separate on/off) with its worker held inside a file write at a guarded yield point: 250 calls must return and the files must hold exactly the survivors the policy prescribes. (e) a producer is held at the guarded yield point right after it found the buffer full while the queue drains completely; after its release ten items submitted one at a time to the empty buffer must all be delivered and the discard counter must not move (all three policies, with and without a logger-level layout). (c) free-running producers (1-32) with fast/slow appenders and seeded yields: per-producer delivery order. distinct_nontrivial = number of enumerated (policy,start state,sequence) histories that matched + distinct parameter classes of (b) and (c).",
		Assumptions: []string{"cross-producer real-time order is not promised and not checked except through linearizability of (b)", "porcupine Unknown (timeout) is inconclusive"},
		Run: func(d *D) {
			var specs []Spec
			for i := 0; i < 12; i++ {
				s := d.NewSpec("enum", fmt.Sprintf("enum-%d", i), i, 12)
				s.N = d.Pick(5, 7)
				s.TimeoutS = int(d.Pick(400, 3000))
				specs = append(specs, s)
			}
			for i := 0; i < 4; i++ {
				s := d.NewSpec("concurrent", fmt.Sprintf("conc-%d", i), 20+i, 12)
				s.N = d.Pick(150, 1500)
				s.TimeoutS = int(d.Pick(400, 3000))
				specs = append(specs, s)
			}
			for i := 0; i < 2; i++ {
				s := d.NewSpec("concurrent", fmt.Sprintf("conc-race-%d", i), 30+i, 12)
				s.N = d.Pick(15, 200)
				s.Flavour = "race"
				s.TimeoutS = int(d.Pick(400, 3000))
				specs = append(specs, s)
			}
			for i := 0; i < 3; i++ {
				s := d.NewSpec("free", fmt.Sprintf("free-%d", i), 40+i, 12)
				s.N = d.Pick(12, 200)
				s.TimeoutS = int(d.Pick(400, 3000))
				if i == 2 {
					s.Flavour = "race"
				}
				specs = append(specs, s)
			}
			specs = append(specs, d.NewSpec("builtinfile", "builtinfile", 72, 12))
			md := d.NewSpec("manydiscards", "manydiscards", 70, 12)
			md.TimeoutS = int(d.Pick(300, 600))
			specs = append(specs, md)
			sf := d.NewSpec("stalefull", "stalefull", 71, 12)
			sf.TimeoutS = int(d.Pick(300, 600))
			specs = append(specs, sf)
			rs := d.NewSpec("rolling", "rolling-async", 60, 12)
			rs.N = d.Pick(1, 4)
			rs.TimeoutS = int(d.Pick(300, 600))
			specs = append(specs, rs)
			specs = d.WithRuntimeVariants(specs, int(d.Pick(2, 1)), func(s Spec) bool { return s.Kind == "concurrent" || s.Kind == "free" })
			outs := d.RunWorkers(specs, 16)
			d.raceVerdict(outs)
			d.Extra["exhaustive"] = true
			d.Extra["exhaustive_spaces"] = []string{fmt.Sprintf("all sequences of length 1..%d over {A,W,S} x 3 policies x 2 start states (single-stepped)", d.Pick(5, 7))}
		},
	})
}
