package main

// C15 — configuration resolves as declared; bad configuration is an error, not a panic.
// Grammar-based configuration generator + resolution oracle; observed values come from a probe
// plugin (publishes what was injected) and from reflection over the live built-in plugins.

import (
	"encoding/json"
	"fmt"
	"math"
	"math/rand/v2"
	"os"
	"path/filepath"
	"reflect"
	"sort"
	"strconv"
	"strings"

	log "github.com/go-spring/log"
)

// ---- probe plugins (every attribute/element shape the injector supports) ----

type ProbeItem struct {
	V int    `PluginAttribute:"v,default=1"`
	S string `PluginAttribute:"s,default=item"`
}
type ProbeOpt struct {
	N int8 `PluginAttribute:"n,default=3"`
}

type VProbe struct {
	log.AppenderBase
	S      string               `PluginAttribute:"strAttr,default=dflt"`
	Req    string               `PluginAttribute:"reqAttr"`
	I      int                  `PluginAttribute:"intAttr,default=7"`
	I8     int8                 `PluginAttribute:"int8Attr,default=-8"`
	I16    int16                `PluginAttribute:"int16Attr,default=16"`
	I32    int32                `PluginAttribute:"int32Attr,default=32"`
	I64    int64                `PluginAttribute:"int64Attr,default=64"`
	U      uint                 `PluginAttribute:"uintAttr,default=1"`
	U8     uint8                `PluginAttribute:"uint8Attr,default=8"`
	U16    uint16               `PluginAttribute:"uint16Attr,default=16"`
	U32    uint32               `PluginAttribute:"uint32Attr,default=32"`
	U64    uint64               `PluginAttribute:"uint64Attr,default=64"`
	F32    float32              `PluginAttribute:"float32Attr,default=1.5"`
	F64    float64              `PluginAttribute:"float64Attr,default=2.5"`
	B      bool                 `PluginAttribute:"boolAttr,default=true"`
	Lv     log.LevelRange       `PluginAttribute:"levelAttr,default=WARN"`
	Pol    log.BufferFullPolicy `PluginAttribute:"policyAttr,default=DiscardOldest"`
	Rot    log.TimeRotation     `PluginAttribute:"rotationAttr,default=30m"`
	Layout log.Layout           `PluginElement:"Layout,default=JSONLayout"`
	Items  []*ProbeItem         `PluginElement:"ProbeItem,default=ProbeItem;ProbeItem"`
	Opts   []*ProbeOpt          `PluginElement:"ProbeOpt?"`
}

var probePublished = map[string]*VProbe{}

func (a *VProbe) Start() error        { probePublished[a.Name] = a; return nil }
func (a *VProbe) Stop()               {}
func (a *VProbe) Append(e *log.Event) {}
func (a *VProbe) Write(b []byte)      {}

var c15once bool

func c15register() {
	if c15once {
		return
	}
	c15once = true
	registerMonitorPlugins()
	log.RegisterPlugin[VProbe]("VProbe", log.PluginTypeAppender)
	log.RegisterPlugin[ProbeItem]("ProbeItem", log.PluginType("probeItem"))
	log.RegisterPlugin[ProbeOpt]("ProbeOpt", log.PluginType("probeOpt"))
}

// ---- schema ----

type aspec struct {
	name  string // canonical camelCase attribute name
	kind  string
	def   string
	req   bool
	field string
}

type pspec struct {
	typ    string
	class  string // appender | logger
	attrs  []aspec
	layout string // "" none, "default:<Type>", "optional"
	refs   bool
	items  bool
}

var c15specs = map[string]*pspec{}

func c15schema() {
	if len(c15specs) > 0 {
		return
	}
	lb := []aspec{{"tags", "string", "", false, "Tags"}, {"level", "level", "", false, "Level"}}
	add := func(p *pspec) { c15specs[p.class+":"+p.typ] = p }
	add(&pspec{typ: "Discard", class: "appender"})
	add(&pspec{typ: "Console", class: "appender", layout: "default:TextLayout"})
	add(&pspec{typ: "File", class: "appender", layout: "default:TextLayout", attrs: []aspec{{"fileDir", "dir", "./logs", false, "FileDir"}, {"fileName", "fname", "", true, "FileName"}}})
	add(&pspec{typ: "RollingFile", class: "appender", layout: "default:TextLayout", attrs: []aspec{{"fileDir", "dir", "./logs", false, "FileDir"}, {"fileName", "fname", "", true, "FileName"},
		{"rotation", "rotation", "", true, "Rotation"}, {"maxAge", "int32", "", true, "MaxAge"}}})
	add(&pspec{typ: "VRec", class: "appender", layout: "optional"})
	add(&pspec{typ: "VProbe", class: "appender", layout: "default:JSONLayout", items: true, attrs: []aspec{
		{"strAttr", "string", "dflt", false, "S"}, {"reqAttr", "string", "", true, "Req"}, {"intAttr", "int", "7", false, "I"}, {"int8Attr", "int8", "-8", false, "I8"}, {"int16Attr", "int16", "16", false, "I16"},
		{"int32Attr", "int32", "32", false, "I32"}, {"int64Attr", "int64", "64", false, "I64"}, {"uintAttr", "uint", "1", false, "U"}, {"uint8Attr", "uint8", "8", false, "U8"}, {"uint16Attr", "uint16", "16", false, "U16"},
		{"uint32Attr", "uint32", "32", false, "U32"}, {"uint64Attr", "uint64", "64", false, "U64"}, {"float32Attr", "float32", "1.5", false, "F32"}, {"float64Attr", "float64", "2.5", false, "F64"},
		{"boolAttr", "bool", "true", false, "B"}, {"levelAttr", "level", "WARN", false, "Lv"}, {"policyAttr", "policy", "DiscardOldest", false, "Pol"}, {"rotationAttr", "rotation", "30m", false, "Rot"}}})
	add(&pspec{typ: "Logger", class: "logger", layout: "optional", refs: true, attrs: lb})
	add(&pspec{typ: "AsyncLogger", class: "logger", layout: "optional", refs: true, attrs: append(append([]aspec{}, lb...), aspec{"bufferSize", "bufsize", "10000", false, "BufferSize"}, aspec{"bufferFullPolicy", "policy", "Discard", false, "BufferFullPolicy"})})
	add(&pspec{typ: "Discard", class: "logger", layout: "optional", attrs: lb})
	add(&pspec{typ: "Console", class: "logger", layout: "shared", attrs: lb})
	add(&pspec{typ: "File", class: "logger", layout: "shared", attrs: append(append([]aspec{}, lb...), aspec{"fileDir", "dir", "./logs", false, "FileDir"}, aspec{"fileName", "fname", "", true, "FileName"})})
	add(&pspec{typ: "RollingFile", class: "logger", layout: "optional", attrs: append(append([]aspec{}, lb...), aspec{"fileDir", "dir", "./logs", false, "FileDir"}, aspec{"fileName", "fname", "app.log", false, "FileName"},
		aspec{"separate", "bool", "false", false, "Separate"}, aspec{"rotation", "rotation", "", true, "Rotation"}, aspec{"maxAge", "int32", "168", false, "MaxAge"}, aspec{"async", "bool", "false", false, "AsyncWrite"},
		aspec{"bufferSize", "bufsize", "10000", false, "BufferSize"}, aspec{"bufferFullPolicy", "policy", "Discard", false, "BufferFullPolicy"})})
	c15syncWithTags()
}

// declared defaults are read from the struct tags of the real plugin types, so that the oracle
// follows the declaration ("else its declared default") instead of a transcription of it
func c15syncWithTags() {
	types := map[string]reflect.Type{
		"appender:Discard": reflect.TypeOf(log.DiscardAppender{}), "appender:Console": reflect.TypeOf(log.ConsoleAppender{}), "appender:File": reflect.TypeOf(log.FileAppender{}),
		"appender:RollingFile": reflect.TypeOf(log.RollingFileAppender{}), "appender:VRec": reflect.TypeOf(VRec{}), "appender:VProbe": reflect.TypeOf(VProbe{}),
		"logger:Logger": reflect.TypeOf(log.SyncLogger{}), "logger:AsyncLogger": reflect.TypeOf(log.AsyncLogger{}), "logger:Discard": reflect.TypeOf(log.DiscardLogger{}),
		"logger:Console": reflect.TypeOf(log.ConsoleLogger{}), "logger:File": reflect.TypeOf(log.FileLogger{}), "logger:RollingFile": reflect.TypeOf(log.RollingFileLogger{}),
	}
	var scan func(t reflect.Type, out map[string]string, req map[string]bool)
	scan = func(t reflect.Type, out map[string]string, req map[string]bool) {
		for i := 0; i < t.NumField(); i++ {
			f := t.Field(i)
			if tag, ok := f.Tag.Lookup("PluginAttribute"); ok {
				parts := strings.Split(tag, ",")
				name := parts[0]
				hasDef := false
				for _, p := range parts[1:] {
					if strings.HasPrefix(p, "default=") {
						out[name] = strings.TrimPrefix(p, "default=")
						hasDef = true
					}
				}
				if !hasDef {
					req[name] = true
				}
				continue
			}
			if f.Anonymous && f.Type.Kind() == reflect.Struct {
				scan(f.Type, out, req)
			}
		}
	}
	for key, t := range types {
		sp := c15specs[key]
		if sp == nil {
			continue
		}
		defs, req := map[string]string{}, map[string]bool{}
		scan(t, defs, req)
		for i := range sp.attrs {
			a := &sp.attrs[i]
			if d, ok := defs[a.name]; ok {
				a.def, a.req = d, false
			} else if req[a.name] {
				a.req = true
			}
		}
	}
}

// ---- abstract configuration ----

type c15val struct {
	set     bool
	text    string // as configured (before ${} indirection)
	viaProp string // non-empty: configured as ${viaProp}, the property holds text
}

type c15layout struct {
	typ    string // TextLayout | JSONLayout
	fllSet bool
	fll    int
}

type c15item struct {
	vSet bool
	v    int
	sSet bool
	s    string
}

type c15inst struct {
	name   string
	spec   *pspec
	vals   map[string]*c15val
	layout *c15layout // nil = not configured
	refs   []struct{ ref, level string }
	items  []c15item // nil = not configured
	single bool      // items/refs written without index (single element form)
	opts   []int     // ProbeOpt n values; nil = absent
}

type c15cfg struct {
	appenders []*c15inst
	loggers   []*c15inst
	props     map[string]string
	errClass  string
	errDetail string
}

type c15gen struct {
	r       *rand.Rand
	scratch string
	ntag    int
	nprop   int
}

func (g *c15gen) validValue(kind string) string {
	r := g.r
	num := func(lo, hi int64) string {
		v := lo + r.Int64N(hi-lo+1)
		switch r.IntN(6) {
		case 0:
			if v >= 0 {
				return "0x" + strconv.FormatInt(v, 16)
			}
		case 1:
			if r.IntN(2) == 0 {
				return strconv.FormatInt(hi, 10)
			}
			return strconv.FormatInt(lo, 10)
		}
		return strconv.FormatInt(v, 10)
	}
	switch kind {
	case "string":
		return []string{"v", "hello world", "a.b.c", "x=y", "UPPER", "with,comma", "uni-ü", "1234", "true", "-", `C:\temp\new`, `a\\b`, `say "hi"`, `tab\there`, `back\/slash`, `{brace}`, "{}", "[]", "<nil>"}[r.IntN(19)]
	case "dir":
		// d1..d3 are directories; l1 is a symbolic link to d1 and "d2/" carries a trailing slash: legal spellings of a directory
		return filepath.Join(g.scratch, []string{"d1", "d2", "d3", "l1"}[r.IntN(4)]) + []string{"", "", "", "/"}[r.IntN(4)]
	case "fname":
		return []string{"a.log", "b.log", "svc.out", "x"}[r.IntN(4)]
	case "int", "int64":
		return num(-1<<40, 1<<40)
	case "int8":
		return num(-128, 127)
	case "int16":
		return num(-32768, 32767)
	case "int32":
		return num(1, math.MaxInt32)
	case "uint", "uint64":
		return num(0, 1<<50)
	case "uint8":
		return num(0, 255)
	case "uint16":
		return num(0, 65535)
	case "uint32":
		return num(0, math.MaxUint32)
	case "bufsize":
		return num(100, 5000)
	case "float32":
		return []string{"0", "1.5", "-2.25", "3e10", "0.1", "1e-3", "3.4e38"}[r.IntN(7)]
	case "float64":
		return []string{"0", "1.5", "-2.25", "3e300", "0.1", "1e-300", "12345.678"}[r.IntN(7)]
	case "bool":
		return []string{"true", "false", "1", "0", "T", "F", "TRUE", "False"}[r.IntN(8)]
	case "level":
		return []string{"", "INFO", "warn", "Debug~ERROR", "TRACE~fatal", "PANIC", "none~max"}[r.IntN(7)]
	case "policy":
		return []string{"Block", "Discard", "DiscardOldest"}[r.IntN(3)]
	case "rotation":
		return []string{"h", "30m", "10m"}[r.IntN(3)]
	}
	return "x"
}

func (g *c15gen) invalidValue(kind string) (string, bool) {
	r := g.r
	pick := func(s ...string) (string, bool) { return s[r.IntN(len(s))], true }
	switch kind {
	case "int", "int64":
		return pick("abc", "", "1.5", "12x", "9223372036854775808", "-9223372036854775809", "0x", "--1")
	case "int8":
		return pick("128", "-129", "abc", "1000", "0x80")
	case "int16":
		return pick("32768", "-32769", "x")
	case "int32":
		return pick("2147483648", "-2147483649", "4294967297", "abc", "1e3")
	case "uint", "uint64":
		return pick("-1", "abc", "18446744073709551616", "1.0")
	case "uint8":
		return pick("256", "-1", "0x100")
	case "uint16":
		return pick("65536", "70000", "-5")
	case "uint32":
		return pick("4294967296", "-1")
	case "bufsize":
		return pick("abc", "1e3")
	case "float32":
		return pick("abc", "1e39", "-3.5e38", "1.2.3", "")
	case "float64":
		return pick("abc", "1e400", "--1", "")
	case "bool":
		return pick("yes", "no", "2", "", "tru", "on")
	case "dir":
		// directories that cannot be created/used: below a regular file, a path component beyond NAME_MAX, a NUL byte
		return pick(filepath.Join(g.scratch, "notadir", "sub"), filepath.Join(g.scratch, strings.Repeat("n", 300)), filepath.Join(g.scratch, "d1")+"\x00x", filepath.Join(g.scratch, "notadir"))
	case "level":
		return pick("LOUD", "INFO~LOUD", "~", "warn~")
	case "policy":
		return pick("block", "Drop", "", "discard")
	case "rotation":
		return pick("1h", "day", "", "H")
	}
	return "", false
}

func (g *c15gen) inst(class, typ, name string) *c15inst {
	c15schema()
	sp := c15specs[class+":"+typ]
	in := &c15inst{name: name, spec: sp, vals: map[string]*c15val{}}
	r := g.r
	for _, a := range sp.attrs {
		v := &c15val{}
		in.vals[a.name] = v
		if a.req || r.IntN(2) == 0 {
			v.set = true
			v.text = g.validValue(a.kind)
		}
	}
	switch {
	case strings.HasPrefix(sp.layout, "default:") || sp.layout == "optional" || sp.layout == "shared":
		if r.IntN(2) == 0 {
			in.layout = &c15layout{typ: []string{"TextLayout", "JSONLayout"}[r.IntN(2)]}
			if r.IntN(2) == 0 {
				in.layout.fllSet = true
				in.layout.fll = r.IntN(120)
			}
		}
	}
	if sp.items {
		if r.IntN(3) > 0 {
			n := 1 + r.IntN(3)
			if r.IntN(10) == 0 {
				n = 10 + r.IntN(5) // indexed lists with two-digit indices ([10] sorts before [2] as text)
			}
			in.single = n == 1 && r.IntN(2) == 0
			for i := 0; i < n; i++ {
				it := c15item{}
				if r.IntN(2) == 0 {
					it.vSet, it.v = true, r.IntN(1000)
				}
				if r.IntN(2) == 0 {
					it.sSet, it.s = true, g.validValue("string")
				}
				if !it.vSet && !it.sSet {
					it.vSet, it.v = true, 5
				}
				in.items = append(in.items, it)
			}
		}
		if r.IntN(2) == 0 {
			for k := 1 + r.IntN(2); k > 0; k-- {
				in.opts = append(in.opts, r.IntN(100))
			}
		}
	}
	return in
}

func (g *c15gen) gen() *c15cfg {
	r := g.r
	c := &c15cfg{props: map[string]string{}}
	atypes := []string{"Discard", "Console", "File", "RollingFile", "VRec", "VProbe", "VProbe", "VRec"}
	na := 1 + r.IntN(4)
	for i := 0; i < na; i++ {
		c.appenders = append(c.appenders, g.inst("appender", atypes[r.IntN(len(atypes))], fmt.Sprintf("ap%d", i)))
	}
	ltypes := []string{"Logger", "AsyncLogger", "Discard", "Console", "File", "RollingFile", "Logger", "AsyncLogger"}
	nl := r.IntN(4)
	for i := 0; i < nl; i++ {
		name := fmt.Sprintf("lg%d", i)
		if i == 0 && r.IntN(4) == 0 {
			name = "root"
		}
		in := g.inst("logger", ltypes[r.IntN(len(ltypes))], name)
		if name == "root" {
			in.vals["tags"] = &c15val{}
		} else {
			g.ntag++
			in.vals["tags"] = &c15val{set: true, text: fmt.Sprintf("c15t%d", i)}
		}
		if in.spec.refs {
			n := 1 + r.IntN(3)
			in.single = n == 1 && r.IntN(2) == 0
			for k := 0; k < n; k++ {
				in.refs = append(in.refs, struct{ ref, level string }{c.appenders[r.IntN(len(c.appenders))].name, g.validValue("level")})
			}
		}
		c.loggers = append(c.loggers, in)
	}
	// ${} indirection for some configured values
	all := append(append([]*c15inst{}, c.appenders...), c.loggers...)
	for _, in := range all {
		for _, a := range in.spec.attrs {
			v := in.vals[a.name]
			if v.set && a.name != "tags" && r.IntN(6) == 0 {
				g.nprop++
				// names starting with the first/last letters of the alphabet in either case exercise the boundaries of key normalisation
				v.viaProp = fmt.Sprintf("%s%d", []string{"my-prop", "my-prop", "zone", "zeta_prop", "Zone", "A-prop", "a"}[r.IntN(7)], g.nprop)
				c.props[v.viaProp] = v.text
			}
		}
	}
	// error injection (one class per erroneous case)
	if r.IntN(5) < 2 {
		in := all[r.IntN(len(all))]
		switch r.IntN(7) {
		case 0: // ill-typed / out-of-range value
			var cand []aspec
			for _, a := range in.spec.attrs {
				if _, ok := g.invalidValue(a.kind); ok {
					cand = append(cand, a)
				}
			}
			if len(cand) > 0 {
				a := cand[r.IntN(len(cand))]
				bad, _ := g.invalidValue(a.kind)
				v := in.vals[a.name]
				v.set, v.text = true, bad
				if v.viaProp != "" {
					c.props[v.viaProp] = bad
				}
				c.errClass, c.errDetail = "ill-typed:"+a.kind, fmt.Sprintf("%s.%s=%q", in.name, a.name, bad)
			}
		case 1: // unknown plugin type
			c.errClass, c.errDetail = "unknown-plugin-type", in.name
			in.spec = &pspec{typ: []string{"Nope", "file", "Filee", ""}[r.IntN(4)], class: in.spec.class, attrs: in.spec.attrs, layout: in.spec.layout, refs: in.spec.refs, items: in.spec.items}
		case 2: // missing required attribute
			var cand []aspec
			for _, a := range in.spec.attrs {
				if a.req {
					cand = append(cand, a)
				}
			}
			if len(cand) > 0 {
				a := cand[r.IntN(len(cand))]
				in.vals[a.name] = &c15val{}
				c.errClass, c.errDetail = "missing-required", in.name+"."+a.name
			}
		case 3: // dangling reference
			for _, lg := range c.loggers {
				if lg.spec.refs {
					lg.refs[r.IntN(len(lg.refs))].ref = "nosuchappender"
					c.errClass, c.errDetail = "dangling-ref", lg.name
					break
				}
			}
		case 4: // missing ${} target
			for _, a := range in.spec.attrs {
				v := in.vals[a.name]
				if v.set && a.name != "tags" {
					if v.viaProp != "" {
						delete(c.props, v.viaProp)
					}
					v.viaProp = []string{"absent-prop", "appender", "logger", "appender." + c.appenders[0].name}[r.IntN(4)] // absent, or only an inner node of the tree
					c.errClass, c.errDetail = "missing-property", in.name+"."+a.name+" -> ${"+v.viaProp+"}"
					break
				}
			}
		case 5: // bufferSize below the minimum
			for _, lg := range c.loggers {
				if lg.spec.typ == "AsyncLogger" {
					v := lg.vals["bufferSize"]
					v.set, v.text = true, strconv.Itoa(r.IntN(100))
					if v.viaProp != "" {
						c.props[v.viaProp] = v.text
					}
					c.errClass, c.errDetail = "buffer-too-small", lg.name
					break
				}
			}
		case 6: // unknown layout type / logger missing references
			if in.layout != nil {
				in.layout.typ = "XmlLayout"
				c.errClass, c.errDetail = "unknown-layout-type", in.name
			} else if in.spec.refs {
				in.refs = nil
				c.errClass, c.errDetail = "missing-element", in.name
			}
		}
	}
	return c
}

// ---- rendering to a flat map with random spellings / inline expressions ----

func spell(r *rand.Rand, camel string, allowKebab bool) string {
	// split camelCase into words
	var words []string
	cur := ""
	for _, ch := range camel {
		if ch >= 'A' && ch <= 'Z' && cur != "" {
			words = append(words, cur)
			cur = ""
		}
		cur += string(ch)
	}
	words = append(words, cur)
	mode := r.IntN(4)
	if mode == 1 && !allowKebab {
		mode = 2
	}
	switch mode {
	case 0:
		return camel
	case 1:
		for i := range words {
			words[i] = strings.ToLower(words[i])
		}
		return strings.Join(words, "-")
	case 2:
		for i := range words {
			words[i] = strings.ToLower(words[i])
		}
		return strings.Join(words, "_")
	default:
		return strings.ToUpper(camel[:1]) + camel[1:]
	}
}

type kv struct{ k, v string }

// flatKeys returns the instance's configuration as (path relative to the instance, value) pairs.
func (in *c15inst) flatKeys(r *rand.Rand, kebab bool) []kv {
	var out []kv
	out = append(out, kv{"type", in.spec.typ})
	for _, a := range in.spec.attrs {
		v := in.vals[a.name]
		if v == nil || !v.set {
			continue
		}
		val := v.text
		if v.viaProp != "" {
			val = "${" + v.viaProp + "}"
		}
		out = append(out, kv{spell(r, a.name, kebab), val})
	}
	if in.layout != nil {
		lk := spell(r, "layout", kebab)
		out = append(out, kv{lk + ".type", in.layout.typ})
		if in.layout.fllSet {
			out = append(out, kv{lk + "." + spell(r, "fileLineLength", kebab), strconv.Itoa(in.layout.fll)})
		}
	}
	rk := spell(r, "appenderRef", kebab)
	for i, rf := range in.refs {
		p := fmt.Sprintf("%s[%d]", rk, i)
		if in.single {
			p = rk
		}
		out = append(out, kv{p + ".ref", rf.ref})
		if rf.level != "" || r.IntN(2) == 0 {
			out = append(out, kv{p + ".level", rf.level})
		}
	}
	ik := spell(r, "probeItem", kebab)
	for i, it := range in.items {
		p := fmt.Sprintf("%s[%d]", ik, i)
		if in.single {
			p = ik
		}
		if it.vSet {
			out = append(out, kv{p + ".v", strconv.Itoa(it.v)})
		}
		if it.sSet {
			out = append(out, kv{p + ".s", it.s})
		}
	}
	ok := spell(r, "probeOpt", kebab)
	for i, n := range in.opts {
		out = append(out, kv{fmt.Sprintf("%s[%d].n", ok, i), strconv.Itoa(n)})
	}
	return out
}

func exprValue(v string) string {
	// an expression value must be IDENT, INTEGER, FLOAT or a quoted STRING
	isIdent := v != ""
	for i, c := range v {
		if !(c == '_' || c >= 'a' && c <= 'z' || c >= 'A' && c <= 'Z' || (i > 0 && c >= '0' && c <= '9')) {
			isIdent = false
		}
	}
	if isIdent {
		return v
	}
	if _, err := strconv.ParseInt(v, 10, 64); err == nil && v[0] != '+' && !(len(v) > 1 && v[0] == '0') && !strings.HasPrefix(v, "-0") {
		return v
	}
	var sb strings.Builder
	sb.WriteByte('"')
	for i := 0; i < len(v); i++ {
		switch c := v[i]; c {
		case '"', '\\':
			sb.WriteByte('\\')
			sb.WriteByte(c)
		default:
			sb.WriteByte(c)
		}
	}
	sb.WriteByte('"')
	return sb.String()
}

func (c *c15cfg) render(r *rand.Rand) map[string]string {
	m := map[string]string{}
	emit := func(prefix string, in *c15inst) {
		inline := r.IntN(3) == 0 && in.spec.typ != "" && isIdentName(in.spec.typ)
		if inline {
			kvs := in.flatKeys(r, false)
			var parts []string
			for _, p := range kvs[1:] {
				parts = append(parts, p.k+" = "+exprValue(p.v))
			}
			sep := ", "
			if r.IntN(2) == 0 {
				sep = ",\n  "
			}
			trail := ""
			if len(parts) > 0 && r.IntN(3) == 0 {
				trail = ","
			}
			m[prefix+"."+in.name+"!"] = in.spec.typ + " { " + strings.Join(parts, sep) + trail + " }"
			return
		}
		for _, p := range in.flatKeys(r, true) {
			m[prefix+"."+in.name+"."+p.k] = p.v
		}
	}
	for _, a := range c.appenders {
		emit("appender", a)
	}
	for _, l := range c.loggers {
		emit("logger", l)
	}
	for k, v := range c.props {
		m[spell(r, kebabToCamel(k), true)] = v
	}
	return m
}

func isIdentName(s string) bool {
	if s == "" {
		return false
	}
	for i, c := range s {
		if !(c == '_' || c >= 'a' && c <= 'z' || c >= 'A' && c <= 'Z' || (i > 0 && c >= '0' && c <= '9')) {
			return false
		}
	}
	return true
}

func kebabToCamel(s string) string {
	parts := strings.Split(s, "-")
	for i := 1; i < len(parts); i++ {
		if parts[i] != "" {
			parts[i] = strings.ToUpper(parts[i][:1]) + parts[i][1:]
		}
	}
	return strings.Join(parts, "")
}

// ---- resolution oracle and comparison ----

func (in *c15inst) resolved(a aspec) string {
	v := in.vals[a.name]
	if v != nil && v.set {
		return v.text
	}
	return a.def
}

func parseNum(s string) (int64, uint64, bool) {
	if strings.HasPrefix(s, "0x") {
		u, _ := strconv.ParseUint(s[2:], 16, 64)
		return int64(u), u, true
	}
	if strings.HasPrefix(s, "-") {
		i, _ := strconv.ParseInt(s, 10, 64)
		return i, uint64(i), true
	}
	u, _ := strconv.ParseUint(s, 10, 64)
	return int64(u), u, true
}

func levelRangeModel(s string) (int32, int32) {
	c01init()
	r, _ := parseRangeModel(s)
	return r.min, r.max
}

// compareField checks one injected field value against the resolved text.
func compareField(fv reflect.Value, a aspec, want string) string {
	switch a.kind {
	case "string", "dir", "fname":
		if fv.String() != want {
			return fmt.Sprintf("got %q want %q", fv.String(), want)
		}
	case "int", "int8", "int16", "int32", "int64", "bufsize":
		i, _, _ := parseNum(want)
		if fv.Int() != i {
			return fmt.Sprintf("got %d want %d (from %q)", fv.Int(), i, want)
		}
	case "uint", "uint8", "uint16", "uint32", "uint64":
		_, u, _ := parseNum(want)
		if fv.Uint() != u {
			return fmt.Sprintf("got %d want %d (from %q)", fv.Uint(), u, want)
		}
	case "float32":
		f, _ := strconv.ParseFloat(want, 32)
		if fv.Float() != float64(float32(f)) {
			return fmt.Sprintf("got %v want %v", fv.Float(), f)
		}
	case "float64":
		f, _ := strconv.ParseFloat(want, 64)
		if fv.Float() != f {
			return fmt.Sprintf("got %v want %v", fv.Float(), f)
		}
	case "bool":
		wantB := want == "true" || want == "1" || want == "T" || want == "TRUE" || want == "True" || want == "t"
		if fv.Bool() != wantB {
			return fmt.Sprintf("got %v want %v (from %q)", fv.Bool(), wantB, want)
		}
	case "level":
		lr := fv.Interface().(log.LevelRange)
		mn, mx := levelRangeModel(want)
		if lr.MinLevel.Code() != mn || lr.MaxLevel.Code() != mx {
			return fmt.Sprintf("got [%d,%d) want [%d,%d) (from %q)", lr.MinLevel.Code(), lr.MaxLevel.Code(), mn, mx, want)
		}
	case "policy":
		wantP := map[string]int64{"Block": 0, "Discard": 1, "DiscardOldest": 2}[want]
		if fv.Int() != wantP {
			return fmt.Sprintf("got policy %d want %d (%s)", fv.Int(), wantP, want)
		}
	case "rotation":
		rot := fv.Interface().(log.TimeRotation)
		wantD := map[string]int64{"h": 3600, "30m": 1800, "10m": 600}[want]
		if int64(rot.Interval.Seconds()) != wantD {
			return fmt.Sprintf("got rotation %v want %ds (%s)", rot.Interval, wantD, want)
		}
	}
	return ""
}

func compareLayout(lv reflect.Value, exp *c15layout, defType string, name string) string {
	if exp == nil && defType == "" {
		if !lv.IsNil() {
			return "optional layout not configured but injected"
		}
		return ""
	}
	wantType, wantFLL := defType, 48
	if exp != nil {
		wantType = exp.typ
		if exp.fllSet {
			wantFLL = exp.fll
		}
	}
	if lv.IsNil() {
		return "layout missing, want " + wantType
	}
	el := lv.Elem() // *TextLayout
	if got := el.Type().Elem().Name(); got != wantType {
		return fmt.Sprintf("layout type %s want %s", got, wantType)
	}
	if got := int(el.Elem().FieldByName("FileLineLength").Int()); got != wantFLL {
		return fmt.Sprintf("layout fileLineLength %d want %d", got, wantFLL)
	}
	return ""
}

func (c *c15cfg) verify(w *W, cs any) bool {
	loggers, appenders := log.VerifGlobals()
	byName := map[string]reflect.Value{}
	for _, a := range appenders {
		byName["appender:"+a.GetName()] = reflect.ValueOf(a)
	}
	for _, l := range loggers {
		byName["logger:"+l.GetName()] = reflect.ValueOf(l)
	}
	ok := true
	fail := func(key, desc string) {
		ok = false
		w.Violate(key, desc, cs)
	}
	check := func(class string, in *c15inst) {
		v, found := byName[class+":"+in.name]
		if !found {
			fail("C15:plugin-not-instantiated:"+class+":"+in.spec.typ, fmt.Sprintf("%s %q of type %s is not among the live plugins after a successful Refresh", class, in.name, in.spec.typ))
			return
		}
		st := v.Elem()
		if class == "appender" && in.spec.typ == "VProbe" {
			if p := probePublished[in.name]; p == nil {
				fail("C15:probe-not-started", "probe appender "+in.name+" was not started")
				return
			}
		}
		for _, a := range in.spec.attrs {
			fv := st.FieldByName(a.field)
			if !fv.IsValid() {
				continue
			}
			if d := compareField(fv, a, in.resolved(a)); d != "" {
				src := "default"
				if in.vals[a.name] != nil && in.vals[a.name].set {
					src = "configured"
					if in.vals[a.name].viaProp != "" {
						src = "property"
					}
				}
				fail("C15:wrong-value:"+a.kind+":"+src, fmt.Sprintf("%s %s(%s).%s: %s [source: %s]", class, in.name, in.spec.typ, a.name, d, src))
			}
		}
		// layout
		switch {
		case strings.HasPrefix(in.spec.layout, "default:"):
			if d := compareLayout(st.FieldByName("Layout"), in.layout, strings.TrimPrefix(in.spec.layout, "default:"), in.name); d != "" {
				fail("C15:wrong-element:layout", fmt.Sprintf("%s %s(%s): %s", class, in.name, in.spec.typ, d))
			}
		case in.spec.layout == "optional":
			lb := st.FieldByName("Layout")
			if in.spec.class == "logger" {
				lb = st.FieldByName("LoggerBase").FieldByName("Layout")
			}
			if d := compareLayout(lb, in.layout, "", in.name); d != "" {
				fail("C15:wrong-element:layout", fmt.Sprintf("%s %s(%s): %s", class, in.name, in.spec.typ, d))
			}
		}
		if in.spec.refs {
			refs := st.FieldByName("AppenderRefs").FieldByName("AppenderRefs")
			var got, want []string
			for i := 0; i < refs.Len(); i++ {
				rf := refs.Index(i).Elem()
				got = append(got, fmt.Sprintf("%s@%d", rf.FieldByName("Ref").String(), rf.FieldByName("Level").Interface().(log.LevelRange).MinLevel.Code()))
			}
			for _, rf := range in.refs {
				mn, _ := levelRangeModel(rf.level)
				want = append(want, fmt.Sprintf("%s@%d", rf.ref, mn))
			}
			sort.Strings(got)
			sort.Strings(want)
			if strings.Join(got, ",") != strings.Join(want, ",") {
				fail("C15:wrong-element:appender-refs", fmt.Sprintf("logger %s: references %v want %v", in.name, got, want))
			}
		}
		if in.spec.items {
			p := probePublished[in.name]
			wantItems := in.items
			if wantItems == nil {
				wantItems = []c15item{{}, {}}
			}
			if len(p.Items) != len(wantItems) {
				fail("C15:wrong-element:list", fmt.Sprintf("probe %s: %d list elements want %d", in.name, len(p.Items), len(wantItems)))
			} else {
				for i, it := range wantItems {
					wv, ws := 1, "item"
					if it.vSet {
						wv = it.v
					}
					if it.sSet {
						ws = it.s
					}
					if p.Items[i].V != wv || p.Items[i].S != ws {
						fail("C15:wrong-element:list", fmt.Sprintf("probe %s item %d = {%d,%q} want {%d,%q}", in.name, i, p.Items[i].V, p.Items[i].S, wv, ws))
					}
				}
			}
			if len(p.Opts) != len(in.opts) {
				fail("C15:wrong-element:optional-list", fmt.Sprintf("probe %s: %d optional elements want %d", in.name, len(p.Opts), len(in.opts)))
			} else {
				for i, n := range in.opts {
					if int(p.Opts[i].N) != n {
						fail("C15:wrong-element:optional-list", fmt.Sprintf("probe %s opt %d = %d want %d", in.name, i, p.Opts[i].N, n))
					}
				}
			}
		}
	}
	for _, a := range c.appenders {
		check("appender", a)
	}
	for _, l := range c.loggers {
		check("logger", l)
	}
	return ok
}

func c15Worker(w *W) {
	if w.Spec.Kind == "defs" {
		c15defsWorker(w)
		return
	}
	c15register()
	c15schema()
	c01init()
	for i := 0; i < 4; i++ {
		log.RegisterTag(fmt.Sprintf("c15t%d", i))
	}
	sink := &chunkSink{}
	log.Stdout = sink
	scratch := filepath.Join(w.Spec.Dir, w.Spec.Name+".d")
	for _, d := range []string{"d1", "d2", "d3"} {
		_ = os.MkdirAll(filepath.Join(scratch, d), 0755)
	}
	_ = os.WriteFile(filepath.Join(scratch, "notadir"), []byte("a regular file\n"), 0644)
	_ = os.Symlink(filepath.Join(scratch, "d1"), filepath.Join(scratch, "l1"))
	_ = os.MkdirAll(filepath.Join(w.Spec.Dir, "logs"), 0755) // the documented default fileDir, relative to the cwd
	defer os.RemoveAll(scratch)
	n := int(w.Spec.N)
	only := -1
	if w.Spec.Replay != nil {
		var rc struct {
			Index int `json:"index"`
		}
		_ = json.Unmarshal(w.Spec.Replay, &rc)
		only = rc.Index
		n = only + 1
	}
	for ci := 0; ci < n; ci++ {
		r := newRng(w.Spec.Seed, uint64(w.Spec.Shard)*1_000_003+uint64(ci)+15)
		g := &c15gen{r: r, scratch: scratch}
		c := g.gen()
		if only >= 0 && ci != only {
			continue
		}
		mutate := w.Spec.Kind == "mutated"
		// each abstract configuration is rendered twice with independent spellings
		for rep := 0; rep < 2; rep++ {
			m := c.render(r)
			errClass, errDetail := c.errClass, c.errDetail
			if errClass == "" && !mutate && r.IntN(4) == 0 {
				// a syntactically broken inline expression is bad configuration too (the parser is shared by all 'name!' keys of a
				// process: whatever state it keeps between calls, a broken expression must still be rejected the 100th time)
				var inl []string
				for k := range m {
					if strings.HasSuffix(k, "!") {
						inl = append(inl, k)
					}
				}
				sort.Strings(inl)
				if len(inl) > 0 {
					k := inl[r.IntN(len(inl))]
					v := strings.TrimRight(m[k], " \t\n")
					if strings.HasSuffix(v, "}") {
						switch r.IntN(3) {
						case 0:
							m[k] = v[:len(v)-1]
							errDetail = "inline expression without its closing brace"
						case 1:
							m[k] = v + "}"
							errDetail = "inline expression with a surplus closing brace"
						default:
							if i := strings.IndexByte(v, '{'); i >= 0 {
								m[k] = v[:i+1] + ",," + v[i+1:]
								errDetail = "inline expression starting with ',,'"
							}
						}
						if errDetail != "" {
							errClass = "malformed-inline"
						}
					}
				}
			}
			desc := ""
			if mutate {
				desc = c15mutate(r, m)
				// don't-care: a mutation may move a huge integer into an async buffer size; allocating a
				// multi-gigabyte queue is resource exhaustion, not something the statement speaks about
				for k, v := range m {
					lk := strings.ToLower(strings.NewReplacer("-", "", "_", "").Replace(k))
					if strings.HasSuffix(lk, "buffersize") || strings.Contains(v, "ufferSize") || strings.Contains(v, "uffer_size") {
						if strings.HasPrefix(strings.TrimSpace(v), "${") {
							m[k] = "1000" // the property behind it may have been mutated into a huge number
						} else if n, err := strconv.ParseInt(strings.TrimSpace(v), 0, 64); err == nil && n > 5000 {
							m[k] = "5000"
						} else if err != nil && (strings.Contains(v, "ufferSize") || strings.Contains(v, "uffer_size")) {
							delete(m, k) // inline expression carrying a buffer size: dropped from the mutated variant
							desc += " (inline logger expression removed)"
						}
					}
				}
			}
			cs := map[string]any{"index": ci, "rendering": rep, "config": m, "err_class": errClass, "err_detail": errDetail, "mutation": desc}
			w.Journal("C15 case %d/%d %v", ci, rep, m)
			probePublished = map[string]*VProbe{}
			var err error
			pv, st := catch(func() { err = log.Refresh(m) })
			w.Eval(1)
			if pv != nil {
				cls := errClass
				if cls == "" {
					cls = "valid"
				}
				if mutate {
					cls = "mutated"
				}
				w.Violate("C15:refresh-panic:"+cls, fmt.Sprintf("Refresh panicked (%s %s %s): %v\n%s", errClass, errDetail, desc, pv, trunc(st, 1500)), cs)
				catch(log.Destroy)
				continue
			}
			if mutate {
				// totality only
				if pv2, st2 := catch(log.Destroy); pv2 != nil {
					w.Violate("C15:destroy-panic:mutated", fmt.Sprintf("Destroy panicked after Refresh(err=%v): %v\n%s", err != nil, pv2, trunc(st2, 1200)), cs)
				}
				w.Distinct(fmt.Sprintf("mut|%s|err=%v", strings.SplitN(desc, " ", 2)[0], err != nil))
				continue
			}
			switch {
			case errClass == "buffer-too-small":
				// a lower bound on the queue size is the library's choice, not part of the statement: totality only
				w.Distinct("totality|buffer-too-small")
			case errClass != "" && err == nil:
				w.Violate("C15:error-not-reported:"+errClass, fmt.Sprintf("Refresh returned nil for a configuration with %s (%s)", errClass, errDetail), cs)
			case errClass == "" && err != nil:
				w.Violate("C15:valid-config-rejected", fmt.Sprintf("Refresh rejected a well-formed configuration: %s", trunc(err.Error(), 600)), cs)
			case errClass == "":
				if c.verify(w, cs) {
					types := map[string]bool{}
					for _, a := range c.appenders {
						types["a:"+a.spec.typ] = true
					}
					for _, l := range c.loggers {
						types["l:"+l.spec.typ] = true
					}
					var ts []string
					for t := range types {
						ts = append(ts, t)
					}
					sort.Strings(ts)
					inl := 0
					for k := range m {
						if strings.HasSuffix(k, "!") {
							inl++
						}
					}
					w.Distinct(fmt.Sprintf("ok|%s|inline=%v|props=%v", strings.Join(ts, ","), inl > 0, len(c.props) > 0))
					w.Count("plugins_value_checked", int64(len(c.appenders)+len(c.loggers)))
				}
			default:
				w.Distinct("err|" + errClass)
				w.Count("erroneous_configs_rejected", 1)
			}
			if pv2, st2 := catch(log.Destroy); pv2 != nil {
				w.Violate("C15:destroy-panic", fmt.Sprintf("Destroy panicked: %v\n%s", pv2, trunc(st2, 1200)), cs)
			}
			if ci < 1 && rep == 0 {
				w.Sample(map[string]any{"config": m, "err_class": errClass})
			}
		}
	}
}

// c15mutate applies one random key/value mutation (judged for totality only).
func c15mutate(r *rand.Rand, m map[string]string) string {
	keys := make([]string, 0, len(m))
	for k := range m {
		keys = append(keys, k)
	}
	sort.Strings(keys)
	if len(keys) == 0 {
		return "none"
	}
	k := keys[r.IntN(len(keys))]
	junk := []string{"", " ", "x", "0", "-1", "${", "${}", "${a.b}", "{}", "[]", "<nil>", "T{", "T{a=}", "T{a=b}", "9999999999999999999999", "\x00", "a.b", "[0]", "é", "true", "Logger", "File", "~", "INFO~", "*", "_*"}
	switch op := r.IntN(8); op {
	case 0:
		delete(m, k)
		return "delete-key " + k
	case 1:
		m[k] = junk[r.IntN(len(junk))]
		return fmt.Sprintf("junk-value %s=%q", k, m[k])
	case 2:
		nk := k + []string{".", "..x", "[", "[x]", "!", ".type", "[0]", "[1].type", ".a.b.c", " "}[r.IntN(10)]
		m[nk] = junk[r.IntN(len(junk))]
		return fmt.Sprintf("add-key %q", nk)
	case 3:
		v := m[k]
		delete(m, k)
		nk := k[:r.IntN(len(k)+1)]
		if nk != "" {
			m[nk] = v
		}
		return fmt.Sprintf("truncate-key %q->%q", k, nk)
	case 4:
		v := m[k]
		if i := strings.LastIndexByte(v, '/'); i >= 0 {
			// a directory below the worker's scratch directory: only its last component is cut, so that no
			// mutated configuration can make the library create files outside the scratch directory
			m[k] = v[:i+1+r.IntN(len(v)-i)]
		} else if len(v) > 0 {
			m[k] = v[:r.IntN(len(v))]
		}
		return fmt.Sprintf("truncate-value %s", k)
	case 5:
		m[strings.ToUpper(k)] = m[k]
		return "duplicate-upper " + k
	case 6:
		nk := []string{"appender", "logger", "appender.x", "logger.root", "logger.root.type", "appender.type", "logger.x.appenderRef", "logger.x.appenderRef[0]", "", "!", "a!", "appender!", "logger.lg0!"}[r.IntN(13)]
		m[nk] = junk[r.IntN(len(junk))]
		return fmt.Sprintf("structural-key %q=%q", nk, m[nk])
	default:
		// swap the values of two keys
		k2 := keys[r.IntN(len(keys))]
		m[k], m[k2] = m[k2], m[k]
		return "swap-values " + k + " " + k2
	}
}

func init() {
	register(&Prop{
		ID: "C15", Level: "exploration", MinDistinct: 40, Worker: c15Worker,
		Rule: "abstract configuration trees over all registered plugin types (appenders Discard, Console, File, RollingFile + recording and probe plugins; loggers Logger, AsyncLogger, Discard, Console, File, RollingFile; layouts; a probe carrying an attribute of every injectable kind/width and single, defaulted-list and optional-list elements) with each attribute independently configured or left to its default, 1/6 of the configured values routed through ${property}; " +
			"each tree is rendered twice to a flat map with per-key random spelling (camel/kebab/snake/Capitalised) and a per-plugin choice of flat keys vs an inline 'name!' expression. 2/5 of the trees carry one classified error (ill-typed or out-of-width value per kind, unknown plugin/layout type, missing required attribute/element, dangling reference, missing ${} target) and must be rejected (a bufferSize below 100 is generated too but judged for totality only); the others must be accepted and every injected field (read from the live plugins by reflection and from the probe) must equal configured-else-default. " +
			"A second worker kind applies one random key/value mutation to each rendering and judges totality only (returns, no panic, Destroy works). Non-trivial/distinct = distinct (set of plugin types, inline used, properties used) classes of accepted configurations + error classes rejected + (mutation operator, outcome) pairs.",
		Assumptions: []string{"conflicting duplicate spellings of one key, whitespace-padded values and plugin names containing '_'/'-' are not generated", "mutated variants never carry an async buffer size above 5000 (multi-gigabyte queue allocation is resource exhaustion, outside the statement)", "numeric values are rendered in decimal or 0x-hex only"},
		Run: func(d *D) {
			var specs []Spec
			for i := 0; i < 12; i++ {
				s := d.NewSpec("resolve", fmt.Sprintf("res-%d", i), i, 12)
				s.N = d.Pick(1500, 30000)
				specs = append(specs, s)
			}
			// mutated configurations may fail after loggers were started, which leaves them running (outside every
			// property's text): workers are kept short-lived so that this cannot exhaust the worker
			for i := 0; i < int(d.Pick(4, 32)); i++ {
				s := d.NewSpec("mutated", fmt.Sprintf("mut-%d", i), 50+i, 12)
				s.N = d.Pick(1500, 3000)
				specs = append(specs, s)
			}
			for i := 0; i < int(d.Pick(1, 4)); i++ {
				s := d.NewSpec("resolve", fmt.Sprintf("res-race-%d", i), 200+i, 12)
				s.N = d.Pick(300, 3000)
				s.Flavour = "race"
				specs = append(specs, s)
			}
			// element shapes / plugin definitions / global properties that the built-in plugins do not exercise (c15defs.go)
			for i := 0; i < int(d.Pick(2, 8)); i++ {
				s := d.NewSpec("defs", fmt.Sprintf("defs-%d", i), 100+i, 12)
				s.N = d.Pick(3000, 20000)
				specs = append(specs, s)
			}
			outs := d.RunWorkers(specs, 16)
			d.raceVerdict(outs)
		},
	})
}
