package main

// C06, worker kind "manydiscards": the appender is stalled (gate closed), the queue is full, and ONE goroutine submits tens
// of thousands of further items under a discard policy. Every one of those calls must return without waiting for the
// appender, whatever the discard counter has reached; after the gate is opened the delivered items must be exactly what
// the policy prescribes (Discard: the items accepted first; DiscardOldest: the newest ones), in submission order.

import (
	"fmt"
	"os"
	"strings"
	"time"

	log "github.com/go-spring/log"
)

func c06ManyDiscards(w *W) {
	registerMonitorPlugins()
	for ci, policy := range []string{"Discard", "DiscardOldest", "Discard", "DiscardOldest", "Discard", "DiscardOldest"} {
		layout := ci == 2 || ci == 3
		// the last two cases: the overflow consists of 1300 raw writes of 64 KiB each (more than 80 MiB dropped in total);
		// after the queue has drained, ten small items submitted one at a time to the empty buffer must all be delivered
		big := ci >= 4
		extra := 3*16384 + 77
		pad := ""
		if big {
			extra = 1300
			pad = strings.Repeat("P", 64<<10)
		}
		c := asyncCase{Policy: policy, Buf: 100, Producers: 1, Appender: "gated", Layout: layout}
		w.Journal("C06 manydiscards %+v", c)
		rec.take()
		l, sinkName, stop, err := buildAsync(c, "")
		if err != nil {
			w.Violate("C06:start-failed", err.Error(), c)
			continue
		}
		g := gateFor(sinkName)
		g.Open.Store(false)
		id := func(i int) string { return fmt.Sprintf("id-md%dx%d-%d", w.Spec.Shard, ci, i) }
		submit := func(i int) {
			if big && i > 100 && i <= 100+extra {
				l.Write([]byte("raw " + id(i) + "\n" + pad))
			} else if i%5 == 4 {
				l.Write([]byte("raw " + id(i) + "\n"))
			} else {
				appendEvent(l, log.InfoLevel, id(i))
			}
		}
		// item 0 is taken by the worker and parks in the appender; items 1..100 fill the queue
		submit(0)
		if _, ok := waitEntered(g, 20*time.Second); !ok {
			w.Inconclusive("manydiscards: the worker never reached the appender")
			continue
		}
		for i := 1; i <= 100; i++ {
			submit(i)
		}
		total := 100 + extra
		done, pv, _ := callWithWatchdog(20*time.Second, func() {
			c06producer(func() {
				for i := 101; i <= total; i++ {
					submit(i)
				}
			})
		})
		cs := map[string]any{"scenario": "many discards behind a stalled appender", "policy": policy, "layout": layout, "submitted_after_full": extra}
		if !done {
			k, gr := stuckInLibrary("c06producer")
			if k == "" {
				if in, g2 := stuckInAppender("c06producer"); in {
					k, gr = "running the appender itself", g2
				}
			}
			if k != "" {
				w.Violate("C06:call-waits-for-appender:"+policy, fmt.Sprintf("policy %s, queue full, worker parked inside the appender, discard counter %d: a log call does not return (%s)\n%s", policy, l.GetDiscardCounter(), k, trunc(gr, 1200)), cs)
			} else {
				w.Inconclusive("manydiscards: the producer did not finish")
			}
			w.flush()
			os.Exit(0)
		}
		if pv != nil {
			w.Violate("C06:log-call-panic", fmt.Sprintf("submit panicked: %v", pv), cs)
			continue
		}
		discarded := l.GetDiscardCounter()
		g.Open.Store(true)
		for i := 0; i < 8; i++ {
			g.Gate <- struct{}{}
		}
		tail := 0
		if big {
			t0 := time.Now()
			for rec.count() < 101 && time.Since(t0) < 30*time.Second {
				time.Sleep(100 * time.Microsecond)
			}
			for j := 1; j <= 10 && rec.count() >= 101; j++ {
				before := rec.count()
				submit(total + j)
				for t0 = time.Now(); rec.count() == before && l.GetDiscardCounter() == discarded && time.Since(t0) < 20*time.Second; {
					time.Sleep(50 * time.Microsecond)
				}
				if rec.count() == before {
					w.Violate("C06:stale-full:dropped-with-free-space:"+policy, fmt.Sprintf("after an overflow in which %d raw writes of 64 KiB were dropped and the queue had drained, %s - submitted to an empty buffer with an idle worker - was not delivered (discard counter %d -> %d)", extra, id(total+j), discarded, l.GetDiscardCounter()), cs)
					break
				}
				tail++
			}
		}
		if ok, pv, _ := callWithWatchdog(60*time.Second, stop); !ok || pv != nil {
			w.Inconclusive(fmt.Sprintf("manydiscards: Stop did not return / panicked (%v)", pv))
			continue
		}
		for len(g.Entered) > 0 {
			<-g.Entered
		}
		for len(g.Gate) > 0 {
			<-g.Gate
		}
		var got []string
		for _, it := range rec.take() {
			if it.Sink == sinkName {
				got = append(got, idOf(it.JSON))
			}
		}
		var want []string
		want = append(want, id(0))
		if policy == "Discard" {
			for i := 1; i <= 100; i++ {
				want = append(want, id(i))
			}
		} else {
			for i := total - 99; i <= total; i++ {
				want = append(want, id(i))
			}
		}
		for j := 1; j <= tail; j++ {
			want = append(want, id(total+j))
		}
		if big && tail < 10 {
			continue // already reported
		}
		w.Eval(1)
		ok := discarded == int64(extra) && len(got) == len(want)
		for i := 0; ok && i < len(want); i++ {
			ok = got[i] == want[i]
		}
		if !ok {
			show := func(s []string) string {
				if len(s) > 6 {
					return fmt.Sprintf("%v ... %v (%d items)", s[:3], s[len(s)-3:], len(s))
				}
				return fmt.Sprint(s)
			}
			w.Violate("C06:model:delivered-set:"+policy, fmt.Sprintf("policy %s after %d submissions behind a stalled appender: delivered %s, expected %s; discard counter %d, expected %d", policy, total+1, show(got), show(want), discarded, extra), cs)
			continue
		}
		w.Count("submissions_behind_stalled_appender", int64(total))
		w.Distinct(fmt.Sprintf("manydiscards|%s|layout=%v|big=%v", policy, layout, big))
	}
	w.Sample(map[string]any{"kind": "manydiscards", "submitted_after_full": 3*16384 + 77, "policies": "Discard, DiscardOldest, with and without a logger-level layout; plus 1300 raw writes of 64 KiB and ten small items after the drain"})
}
