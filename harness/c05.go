package main

// C05 — Stop/Destroy terminates and flushes everything accepted before it; no descriptor leaks.

import (
	"bytes"
	"context"
	"fmt"
	"io"
	"os"
	"path/filepath"
	"sort"
	"strings"
	"sync"
	"sync/atomic"
	"syscall"
	"time"

	log "github.com/go-spring/log"
)

func idsIn(b []byte) map[string]int {
	m := map[string]int{}
	for _, x := range idRe.FindAll(b, -1) {
		m[string(x)]++
	}
	return m
}

func readDirAll(dir string) []byte {
	var all []byte
	ents, _ := os.ReadDir(dir)
	for _, e := range ents {
		if !e.IsDir() {
			b, _ := os.ReadFile(filepath.Join(dir, e.Name()))
			all = append(all, b...)
		}
	}
	return all
}

// c05async: occupancy x policy x worker state at the moment of Stop; file sink behind a gate/slow appender.
func c05async(w *W, policy string, cap, k int, state string, layout bool, ci int, dir string) (string, string) {
	_ = os.MkdirAll(dir, 0755)
	fname := fmt.Sprintf("a%d.log", ci)
	fa := &log.FileAppender{AppenderBase: log.AppenderBase{Name: "file"}, Layout: &log.TextLayout{BaseLayout: log.BaseLayout{FileLineLength: 48}}, FileDir: dir, FileName: fname}
	if err := fa.Start(); err != nil {
		return "file appender start: " + err.Error(), "start"
	}
	asyncSeq++
	gname := fmt.Sprintf("g5x%d", asyncSeq)
	var first log.Appender
	switch state {
	case "idle":
		first = &VRec{AppenderBase: log.AppenderBase{Name: gname}}
	case "mid-append":
		first = &VGate{AppenderBase: log.AppenderBase{Name: gname}}
	case "slow":
		first = &VSlow{AppenderBase: log.AppenderBase{Name: gname}, DelayUS: 300}
	}
	all := log.LevelRange{MinLevel: log.NoneLevel, MaxLevel: log.MaxLevel}
	pol := map[string]log.BufferFullPolicy{"Block": log.BufferFullPolicyBlock, "Discard": log.BufferFullPolicyDiscard, "DiscardOldest": log.BufferFullPolicyDiscardOldest}[policy]
	l := &log.AsyncLogger{LoggerBase: log.LoggerBase{Name: "c05", Level: all}, BufferSize: cap, BufferFullPolicy: pol,
		AppenderRefs: log.AppenderRefs{AppenderRefs: []*log.AppenderRef{{Appender: first, Level: all}, {Appender: fa, Level: all}}}}
	if layout {
		l.Layout = &log.JSONLayout{BaseLayout: log.BaseLayout{FileLineLength: 48}}
	}
	if err := l.Start(); err != nil {
		return "async start: " + err.Error(), "start"
	}
	g := gateFor(gname)
	g.Open.Store(state != "mid-append")
	m := &c06model{cap: cap, policy: policy}
	n := 0
	submit := func() {
		n++
		id := fmt.Sprintf("id-s%dx%d-%d", w.Spec.Shard, ci, n)
		if state == "mid-append" {
			if m.add(id) {
				panic("harness: would park")
			}
		} else {
			m.delivered = append(m.delivered, id) // free-running worker: everything accepted is delivered (no overflow below)
		}
		if n%4 == 0 {
			l.Write([]byte("raw " + id + "\n"))
		} else if n%9 == 5 && state != "mid-append" && n < cap/2 && k <= cap-10 {
			// a zero-length raw write ahead of the item (free-running worker; it takes a slot for a moment, which is why it
			// is not used where the occupancy is counted exactly): an item like any other - whatever follows it is still flushed
			if n%2 == 0 {
				l.Write(nil)
			} else {
				l.Write([]byte{})
			}
			appendEvent(l, log.WarnLevel, id)
		} else {
			appendEvent(l, log.WarnLevel, id)
		}
	}
	if state == "mid-append" {
		submit() // item in flight
		if _, ok := waitEntered(g, 20*time.Second); !ok {
			return "worker did not take the first item", "worker-idle"
		}
		for i := 0; i < k; i++ {
			submit()
		}
		if k == cap && policy != "Block" {
			submit() // one more into the full buffer: dropped by policy, not accepted / evicts the oldest
		}
	} else {
		for i := 0; i < k && i < cap; i++ { // never more than cap in a burst, so nothing overflows even if the worker is slow
			submit()
		}
	}
	counterBefore := l.GetDiscardCounter()
	if state != "mid-append" && counterBefore != 0 {
		return "unexpected discard in a burst not larger than the buffer", "harness"
	}
	stopDone := make(chan any, 1)
	go func() {
		defer func() { stopDone <- recover() }()
		watchdogMarker(l.Stop)
	}()
	if state == "mid-append" {
		time.Sleep(200 * time.Microsecond)
		m.drain()
		g.Open.Store(true)
		for i := 0; i < 4; i++ {
			g.Gate <- struct{}{}
		}
	}
	select {
	case pv := <-stopDone:
		if pv != nil {
			return fmt.Sprintf("Stop panicked: %v", pv), "stop-panic"
		}
	case <-time.After(30 * time.Second):
		dump := goroutineDump()
		if blocked, gr := blockedInLibrary(dump, "watchdogMarker"); blocked {
			return "Stop does not return although no log call is in progress and the appender is free to run; parked goroutine:\n" + trunc(gr, 1200), "stop-hangs"
		}
		return "watchdog fired but Stop is not parked in the library", "inconclusive"
	}
	// Stop returned: immediately read the sink
	b, _ := os.ReadFile(filepath.Join(dir, fname))
	fa.Stop()
	for len(g.Entered) > 0 {
		<-g.Entered
	}
	for len(g.Gate) > 0 {
		<-g.Gate
	}
	rec.take()
	got := idsIn(b)
	for _, id := range m.delivered {
		if got[id] != 1 {
			return fmt.Sprintf("%s was accepted before Stop but is in the target file %d times right after Stop returned (accepted %d, in file %d, discard counter %d)", id, got[id], len(m.delivered), len(got), l.GetDiscardCounter()), "not-flushed"
		}
		delete(got, id)
	}
	if len(got) != 0 {
		return fmt.Sprintf("%d ids in the file were not accepted (e.g. discarded by policy): %v", len(got), firstKeys(got, 3)), "ghost"
	}
	if l.GetDiscardCounter() != m.counter {
		return fmt.Sprintf("discard counter %d, model %d", l.GetDiscardCounter(), m.counter), "counter"
	}
	if fds := fdsInto(dir); len(fds) != 0 {
		return fmt.Sprintf("descriptors still open after Stop: %v", fds), "fd-leak"
	}
	if ci%3 == 0 {
		// second life of the very same logger object: Start again, accept a burst no larger than the buffer, Stop - the
		// flush guarantee is per Stop call, whatever the object went through before
		if err := fa.Start(); err != nil {
			return "file appender restart: " + err.Error(), "start"
		}
		if err := l.Start(); err != nil {
			return "async restart: " + err.Error(), "start"
		}
		g.Open.Store(true)
		var second []string
		for i := 0; i < k+1 && i < cap; i++ {
			id := fmt.Sprintf("id-r%dx%d-%d", w.Spec.Shard, ci, i)
			second = append(second, id)
			if i%4 == 1 {
				l.Write([]byte("raw " + id + "\n"))
			} else {
				appendEvent(l, log.ErrorLevel, id)
			}
		}
		done, pv, dump := callWithWatchdog(30*time.Second, l.Stop)
		if !done {
			if blocked, gr := blockedInLibrary(dump, "watchdogMarker"); blocked {
				return "second Stop of a restarted logger does not return; parked goroutine:\n" + trunc(gr, 1200), "stop-hangs"
			}
			return "watchdog fired but the second Stop is not parked in the library", "inconclusive"
		}
		if pv != nil {
			return fmt.Sprintf("second Stop of a restarted logger panicked: %v", pv), "stop-panic"
		}
		b2, _ := os.ReadFile(filepath.Join(dir, fname))
		fa.Stop()
		for len(g.Entered) > 0 {
			<-g.Entered
		}
		rec.take()
		got2 := idsIn(b2)
		for _, id := range second {
			if got2[id] != 1 {
				return fmt.Sprintf("restarted logger: %s was accepted before the second Stop but is in the target file %d times right after it returned (%d accepted in this life)", id, got2[id], len(second)), "not-flushed-second-life"
			}
		}
		if l.GetDiscardCounter() != m.counter {
			return fmt.Sprintf("restarted logger: discard counter %d, model %d", l.GetDiscardCounter(), m.counter), "counter"
		}
		if fds := fdsInto(dir); len(fds) != 0 {
			return fmt.Sprintf("descriptors still open after the second Stop: %v", fds), "fd-leak"
		}
	}
	_ = os.Remove(filepath.Join(dir, fname))
	return "", ""
}

func firstKeys(m map[string]int, n int) []string {
	var ks []string
	for k := range m {
		ks = append(ks, k)
	}
	sort.Strings(ks)
	return firstN(ks, n)
}

// c05destroy: whole-system Destroy for every logger kind reachable through Refresh.
func c05destroy(w *W, kind string, n int, ci int, dir string, console *chunkSink, tag *log.Tag) (string, string) {
	_ = os.RemoveAll(dir)
	_ = os.MkdirAll(dir, 0755)
	cfg := map[string]string{"appender.u.type": "Discard", "logger.lg.tags": "c05tag"}
	target := "dir"
	if strings.HasPrefix(kind, "root-") {
		// the events are served by the configured root logger (no logger lists the tag)
		delete(cfg, "logger.lg.tags")
		switch kind {
		case "root-async-file":
			cfg["appender.f.type"], cfg["appender.f.fileDir"], cfg["appender.f.fileName"] = "File", dir, "x.log"
			cfg["logger.root.type"], cfg["logger.root.appenderRef.ref"], cfg["logger.root.bufferFullPolicy"] = "AsyncLogger", "f", "Block"
		case "root-rolling-async":
			cfg["logger.root.type"], cfg["logger.root.fileDir"], cfg["logger.root.fileName"], cfg["logger.root.rotation"] = "RollingFile", dir, "x.log", "h"
			cfg["logger.root.async"], cfg["logger.root.bufferFullPolicy"] = "true", "Block"
		case "root-file-logger":
			cfg["logger.root.type"], cfg["logger.root.fileDir"], cfg["logger.root.fileName"] = "File", dir, "x.log"
		}
	}
	switch kind {
	case "async-file", "async-file-discard-policy":
		cfg["appender.f.type"], cfg["appender.f.fileDir"], cfg["appender.f.fileName"] = "File", dir, "x.log"
		cfg["logger.lg.type"], cfg["logger.lg.appenderRef.ref"], cfg["logger.lg.bufferFullPolicy"] = "AsyncLogger", "f", "Block"
		if kind == "async-file-discard-policy" {
			cfg["logger.lg.bufferFullPolicy"] = "Discard"
			cfg["logger.lg.bufferSize"] = fmt.Sprint(n + 100)
		}
	case "async-slow-backlog":
		// seconds of queued work at the moment of Destroy: a slow appender ahead of the file appender
		cfg["appender.s.type"], cfg["appender.s.delayUs"] = "VSlow", "5000"
		cfg["appender.f.type"], cfg["appender.f.fileDir"], cfg["appender.f.fileName"] = "File", dir, "x.log"
		cfg["logger.lg.type"], cfg["logger.lg.bufferFullPolicy"], cfg["logger.lg.bufferSize"] = "AsyncLogger", "Block", "5000"
		cfg["logger.lg.appenderRef[0].ref"], cfg["logger.lg.appenderRef[1].ref"] = "s", "f"
	case "async-console":
		cfg["appender.c.type"] = "Console"
		cfg["logger.lg.type"], cfg["logger.lg.appenderRef.ref"], cfg["logger.lg.bufferFullPolicy"] = "AsyncLogger", "c", "Block"
		target = "console"
	case "sync-file":
		cfg["appender.f.type"], cfg["appender.f.fileDir"], cfg["appender.f.fileName"] = "File", dir, "x.log"
		cfg["logger.lg.type"], cfg["logger.lg.appenderRef.ref"] = "Logger", "f"
	case "sync-rollingappender":
		cfg["appender.f.type"], cfg["appender.f.fileDir"], cfg["appender.f.fileName"], cfg["appender.f.rotation"], cfg["appender.f.maxAge"] = "RollingFile", dir, "x.log", "h", "24"
		cfg["logger.lg.type"], cfg["logger.lg.appenderRef.ref"] = "Logger", "f"
	case "file-logger":
		cfg["logger.lg.type"], cfg["logger.lg.fileDir"], cfg["logger.lg.fileName"] = "File", dir, "x.log"
	case "console-logger":
		cfg["logger.lg.type"] = "Console"
		target = "console"
	case "discard-logger":
		cfg["logger.lg.type"] = "Discard"
		target = "none"
	case "rolling-sync", "rolling-sync-separate", "rolling-async", "rolling-async-separate", "rolling-async-layout", "rolling-async-discardoldest":
		cfg["logger.lg.type"], cfg["logger.lg.fileDir"], cfg["logger.lg.fileName"], cfg["logger.lg.rotation"] = "RollingFile", dir, "x.log", "h"
		if strings.Contains(kind, "separate") {
			cfg["logger.lg.separate"] = "true"
		}
		if strings.Contains(kind, "async") {
			cfg["logger.lg.async"] = "true"
			cfg["logger.lg.bufferFullPolicy"] = "Block"
			if strings.Contains(kind, "discardoldest") {
				cfg["logger.lg.bufferFullPolicy"] = "DiscardOldest"
				cfg["logger.lg.bufferSize"] = fmt.Sprint(n + 100)
			}
		}
		if strings.Contains(kind, "layout") {
			cfg["logger.lg.layout.type"] = "JSONLayout"
		}
	}
	console.take()
	if err := log.Refresh(cfg); err != nil {
		log.Destroy()
		return "Refresh failed: " + err.Error(), "refresh"
	}
	ctx := context.Background()
	var ids []string
	pvLog, st := catch(func() {
		for i := 0; i < n; i++ {
			id := fmt.Sprintf("id-d%dx%d-%d", w.Spec.Shard, ci, i)
			ids = append(ids, id)
			switch i % 3 {
			case 0:
				log.Info(ctx, tag, log.Msg(id))
			case 1:
				log.Errorf(ctx, tag, "%s", id)
			default:
				log.Warn(ctx, tag, log.Msg(id), log.Int("i", i))
			}
		}
	})
	if pvLog != nil {
		catch(log.Destroy)
		return fmt.Sprintf("log call panicked: %v\n%s", pvLog, trunc(st, 800)), "log-panic"
	}
	ok, pv, dump := callWithWatchdog(time.Duration(30+n/20)*time.Second, log.Destroy)
	if !ok {
		if blocked, gr := blockedInLibrary(dump, "watchdogMarker"); blocked {
			return "Destroy does not return; parked goroutine:\n" + trunc(gr, 1200), "destroy-hangs"
		}
		return "watchdog fired during Destroy", "inconclusive"
	}
	if pv != nil {
		return fmt.Sprintf("Destroy panicked: %v", pv), "destroy-panic"
	}
	var b []byte
	switch target {
	case "dir":
		b = readDirAll(dir)
	case "console":
		for _, ch := range console.take() {
			b = append(b, ch...)
		}
	}
	if target != "none" {
		got := idsIn(b)
		for _, id := range ids {
			if got[id] != 1 {
				return fmt.Sprintf("%s was logged before Destroy but is readable %d times from the target right after Destroy returned (%d of %d ids present)", id, got[id], len(got), len(ids)), "not-flushed"
			}
		}
	}
	if fds := fdsInto(dir); len(fds) != 0 {
		return fmt.Sprintf("descriptors still open after Destroy: %v", fds), "fd-leak"
	}
	return "", ""
}

// c05rollfds: a running rolling appender must not accumulate descriptors (<= 2 at quiescent points, 0 after Stop).
func c05rollfds(w *W, writers, boundaries int, ci int, dir string) (string, string) {
	_ = os.RemoveAll(dir)
	_ = os.MkdirAll(dir, 0755)
	ap := &log.RollingFileAppender{AppenderBase: log.AppenderBase{Name: "roll"}, Layout: &log.TextLayout{}, FileDir: dir, FileName: "r.log", Rotation: log.TimeRotation{Interval: time.Second}, MaxAge: 24}
	// widen the window in which several writers see the same expired interval: a small barrier at the check
	var arrive atomic.Int32
	y := &yielder{}
	log.VerifPointFn = func(name string) {
		y.fn(name)
		if name == "roll.rotate.checked" {
			arrive.Add(1)
			t0 := time.Now()
			for arrive.Load() < int32(writers) && time.Since(t0) < 3*time.Millisecond {
				time.Sleep(50 * time.Microsecond)
			}
		}
	}
	defer func() { log.VerifPointFn = nil }()
	if err := ap.Start(); err != nil {
		return "start: " + err.Error(), "start"
	}
	maxFds := 0
	for b := 0; b < boundaries; b++ {
		// sleep until just before the next second boundary, then let all writers cross it together
		now := time.Now()
		next := now.Truncate(time.Second).Add(time.Second)
		time.Sleep(next.Sub(now) - 2*time.Millisecond)
		arrive.Store(0)
		var wg sync.WaitGroup
		for g := 0; g < writers; g++ {
			wg.Add(1)
			go func(g int) {
				defer wg.Done()
				for i := 0; i < 30; i++ {
					ap.Write([]byte(fmt.Sprintf("id-f%dx%d-%d\n", g, ci, b*1000+i)))
					time.Sleep(200 * time.Microsecond)
				}
			}(g)
		}
		wg.Wait()
		// quiescent point
		fds := fdsInto(dir)
		if len(fds) > maxFds {
			maxFds = len(fds)
		}
		if len(fds) > 2 {
			ap.Stop()
			return fmt.Sprintf("%d descriptors into the log directory at a quiescent point after boundary %d (writers=%d): %v", len(fds), b, writers, fds), "fd-accumulation"
		}
	}
	ap.Stop()
	if pv, _ := catch(ap.Stop); pv != nil {
		return fmt.Sprintf("second Stop panicked: %v", pv), "double-stop"
	}
	if fds := fdsInto(dir); len(fds) != 0 {
		return fmt.Sprintf("descriptors still open after Stop: %v", fds), "fd-leak"
	}
	w.CountMax("max_fds_at_quiescent_points", int64(maxFds))
	w.Count("rotations_hit", y.counts()["roll.rotate.cas"])
	w.Count("rotation_checks_passed", y.counts()["roll.rotate.checked"])
	return "", ""
}

// c05rollfdsSeq: one goroutine, one write at a time. The moment a write that performed a rotation has returned, no write is
// in progress: the appender holds at most two descriptors (current + previous) - whatever it may still be tidying up in the
// background - and right after Stop none. The same object is then started again and must behave the same way.
func c05rollfdsSeq(w *W, boundaries int, ci int, dir string) (string, string) {
	_ = os.RemoveAll(dir)
	_ = os.MkdirAll(dir, 0755)
	ap := &log.RollingFileAppender{AppenderBase: log.AppenderBase{Name: "roll"}, Layout: &log.TextLayout{}, FileDir: dir, FileName: "q.log", Rotation: log.TimeRotation{Interval: time.Second}, MaxAge: 24}
	maxFds, n := 0, 0
	for life := 0; life < 2; life++ {
		if err := ap.Start(); err != nil {
			return "start: " + err.Error(), "start"
		}
		for b := 0; b < boundaries; b++ {
			now := time.Now()
			time.Sleep(now.Truncate(time.Second).Add(time.Second + time.Millisecond).Sub(now))
			n++
			ap.Write([]byte(fmt.Sprintf("id-q%dx%d-%d first write of the interval\n", ci, life, n)))
			fds := fdsInto(dir) // taken at once: the rotating write has just returned
			if len(fds) > maxFds {
				maxFds = len(fds)
			}
			if len(fds) > 2 {
				ap.Stop()
				return fmt.Sprintf("%d descriptors into the log directory right after the write that rotated at boundary %d of life %d returned (single writer, nothing in progress): %v", len(fds), b, life, fds), "fd-accumulation-after-rotating-write"
			}
			for i := 0; i < 3; i++ {
				n++
				ap.Write([]byte(fmt.Sprintf("id-q%dx%d-%d\n", ci, life, n)))
			}
		}
		if life == 0 {
			// stop right after a rotating write
			now := time.Now()
			time.Sleep(now.Truncate(time.Second).Add(time.Second + time.Millisecond).Sub(now))
			n++
			ap.Write([]byte(fmt.Sprintf("id-q%dx%d-%d\n", ci, life, n)))
		}
		ap.Stop()
		if fds := fdsInto(dir); len(fds) != 0 {
			return fmt.Sprintf("descriptors still open right after Stop (life %d): %v", life, fds), "fd-leak"
		}
	}
	got := idsIn(readDirAll(dir))
	if len(got) != n {
		return fmt.Sprintf("%d lines written one at a time over two lives of one appender, %d distinct ids in the directory", n, len(got)), "lost-write-sequential"
	}
	w.CountMax("max_fds_right_after_a_rotating_write", int64(maxFds))
	return "", ""
}

// c05outageFds: the log directory disappears across a boundary (the rotation fails), comes back, and the
// appender is stopped: no descriptor of the stopped appender may remain, whatever happened in between.
func c05outageFds(w *W, ci int, dir string, restore bool) (string, string) {
	_ = os.RemoveAll(dir)
	away := dir + ".away"
	_ = os.RemoveAll(away)
	_ = os.MkdirAll(dir, 0755)
	defer os.RemoveAll(away)
	ap := &log.RollingFileAppender{AppenderBase: log.AppenderBase{Name: "roll"}, Layout: &log.TextLayout{}, FileDir: dir, FileName: "o.log", Rotation: log.TimeRotation{Interval: time.Second}, MaxAge: 24}
	if err := ap.Start(); err != nil {
		return "start: " + err.Error(), "start"
	}
	nw := 0
	written := map[string]bool{}
	write := func(d time.Duration) {
		for t0 := time.Now(); time.Since(t0) < d; {
			nw++
			id := fmt.Sprintf("id-o%dx%d-%d", ci, nw%7, nw)
			ap.Write([]byte(id + " line\n"))
			written[id] = true
			time.Sleep(2 * time.Millisecond)
		}
	}
	write(1100 * time.Millisecond) // one healthy rotation first: a previous-rotation file exists
	if err := os.Rename(dir, away); err != nil {
		ap.Stop()
		return "rename: " + err.Error(), "inconclusive"
	}
	write(2200 * time.Millisecond) // two boundaries fail
	if restore {
		_ = os.Rename(away, dir)
		write(1100 * time.Millisecond)
	}
	ap.Stop()
	fds := append(fdsInto(dir), fdsInto(away)...)
	if len(fds) != 0 {
		return fmt.Sprintf("descriptors of the stopped appender are still open after rotations failed (directory away, restored=%v): %v", restore, fds), "fd-leak-after-failed-rotation"
	}
	// everything written before Stop is readable from the files (they are in `away` if never restored)
	got := idsIn(append(readDirAll(dir), readDirAll(away)...))
	for id := range written {
		if got[id] != 1 {
			return fmt.Sprintf("%s was written before Stop but is in the files %d times (rotations failed across two boundaries, restored=%v; %d of %d present)", id, got[id], restore, len(got), len(written)), "lost-after-failed-rotations"
		}
	}
	return "", ""
}

// c05startFailure: a RollingFileLogger whose Start fails half-way (files opened, inner async logger refuses its
// buffer size) is stopped: nothing may stay open.
func c05startFailure(dir string) (string, string) {
	_ = os.RemoveAll(dir)
	_ = os.MkdirAll(dir, 0755)
	for _, sep := range []bool{false, true} {
		l := &log.RollingFileLogger{LoggerBase: log.LoggerBase{Name: "sf", Level: log.LevelRange{MinLevel: log.NoneLevel, MaxLevel: log.MaxLevel}}, FileDir: dir, FileName: "sf.log",
			Rotation: log.TimeRotation{Interval: time.Hour}, MaxAge: 1, Separate: sep, AsyncWrite: true, BufferSize: 50, BufferFullPolicy: log.BufferFullPolicyBlock}
		err := l.Start()
		if err == nil {
			l.Stop()
			continue // a buffer of 50 was accepted: nothing to observe here
		}
		if pv, _ := catch(l.Stop); pv != nil {
			return fmt.Sprintf("Stop after a failed Start panicked: %v", pv), "stop-after-failed-start-panics"
		}
		if fds := fdsInto(dir); len(fds) != 0 {
			return fmt.Sprintf("Start failed (%v) after the files had been opened, Stop was called, but descriptors remain: %v", err, fds), "fd-leak-after-failed-start"
		}
	}
	return "", ""
}

// c05stalledRotator: the goroutine that won a rotation is stalled for more than one whole interval between
// claiming the rotation and swapping the files, while another writer keeps writing and performs the next
// rotation; afterwards the appender must still hold at most two descriptors at rest and none after Stop,
// and nothing written may be lost.
func c05stalledRotator(w *W, ci int, dir string, point string) (string, string) {
	_ = os.RemoveAll(dir)
	_ = os.MkdirAll(dir, 0755)
	interval := time.Second
	ap := &log.RollingFileAppender{AppenderBase: log.AppenderBase{Name: "roll"}, Layout: &log.TextLayout{}, FileDir: dir, FileName: "sr.log", Rotation: log.TimeRotation{Interval: interval}, MaxAge: 24}
	var armed, stalled atomic.Bool
	log.VerifPointFn = func(name string) {
		if name == point && armed.CompareAndSwap(true, false) {
			stalled.Store(true)
			time.Sleep(interval + 400*time.Millisecond)
		}
	}
	defer func() { log.VerifPointFn = nil }()
	if err := ap.Start(); err != nil {
		return "start: " + err.Error(), "start"
	}
	armed.Store(true)
	stopAt := time.Now().Truncate(interval).Add(4*interval + 300*time.Millisecond)
	var wg sync.WaitGroup
	var mu sync.Mutex
	written := map[string]bool{}
	for g := 0; g < 2; g++ {
		wg.Add(1)
		go func(g int) {
			defer wg.Done()
			for i := 0; time.Now().Before(stopAt); i++ {
				id := fmt.Sprintf("id-r%dx%d-%d", g, ci, i)
				ap.Write([]byte(id + "\n"))
				mu.Lock()
				written[id] = true
				mu.Unlock()
				time.Sleep(300 * time.Microsecond)
			}
		}(g)
	}
	wg.Wait()
	if !stalled.Load() {
		ap.Stop()
		return "the rotator was never stalled", "inconclusive"
	}
	fds := fdsInto(dir)
	if len(fds) > 2 {
		ap.Stop()
		return fmt.Sprintf("%d descriptors into the log directory while no write is in progress, after a rotator was overtaken by the next rotation: %v", len(fds), fds), "fd-accumulation-stalled-rotator"
	}
	ap.Stop()
	if fds := fdsInto(dir); len(fds) != 0 {
		return fmt.Sprintf("descriptors still open after Stop (a rotator was overtaken by the next rotation): %v", fds), "fd-leak-stalled-rotator"
	}
	got := idsIn(readDirAll(dir))
	for id := range written {
		if got[id] != 1 {
			return fmt.Sprintf("%s is in the files %d times after a rotator was overtaken by the next rotation", id, got[id]), "lost-write-stalled-rotator"
		}
	}
	return "", ""
}

func c05Worker(w *W) {
	registerMonitorPlugins()
	tag := log.RegisterTag("c05tag")
	console := &chunkSink{}
	log.Stdout = console
	dir := filepath.Join(w.Spec.Dir, w.Spec.Name+".d")
	defer os.RemoveAll(dir)
	r := w.Rng()
	ci := 0
	report := func(key, desc string, cs any) {
		if strings.HasSuffix(key, "inconclusive") {
			w.Inconclusive(desc)
			return
		}
		w.Violate("C05:"+key, desc, cs)
	}
	switch w.Spec.Kind {
	case "async":
		for _, policy := range []string{"Block", "Discard", "DiscardOldest"} {
			for _, cap := range []int{100, 101} {
				occ := []int{0, 1, cap / 2, cap - 1, cap, 2 + r.IntN(cap-3), 2 + r.IntN(cap-3)}
				if w.Spec.Tier == "thorough" {
					// every buffer occupancy 0..capacity at the moment of Stop, as the property's quantifier says
					occ = occ[:0]
					for k := 0; k <= cap; k++ {
						occ = append(occ, k)
					}
				}
				for _, k := range occ {
					for _, state := range []string{"idle", "mid-append", "slow"} {
						ci++
						if ci%w.Spec.NShards != w.Spec.Shard {
							continue
						}
						layout := ci%3 == 0
						cs := map[string]any{"policy": policy, "cap": cap, "occupancy": k, "worker": state, "layout": layout}
						w.Journal("async %v", cs)
						d, cls := c05async(w, policy, cap, k, state, layout, ci, dir)
						w.Eval(1)
						if d != "" {
							report("async:"+cls, fmt.Sprintf("policy %s, buffer %d, occupancy %d, worker %s: %s", policy, cap, k, state, d), cs)
						} else {
							w.Distinct(fmt.Sprintf("async|%s|cap%d|occ%d|%s", policy, cap, k, state))
							if ci == w.Spec.Shard+w.Spec.NShards {
								w.Sample(cs)
							}
						}
					}
				}
			}
		}
	case "destroy":
		kinds := []string{"async-file", "async-file-discard-policy", "async-console", "sync-file", "sync-rollingappender", "file-logger", "console-logger", "discard-logger",
			"rolling-sync", "rolling-sync-separate", "rolling-async", "rolling-async-separate", "rolling-async-layout", "rolling-async-discardoldest",
			"root-async-file", "root-rolling-async", "root-file-logger", "async-slow-backlog"}
		for rep := 0; rep < int(w.Spec.N); rep++ {
			for _, kind := range kinds {
				ci++
				if ci%w.Spec.NShards != w.Spec.Shard {
					continue
				}
				n := []int{0, 1, 50, 400, 3000}[r.IntN(5)]
				if kind == "async-slow-backlog" {
					if rep > 0 {
						continue
					}
					n = int(w.ArgInt("backlog_items", 1300))
				}
				cs := map[string]any{"logger_kind": kind, "events": n}
				w.Journal("destroy %v", cs)
				d, cls := c05destroy(w, kind, n, ci, dir, console, tag)
				w.Eval(1)
				if d != "" {
					report("destroy:"+cls+":"+kind, fmt.Sprintf("logger kind %s, %d events: %s", kind, n, d), cs)
				} else {
					w.Distinct(fmt.Sprintf("destroy|%s|n%d", kind, n))
					if rep == 0 && kind == "rolling-async" {
						w.Sample(cs)
					}
				}
			}
		}
	case "rollfds":
		writers := w.ArgInt("writers", 4)
		d, cls := c05rollfds(w, writers, int(w.Spec.N), w.Spec.Shard, dir)
		w.Eval(1)
		cs := map[string]any{"writers": writers, "boundaries": w.Spec.N}
		if d != "" {
			report("rolling:"+cls, d, cs)
		} else {
			w.Distinct(fmt.Sprintf("rollfds|w%d|b%d|%s", writers, w.Spec.N, w.Spec.Flavour))
			w.Sample(cs)
		}
	case "rollfdsseq":
		d, cls := c05rollfdsSeq(w, int(w.Spec.N), w.Spec.Shard, dir)
		w.Eval(1)
		cs := map[string]any{"scenario": "single writer, descriptors counted right after each rotating write and right after Stop, two lives of one appender", "env": w.Spec.Env}
		if d != "" {
			report("rolling:"+cls, d, cs)
		} else {
			w.Distinct(fmt.Sprintf("rollfdsseq|%v", w.Spec.Env))
			w.Sample(cs)
		}
	case "outagefds":
		restore := w.Arg("restore", "true") == "true"
		d, cls := c05outageFds(w, w.Spec.Shard, dir, restore)
		w.Eval(1)
		if d != "" {
			report("rolling:"+cls, d, map[string]any{"scenario": "directory away across two boundaries, then Stop", "restored": restore})
		} else {
			w.Distinct(fmt.Sprintf("outagefds|restore=%v", restore))
			w.Sample(map[string]any{"scenario": "directory away across two boundaries, then Stop", "restored": restore})
		}
	case "stalledrotator":
		point := w.Arg("point", "roll.rotate.cas")
		d, cls := c05stalledRotator(w, w.Spec.Shard, dir, point)
		w.Eval(1)
		if d != "" {
			report("rolling:"+cls, d, map[string]any{"scenario": "stalled rotator", "stalled_at": point})
		} else {
			w.Distinct("stalledrotator|" + point + "|" + w.Spec.Flavour)
			w.Sample(map[string]any{"scenario": "rotator stalled 1.4 intervals at " + point + ", overtaken by the next rotation"})
		}
	case "doublestop":
		if d, cls := c05startFailure(filepath.Join(dir, "sf")); d != "" {
			w.Violate("C05:rolling:"+cls, d, map[string]any{"scenario": "RollingFileLogger.Start fails half-way, then Stop"})
		} else {
			w.Distinct("start-failure-then-stop")
		}
		w.Eval(1)
		mk := map[string]func() log.Appender{
			"Discard": func() log.Appender { return &log.DiscardAppender{} },
			"Console": func() log.Appender { return &log.ConsoleAppender{Layout: &log.TextLayout{}} },
			"File": func() log.Appender {
				return &log.FileAppender{Layout: &log.TextLayout{}, FileDir: dir, FileName: "ds.log"}
			},
			"RollingFile": func() log.Appender {
				return &log.RollingFileAppender{Layout: &log.TextLayout{}, FileDir: dir, FileName: "dsr.log", Rotation: log.TimeRotation{Interval: time.Hour}, MaxAge: 1}
			},
		}
		_ = os.MkdirAll(dir, 0755)
		for name, f := range mk {
			for _, started := range []bool{true, false} {
				for _, wrote := range []bool{true, false} {
					a := f()
					cs := map[string]any{"appender": name, "started": started, "wrote": wrote}
					pv, st := catch(func() {
						if started {
							if err := a.Start(); err != nil {
								panic("start failed: " + err.Error())
							}
						}
						if wrote {
							a.Write([]byte("id-x1-1\n"))
						}
						a.Stop()
						a.Stop()
					})
					w.Eval(1)
					if pv != nil {
						w.Violate("C05:double-stop:"+name, fmt.Sprintf("%s appender (started=%v wrote=%v): Stop/Stop panicked: %v\n%s", name, started, wrote, pv, trunc(st, 600)), cs)
					} else if fds := fdsInto(dir); len(fds) != 0 {
						w.Violate("C05:fd-leak:"+name, fmt.Sprintf("%s appender: descriptors open after Stop: %v", name, fds), cs)
					} else {
						w.Distinct(fmt.Sprintf("doublestop|%s|%v|%v", name, started, wrote))
					}
				}
			}
		}
		// Stop, then Start again on the very same File / RollingFile appender object (a reopen, e.g. after an external rename of
		// the file): what is written in the second life is in the file the second Start opened
		for name, f := range mk {
			if name != "File" && name != "RollingFile" {
				continue
			}
			rd := filepath.Join(dir, "reopen"+name)
			_ = os.RemoveAll(rd)
			_ = os.MkdirAll(rd, 0755)
			var a log.Appender
			if name == "File" {
				a = &log.FileAppender{Layout: &log.TextLayout{}, FileDir: rd, FileName: "ro.log"}
			} else {
				a = &log.RollingFileAppender{Layout: &log.TextLayout{}, FileDir: rd, FileName: "ro.log", Rotation: log.TimeRotation{Interval: time.Hour}, MaxAge: 24}
			}
			_ = f
			cs := map[string]any{"scenario": "Start, write, Stop, (file renamed aside), Start, write, Stop on one appender object", "appender": name}
			bad := ""
			for life := 0; life < 3 && bad == ""; life++ {
				if err := a.Start(); err != nil {
					bad = fmt.Sprintf("life %d: Start failed: %v", life, err)
					break
				}
				for i := 0; i < 5; i++ {
					a.Write([]byte(fmt.Sprintf("id-ro%d-%d line\n", life, i)))
				}
				a.Stop()
				got := idsIn(readDirAll(rd))
				for l2 := 0; l2 <= life; l2++ {
					for i := 0; i < 5; i++ {
						if got[fmt.Sprintf("id-ro%d-%d", l2, i)] != 1 {
							bad = fmt.Sprintf("after life %d: id-ro%d-%d is in the directory %d times", life, l2, i, got[fmt.Sprintf("id-ro%d-%d", l2, i)])
						}
					}
				}
				if fds := fdsInto(rd); bad == "" && len(fds) != 0 {
					bad = fmt.Sprintf("after life %d: descriptors still open: %v", life, fds)
				}
				if name == "File" && life == 0 {
					_ = os.Rename(filepath.Join(rd, "ro.log"), filepath.Join(rd, "ro.log.1")) // logrotate moved it; the next Start creates a new one
				}
			}
			w.Eval(1)
			if bad != "" {
				w.Violate("C05:reopen:"+name, bad, cs)
			} else {
				w.Distinct("reopen|" + name)
			}
		}
		// a target on which fsync fails (a named pipe, as with 'app.log -> /dev/stdout' links in containers): Stop must still
		// release the descriptor - the reader at the other end sees end-of-file
		for _, mkAp := range []func(string) log.Appender{
			func(d string) log.Appender {
				return &log.FileAppender{Layout: &log.TextLayout{}, FileDir: d, FileName: "pipe.log"}
			},
			func(d string) log.Appender {
				return &log.FileLogger{LoggerBase: log.LoggerBase{Name: "fl", Level: log.LevelRange{MinLevel: log.NoneLevel, MaxLevel: log.MaxLevel}}, FileAppender: log.FileAppender{Layout: &log.TextLayout{}, FileDir: d, FileName: "pipe.log"}}
			},
		} {
			pdir := filepath.Join(dir, "fifo")
			_ = os.RemoveAll(pdir)
			_ = os.MkdirAll(pdir, 0755)
			fp := filepath.Join(pdir, "pipe.log")
			cs := map[string]any{"scenario": "file appender whose target is a named pipe (fsync fails there)"}
			if err := syscall.Mkfifo(fp, 0644); err != nil {
				w.Note("mkfifo: " + err.Error())
				break
			}
			eof := make(chan []byte, 1)
			go func() {
				f, err := os.OpenFile(fp, os.O_RDONLY, 0)
				if err != nil {
					eof <- nil
					return
				}
				b, _ := io.ReadAll(f)
				f.Close()
				eof <- b
			}()
			a := mkAp(pdir)
			if err := a.Start(); err != nil {
				w.Note("fifo appender start: " + err.Error())
				break
			}
			a.Write([]byte("id-fifo1-1 through the pipe\n"))
			a.Stop()
			w.Eval(1)
			select {
			case b := <-eof:
				// (the reader has closed its own descriptor before reporting: whatever is still listed belongs to the library)
				fds := fdsInto(pdir)
				if len(fds) != 0 {
					w.Violate("C05:fd-leak:File", fmt.Sprintf("descriptors open after Stop of an appender writing to a named pipe: %v", fds), cs)
				} else if !bytes.Contains(b, []byte("id-fifo1-1")) {
					w.Violate("C05:fd-leak:File", "the line written before Stop did not reach the pipe reader", cs)
				} else {
					w.Distinct("fifo-target")
				}
			case <-time.After(10 * time.Second):
				// the reader still holds its end; a second descriptor on the pipe is the appender's
				if fds := fdsInto(pdir); len(fds) >= 2 {
					w.Violate("C05:fd-leak:File", fmt.Sprintf("Stop returned, but the process still holds a writing descriptor on the target (a named pipe, on which fsync fails): its reader never sees end-of-file; descriptors: %v", fds), cs)
				} else {
					w.Inconclusive("fifo scenario: no descriptor listed, yet the reader saw no end-of-file")
				}
				if f, err := os.OpenFile(fp, os.O_WRONLY|syscall.O_NONBLOCK, 0); err == nil {
					f.Close() // let the reader goroutine finish
				}
			}
			_ = os.RemoveAll(pdir)
		}
		// several lives of one RollingFileLogger object (sync and async, with and without a separate .wf file): every Stop
		// flushes what that life accepted and releases its descriptors
		for vi, v := range []struct{ async, separate bool }{{false, false}, {true, false}, {true, true}, {false, true}} {
			rdir := filepath.Join(dir, fmt.Sprintf("relife%d", vi))
			_ = os.MkdirAll(rdir, 0755)
			all := log.LevelRange{MinLevel: log.NoneLevel, MaxLevel: log.MaxLevel}
			rl := &log.RollingFileLogger{LoggerBase: log.LoggerBase{Name: "rl", Level: all}, FileDir: rdir, FileName: "rl.log", Separate: v.separate,
				Rotation: log.TimeRotation{Interval: time.Hour}, MaxAge: 24, AsyncWrite: v.async, BufferSize: 4000, BufferFullPolicy: log.BufferFullPolicyBlock}
			cs := map[string]any{"scenario": "RollingFileLogger started and stopped three times", "async": v.async, "separate": v.separate}
			bad := ""
			var want []string
			for life := 0; life < 3 && bad == ""; life++ {
				if err := rl.Start(); err != nil {
					bad = fmt.Sprintf("life %d: Start failed: %v", life, err)
					break
				}
				for i := 0; i < 1500; i++ {
					id := fmt.Sprintf("id-rl%dx%d-%d", vi, life, i)
					want = append(want, id)
					appendEvent(rl, []log.Level{log.InfoLevel, log.ErrorLevel}[i%2], id)
				}
				done, pv, dump := callWithWatchdog(30*time.Second, rl.Stop)
				switch {
				case !done:
					if blocked, gr := blockedInLibrary(dump, "watchdogMarker"); blocked {
						bad = fmt.Sprintf("life %d: Stop does not return:\n%s", life, trunc(gr, 1000))
					} else {
						w.Inconclusive("RollingFileLogger.Stop watchdog fired without a parked goroutine")
						return
					}
				case pv != nil:
					bad = fmt.Sprintf("life %d: Stop panicked: %v", life, pv)
				default:
					got := idsIn(readDirAll(rdir)) // read at once: Stop has just returned
					for _, id := range want {
						if got[id] != 1 {
							bad = fmt.Sprintf("life %d: %s was accepted before Stop and is in the files %d times right after Stop returned (%d of %d present)", life, id, got[id], len(got), len(want))
							break
						}
					}
					if fds := fdsInto(rdir); bad == "" && len(fds) != 0 {
						bad = fmt.Sprintf("life %d: descriptors still open after Stop: %v", life, fds)
					}
				}
			}
			w.Eval(1)
			if bad != "" {
				w.Violate("C05:rolling-logger:relife", bad, cs)
			} else {
				w.Distinct(fmt.Sprintf("rolling-logger-relife|async=%v|separate=%v", v.async, v.separate))
			}
		}
	}
	_ = bytes.MinRead
}

func init() {
	register(&Prop{
		ID: "C05", Level: "exploration", MinDistinct: 100, Worker: c05Worker,
		Rule: "(a) AsyncLogger (file appender behind a gate/slow/recording appender): every policy x buffer {100,101} x occupancy at Stop in {0,1,cap/2,cap-1,cap, 2 seeded others} (+1 extra item into the full buffer for the discard policies) x worker state {idle, parked mid-append, slowed}; Stop is called from a goroutine, the gate is opened, and the moment Stop returns the target file is read: exactly the accepted ids (queue model identifies DiscardOldest victims) must be present once, the counter must match, no descriptor may point into the log directory. " +
			"(b) Destroy for 18 logger kinds/configurations (three of them as the configured root logger, one with 6.5 s of queued work behind a slow appender) reachable through Refresh (async/sync x file/console/rolling, File/Console/Discard/RollingFile logger kinds incl. async rolling with Block and DiscardOldest, separate, logger-level layout) with 0-3000 events: everything logged must be readable from the file/console stream right after Destroy returns, no descriptors left. " +
			"(c) a running rolling file appender (1 s interval) with 2-8 writers crossing 3-5 real boundaries together (barrier at the interval check): <= 2 descriptors at every quiescent point, 0 after Stop. (d) Start/Write/Stop/Stop on every appender kind; a rolling appender whose directory disappears across two boundaries and is then stopped must leave no descriptor behind; the rotating goroutine is stalled for 1.4 intervals at three points. Hangs are decided from goroutine dumps (call parked in the library), not deadlines. distinct_nontrivial = distinct parameter tuples that held.",
		Assumptions: []string{"no log call is in progress when Stop/Destroy is called (statement's precondition)", "rolling-boundary interleavings are those the scheduler produced around real 1 s boundaries (rotations observed are reported)"},
		Run: func(d *D) {
			var specs []Spec
			na := int(d.Pick(6, 16))
			for i := 0; i < na; i++ {
				s := d.NewSpec("async", fmt.Sprintf("async-%d", i), i, na)
				specs = append(specs, s)
			}
			if !d.Quick() {
				for i := 0; i < 3; i++ {
					s := d.NewSpec("async", fmt.Sprintf("async-race-%d", i), i, 3)
					s.Flavour = "race"
					specs = append(specs, s)
				}
			}
			for i := 0; i < 4; i++ {
				s := d.NewSpec("destroy", fmt.Sprintf("destroy-%d", i), i, 4)
				s.N = d.Pick(2, 12)
				specs = append(specs, s)
			}
			s := d.NewSpec("destroy", "destroy-race", 0, 1)
			s.N = d.Pick(1, 4)
			s.Flavour = "race"
			specs = append(specs, s)
			for i, wr := range []int{2, 4, 8} {
				s := d.NewSpec("rollfds", fmt.Sprintf("rollfds-%d", i), i, 3)
				s.N = d.Pick(3, 8)
				s.Args["writers"] = fmt.Sprint(wr)
				if i == 1 {
					s.Flavour = "race"
				}
				specs = append(specs, s)
			}
			for i, env := range [][]string{nil, {"GOMAXPROCS=1"}, {"GOMAXPROCS=2", "GOGC=1"}} {
				s := d.NewSpec("rollfdsseq", fmt.Sprintf("rollfdsseq-%d", i), i, 3)
				s.N = d.Pick(3, 6)
				s.Env = env
				specs = append(specs, s)
			}
			specs = append(specs, d.NewSpec("doublestop", "doublestop", 0, 1))
			for i, rs := range []string{"true", "false"} {
				s := d.NewSpec("outagefds", "outagefds-"+rs, i, 2)
				s.Args["restore"] = rs
				specs = append(specs, s)
			}
			for i, pt := range []string{"roll.rotate.cas", "roll.rotate.closedold", "roll.rotate.created"} {
				s := d.NewSpec("stalledrotator", fmt.Sprintf("stalledrotator-%d", i), i, 3)
				s.Args["point"] = pt
				specs = append(specs, s)
			}
			for i := range specs {
				specs[i].TimeoutS = int(d.Pick(150, 900))
			}
			outs := d.RunWorkers(specs, 16)
			d.raceVerdict(outs)
			if !d.Quick() {
				d.Extra["exhaustive_spaces"] = []string{"Stop of a directly built AsyncLogger: every occupancy 0..capacity x {Block, Discard, DiscardOldest} x capacity {100, 101} x worker {idle, parked inside an appender, slow}"}
			}
		},
	})
}
