package main

// C03 — concurrent logging yields whole, unmixed lines, one per event.
// Race detector + content oracle: every line produced under concurrency must be byte-identical to
// the line the same event produced when it was logged alone.

import (
	"bytes"
	"context"
	"fmt"
	"hash/crc32"
	"os"
	"path/filepath"
	"runtime"
	"strings"
	"sync"
	"sync/atomic"
	"time"

	log "github.com/go-spring/log"
)

type c03ev struct {
	id      string
	t       time.Time
	payload string
	level   int
	shared  []log.Field // level 3: a slice owned by the calling goroutine and reused for all its calls
	rich    []log.Field // level 4: generated fields of every kind the encoders support (C07's generator)
}

type c03ctxKey struct{}

// c03emit is the single source line every C03 event is logged from (same file:line in both phases).
func c03emit(tag *log.Tag, e *c03ev) {
	ctx := context.WithValue(context.Background(), c03ctxKey{}, e)
	switch e.level {
	case 0:
		switch len(e.payload) % 3 {
		case 0:
			log.Info(ctx, tag, log.Msg(e.id), log.String("p", e.payload), log.Int("n", len(e.payload)))
		case 1:
			// application-defined levels whose codes lie between the built-in ones (NOTICE=350 next to INFO=300, L998 below MAX)
			log.Record(ctx, c01byName["NOTICE"].l, tag, 1, log.Msg(e.id), log.String("p", e.payload), log.Int("n", len(e.payload)))
		default:
			log.Record(ctx, c01byName["L998"].l, tag, 1, log.Msg(e.id), log.String("p", e.payload), log.Int("n", len(e.payload)))
		}
	case 1:
		log.Warnf(ctx, tag, "%s %s", e.id, e.payload)
	case 2:
		log.Error(ctx, tag, log.Msg(e.id), log.Object("o", log.String("p", e.payload)), log.Strings("s", []string{e.id, "x"}))
	case 4:
		// every encoder path under concurrency: shared state inside the encoders (caches, templates, pooled
		// encoders) would show as a line that differs from the one the same fields produced alone
		log.Error(ctx, tag, e.rich...)
	default:
		// the caller passes the very same slice to every call (legal: the library must not keep or modify it);
		// the event's identity travels in the context string
		log.Warn(ctx, tag, e.shared...)
	}
}

func c03payload(g, i, l int) string {
	b := bytes.Repeat([]byte{byte('a' + g%26)}, l)
	return fmt.Sprintf("L%d-%s-%08x", l, b, crc32.ChecksumIEEE(b)+uint32(i))
}

type c03setup struct {
	name  string
	cfg   map[string]string // nil: built-in logger, no Refresh
	sinks []string          // "console", "file:<path>", "rolldir:<dir>:<name>"
	perEv int               // lines per event and sink (1)
}

func c03setups(dir string) []c03setup {
	base := func(m map[string]string) map[string]string {
		m["logger.lg.tags"] = "c03tag"
		return m
	}
	f := func(n string) string { return filepath.Join(dir, n) }
	return []c03setup{
		{name: "builtin-console", cfg: nil, sinks: []string{"console"}},
		{name: "sync-console-text", cfg: base(map[string]string{"appender.c.type": "Console", "appender.c.layout.type": "TextLayout", "logger.lg.type": "Logger", "logger.lg.appenderRef.ref": "c"}), sinks: []string{"console"}},
		{name: "sync-console-json", cfg: base(map[string]string{"appender.c.type": "Console", "appender.c.layout.type": "JSONLayout", "logger.lg.type": "Logger", "logger.lg.appenderRef.ref": "c"}), sinks: []string{"console"}},
		{name: "sync-file-text", cfg: base(map[string]string{"appender.f.type": "File", "appender.f.fileDir": dir, "appender.f.fileName": "ft.log", "logger.lg.type": "Logger", "logger.lg.appenderRef.ref": "f"}), sinks: []string{"file:" + f("ft.log")}},
		{name: "sync-file-json", cfg: base(map[string]string{"appender.f.type": "File", "appender.f.fileDir": dir, "appender.f.fileName": "fj.log", "appender.f.layout.type": "JSONLayout", "logger.lg.type": "Logger", "logger.lg.appenderRef.ref": "f"}), sinks: []string{"file:" + f("fj.log")}},
		{name: "sync-rolling-text", cfg: base(map[string]string{"appender.r.type": "RollingFile", "appender.r.fileDir": dir, "appender.r.fileName": "rt.log", "appender.r.rotation": "h", "appender.r.maxAge": "24", "logger.lg.type": "Logger", "logger.lg.appenderRef.ref": "r"}), sinks: []string{"rolldir:" + dir + ":rt.log"}},
		{name: "sync-loggerlayout-console+file", cfg: base(map[string]string{"appender.c.type": "Console", "appender.f.type": "File", "appender.f.fileDir": dir, "appender.f.fileName": "ll.log", "logger.lg.type": "Logger", "logger.lg.layout.type": "JSONLayout",
			"logger.lg.appenderRef[0].ref": "c", "logger.lg.appenderRef[1].ref": "f"}), sinks: []string{"console", "file:" + f("ll.log")}},
		{name: "sync-multi-console-text+file-json", cfg: base(map[string]string{"appender.c.type": "Console", "appender.f.type": "File", "appender.f.fileDir": dir, "appender.f.fileName": "mj.log", "appender.f.layout.type": "JSONLayout", "logger.lg.type": "Logger",
			"logger.lg.appenderRef[0].ref": "c", "logger.lg.appenderRef[1].ref": "f"}), sinks: []string{"console", "file:" + f("mj.log")}},
		{name: "sync-discard+console-json+discard", cfg: base(map[string]string{"appender.d1.type": "Discard", "appender.d2.type": "Discard", "appender.c.type": "Console", "appender.c.layout.type": "JSONLayout", "logger.lg.type": "Logger",
			"logger.lg.appenderRef[0].ref": "d1", "logger.lg.appenderRef[1].ref": "c", "logger.lg.appenderRef[2].ref": "d2"}), sinks: []string{"console"}},
		{name: "console-logger", cfg: base(map[string]string{"appender.u.type": "Discard", "logger.lg.type": "Console", "logger.lg.layout.type": "JSONLayout"}), sinks: []string{"console"}},
		{name: "file-logger", cfg: base(map[string]string{"appender.u.type": "Discard", "logger.lg.type": "File", "logger.lg.fileDir": dir, "logger.lg.fileName": "fl.log"}), sinks: []string{"file:" + f("fl.log")}},
		{name: "rolling-logger-separate", cfg: base(map[string]string{"appender.u.type": "Discard", "logger.lg.type": "RollingFile", "logger.lg.fileDir": dir, "logger.lg.fileName": "rl.log", "logger.lg.rotation": "h", "logger.lg.separate": "true"}), sinks: []string{"rolldir:" + dir + ":rl.log"}},
	}
}

// readSink returns the bytes a sink received since offset `from` (files) / since the last take (console).
func c03read(s string, console *slowSink, offsets map[string]int64) [][]byte {
	switch {
	case s == "console":
		return console.take()
	case strings.HasPrefix(s, "file:"):
		p := strings.TrimPrefix(s, "file:")
		b, _ := os.ReadFile(p)
		from := offsets[p]
		offsets[p] = int64(len(b))
		return splitLinesKeep(b[from:])
	case strings.HasPrefix(s, "rolldir:"):
		parts := strings.SplitN(s, ":", 3)
		ents, _ := os.ReadDir(parts[1])
		var out [][]byte
		for _, e := range ents {
			if strings.HasPrefix(e.Name(), parts[2]+".") {
				p := filepath.Join(parts[1], e.Name())
				b, _ := os.ReadFile(p)
				from := offsets[p]
				offsets[p] = int64(len(b))
				out = append(out, splitLinesKeep(b[from:])...)
			}
		}
		return out
	}
	return nil
}

func splitLinesKeep(b []byte) [][]byte {
	var out [][]byte
	for len(b) > 0 {
		i := bytes.IndexByte(b, '\n')
		if i < 0 {
			out = append(out, b)
			break
		}
		out = append(out, b[:i+1])
		b = b[i+1:]
	}
	return out
}

// event times are expressed in several zones: UTC, the process's local zone (TZ is set for part of the workers) and fixed offsets
var c03zones = []*time.Location{time.UTC, time.Local, time.FixedZone("", 5*3600+1800), time.Local, time.FixedZone("W", -8*3600)}

func c03Worker(w *W) {
	registerMonitorPlugins()
	c01init() // user-registered levels
	tag := log.RegisterTag("c03tag")
	console := &slowSink{slow: true}
	log.Stdout = console
	log.TimeNow = func(ctx context.Context) time.Time { return ctx.Value(c03ctxKey{}).(*c03ev).t }
	commonCtx := make([]log.Field, 1, 8) // one immutable slice with spare capacity, handed to every event
	commonCtx[0] = log.String("svc", "checkout")
	log.FieldsFromContext = func(ctx context.Context) []log.Field { return commonCtx }
	log.StringFromContext = func(ctx context.Context) string {
		if e := ctx.Value(c03ctxKey{}).(*c03ev); e.level == 3 {
			return e.id
		}
		return ""
	}
	dir := filepath.Join(w.Spec.Dir, w.Spec.Name+".d")
	_ = os.MkdirAll(dir, 0755)
	defer os.RemoveAll(dir)
	setups := c03setups(dir)
	si := w.ArgInt("setup", 0)
	su := setups[si]
	capName := w.Arg("cap", "10KB")
	capBytes := map[string]int{"10KB": 10240, "1KB": 1024, "8KB": 8192}[capName]
	G := w.ArgInt("g", 8)
	M := int(w.Spec.N)
	r := w.Rng()

	cfg := map[string]string{}
	if su.cfg != nil {
		for k, v := range su.cfg {
			cfg[k] = v
		}
		cfg["bufferCap"] = capName
		if err := log.Refresh(cfg); err != nil {
			w.Violate("C03:refresh-failed", "Refresh failed: "+err.Error(), cfg)
			return
		}
	} else {
		// the built-in logger: bufferCap can only be set through a Refresh
		_ = log.Refresh(map[string]string{"appender.u.type": "Discard", "bufferCap": capName})
		log.Destroy()
	}
	// events: per goroutine a mix of small lines, a dense sweep of lengths around the buffer cap
	// (so that some formatted line has exactly cap bytes), and lines beyond 3x cap
	// the events' times run across midnight (and a year boundary) of the +05:30 zones, not of UTC
	base := time.Date(2024, 12, 31, 18, 27, 0, 0, time.UTC)
	evs := make([][]*c03ev, G)
	richFeats := 0
	sweepFrom := capBytes - 260
	for g := 0; g < G; g++ {
		own := []log.Field{log.String("owner", fmt.Sprintf("goroutine-%d", g)), log.String("p", c03payload(g, 0, 40+g)), log.Int("g", g)}
		for i := 0; i < M; i++ {
			var l int
			switch x := r.IntN(100); {
			case x < 55:
				l = 10 + r.IntN(190)
			case x < 85:
				l = sweepFrom + (g*M+i)%300 // dense sweep across the cap boundary
			case x < 95:
				l = capBytes/2 + r.IntN(capBytes)
			default:
				l = 2*capBytes + r.IntN(capBytes+1)
			}
			if l < 1 {
				l = 1
			}
			ev := &c03ev{id: fmt.Sprintf("id-g%dx%d-%d", g, si, i), t: base.Add(time.Duration(g*977+i*337) * time.Millisecond).In(c03zones[(g+2*i)%len(c03zones)]), payload: c03payload(g, i, l), level: (g + i) % 5, shared: own}
			if ev.level == 4 {
				fg := &fgen{r: newRng(w.Spec.Seed, uint64(w.Spec.Shard)*1_000_003+uint64(g)*100_003+uint64(i)+303), feats: map[string]bool{}}
				fs, _ := fg.fields(0, 5)
				ev.rich = append([]log.Field{log.Msg(ev.id)}, fs...)
				richFeats += len(fg.feats)
			}
			evs[g] = append(evs[g], ev)
		}
	}
	w.Count("rich_field_features_generated", int64(richFeats))
	offsets := map[string]int64{}
	// phase 1: every event alone
	for g := range evs {
		for _, e := range evs[g] {
			c03emit(tag, e)
		}
	}
	alone := map[string]map[string][]byte{} // sink -> id -> line
	for _, s := range su.sinks {
		alone[s] = map[string][]byte{}
		for _, ln := range c03read(s, console, offsets) {
			id := idOf(ln)
			if _, dup := alone[s][id]; dup || id == "" {
				w.Violate("C03:alone-phase", fmt.Sprintf("sequential phase: unexpected line for %q in %s: %s", id, s, trunc(string(ln), 200)), nil)
				return
			}
			alone[s][id] = ln
		}
		if len(alone[s]) != G*M {
			w.Violate("C03:alone-phase", fmt.Sprintf("sequential phase: %d lines in %s for %d events", len(alone[s]), s, G*M), nil)
			return
		}
	}
	// an operator runs a copy-and-truncate rotation on the plain files between the phases (logrotate's copytruncate): the file
	// is emptied behind the appender's back; what is logged afterwards is appended to the file as it is then
	if w.Spec.Shard%2 == 0 {
		for _, s := range su.sinks {
			if strings.HasPrefix(s, "file:") {
				p := strings.TrimPrefix(s, "file:")
				if b, err := os.ReadFile(p); err == nil {
					_ = os.WriteFile(p+".1", b, 0644)
					if os.Truncate(p, 0) == nil {
						offsets[p] = 0
						w.Count("copytruncate_rotations_between_the_phases", 1)
					}
				}
			}
		}
	}
	// phase 1b: short bursts. Four goroutines log one event each and return; at that moment - not later, when other
	// traffic happens to flush something - each sink holds exactly those four lines (console: four chunks identical to the
	// lines produced alone; files: grown by exactly their bytes).
	if nb := w.ArgInt("bursts", 0); nb > 0 && G >= 4 {
		sizes := map[string]int64{}
		for _, s := range su.sinks {
			if strings.HasPrefix(s, "file:") {
				sizes[s] = offsets[strings.TrimPrefix(s, "file:")]
			}
		}
		for b := 0; b < nb; b++ {
			var picks [4]*c03ev
			var bw sync.WaitGroup
			for k := 0; k < 4; k++ {
				picks[k] = evs[(b+k)%G][(b*7+k*3)%M]
				bw.Add(1)
				go func(e *c03ev) { defer bw.Done(); c03emit(tag, e) }(picks[k])
			}
			bw.Wait()
			for _, s := range su.sinks {
				cs := map[string]any{"setup": su.name, "cap": capName, "burst": b, "sink": s}
				switch {
				case s == "console":
					want := map[string]int{}
					for _, e := range picks {
						want[string(alone[s][e.id])]++
					}
					got := console.take()
					for _, ch := range got {
						want[string(ch)]--
					}
					for ln, n := range want {
						if n != 0 {
							w.Violate("C03:burst:line-not-in-sink-when-calls-returned:console", fmt.Sprintf("[%s] burst %d: four log calls returned, the console received %d chunks; off by %+d for the line %q", su.name, b, len(got), -n, trunc(ln, 160)), cs)
							return
						}
					}
				case strings.HasPrefix(s, "file:"):
					fi, err := os.Stat(strings.TrimPrefix(s, "file:"))
					var wantGrow int64
					for _, e := range picks {
						wantGrow += int64(len(alone[s][e.id]))
					}
					if err != nil || fi.Size()-sizes[s] != wantGrow {
						w.Violate("C03:burst:line-not-in-sink-when-calls-returned:file", fmt.Sprintf("[%s] burst %d: four log calls returned, the file grew by %d bytes, their lines have %d", su.name, b, fi.Size()-sizes[s], wantGrow), cs)
						return
					}
					sizes[s] = fi.Size()
				}
			}
		}
		for s, n := range sizes {
			offsets[strings.TrimPrefix(s, "file:")] = n
		}
		if len(sizes) == 0 && len(su.sinks) > 0 && su.sinks[0] != "console" {
			// rolling directories: consume what the bursts wrote so that phase 2 starts from a clean offset
			for _, s := range su.sinks {
				c03read(s, console, offsets)
			}
		}
		w.Count("bursts_of_four_checked_at_return", int64(nb))
	}
	// phase 2: the same events from G goroutines at once
	console.maxIn.Store(0)
	var wg sync.WaitGroup
	start := make(chan struct{})
	watchFile := ""
	for _, s := range su.sinks {
		if strings.HasPrefix(s, "file:") && watchFile == "" {
			watchFile = strings.TrimPrefix(s, "file:")
		}
	}
	var watchBad atomic.Bool
	var watched atomic.Int64
	for g := range evs {
		wg.Add(1)
		go func(g int) {
			defer wg.Done()
			<-start
			for i, e := range evs[g] {
				if watchFile == "" || i%8 != g%8 || watchBad.Load() {
					c03emit(tag, e)
					continue
				}
				// a watcher: how big is the file now - log - and when the call has returned, the bytes added since contain this
				// event's complete line (the one it produced alone), whatever the other goroutines are doing meanwhile
				var s0 int64
				if fi, err := os.Stat(watchFile); err == nil {
					s0 = fi.Size()
				}
				c03emit(tag, e)
				f, err := os.Open(watchFile)
				if err != nil {
					continue
				}
				fi, _ := f.Stat()
				if fi == nil || fi.Size() < s0 {
					f.Close()
					continue
				}
				chunk := make([]byte, fi.Size()-s0)
				n, _ := f.ReadAt(chunk, s0)
				f.Close()
				watched.Add(1)
				if want := alone["file:"+watchFile][e.id]; len(want) > 0 && !bytes.Contains(chunk[:n], want) && watchBad.CompareAndSwap(false, true) {
					w.Violate("C03:line-not-in-file-when-call-returned:file", fmt.Sprintf("[%s] %d goroutines logging: the call for event %s has returned; the %d bytes the file gained since just before the call do not contain its line (%d bytes)", su.name, G, e.id, n, len(want)),
						map[string]any{"setup": su.name, "cap": capName, "g": G, "sink": "file"})
				}
			}
		}(g)
	}
	// meanwhile two "bridge" goroutines (think of an adapter for another logging API) take events from the library's pool, fill
	// them by appending to the event's field list and hand them to a logger of their own that discards them: pooled events are
	// shared with everybody else, their field lists must not be
	var bridgeStop atomic.Bool
	var bw sync.WaitGroup
	allLv := log.LevelRange{MinLevel: log.NoneLevel, MaxLevel: log.MaxLevel}
	bridgeLogger := &log.SyncLogger{LoggerBase: log.LoggerBase{Name: "bridge", Level: allLv},
		AppenderRefs: log.AppenderRefs{AppenderRefs: []*log.AppenderRef{{Appender: &log.DiscardAppender{}, Level: allLv}}}}
	for b := 0; b < 2; b++ {
		bw.Add(1)
		go func(b int) {
			defer bw.Done()
			<-start
			for i := 0; !bridgeStop.Load(); i++ {
				e := log.GetEvent()
				e.Level, e.Tag = log.InfoLevel, "bridge"
				e.Fields = append(e.Fields, log.String("kind", "bridge"), log.Int("b", b), log.Int("i", i))
				e.CtxFields = append(e.CtxFields, log.String("ctx", "bridge"))
				bridgeLogger.Append(e)
				if i%64 == 0 {
					runtime.Gosched()
				}
			}
		}(b)
	}
	close(start)
	wg.Wait()
	bridgeStop.Store(true)
	bw.Wait()
	w.Count("calls_watched_for_their_line_in_the_file_at_return", watched.Load())
	if su.cfg != nil {
		log.Destroy()
	}
	class := fmt.Sprintf("%s|cap=%s|G=%d", su.name, capName, G)
	okAll := true
	exactCap := 0
	for _, s := range su.sinks {
		sinkKind := strings.SplitN(s, ":", 2)[0]
		seen := map[string]int{}
		for _, ln := range c03read(s, console, offsets) {
			w.Count("lines_checked", 1)
			id := idOf(ln)
			want, ok := alone[s][id]
			if len(ln) == capBytes {
				exactCap++
			}
			cs := map[string]any{"setup": su.name, "cap": capName, "g": G, "sink": sinkKind}
			switch {
			case !ok:
				okAll = false
				w.Violate("C03:torn-or-foreign-line:"+sinkKind, fmt.Sprintf("[%s] a %s chunk/line of %d bytes matches no event: %q", class, sinkKind, len(ln), trunc(string(ln), 300)), cs)
			case !bytes.Equal(ln, want):
				okAll = false
				d := 0
				for d < len(ln) && d < len(want) && ln[d] == want[d] {
					d++
				}
				w.Violate("C03:line-differs-from-alone:"+sinkKind, fmt.Sprintf("[%s] event %s: concurrent line (%d bytes) differs from the line it produced alone (%d bytes) at offset %d: …%q vs …%q", class, id, len(ln), len(want), d, trunc(string(ln[d:]), 80), trunc(string(want[d:]), 80)), cs)
			default:
				seen[id]++
			}
		}
		for id := range alone[s] {
			if seen[id] != 1 {
				okAll = false
				w.Violate("C03:line-count:"+sinkKind, fmt.Sprintf("[%s] event %s has %d intact lines in %s under concurrency, expected 1", class, id, seen[id], s), map[string]any{"setup": su.name, "cap": capName, "g": G})
				break
			}
		}
	}
	w.Eval(int64(G * M))
	w.CountMax("max_inflight_console_writes", int64(console.maxIn.Load()))
	w.Count("lines_of_exactly_buffercap_bytes", int64(exactCap))
	if okAll {
		w.Distinct(class + "|" + w.Spec.Flavour)
		if w.Spec.Shard == 0 {
			e := evs[0][0]
			w.Sample(map[string]any{"setup": su.name, "bufferCap": capName, "goroutines": G, "events_per_goroutine": M, "example_line": trunc(string(alone[su.sinks[0]][e.id]), 160)})
		}
	}
}

func init() {
	register(&Prop{
		ID: "C03", Level: "exploration", MinDistinct: 20, Worker: c03Worker,
		Rule: "workloads: 12 synchronous paths (a Discard appender referenced before and after a console appender; built-in console logger before Refresh; Refresh-built Logger -> Console/File/RollingFile appenders with Text/JSON layouts; logger-level layout fanning out to console+file; two appenders with different layouts; Console/File/RollingFile logger kinds) x bufferCap {10KB, 1KB, 8KB} x G in {4,8,16,64} goroutines (race build: G<=16); " +
			"line sizes: 55% 10-200 B, 30% a dense sweep of 300 consecutive payload lengths across the buffer cap (so that lines of exactly cap bytes occur), 10% around cap, 5% beyond 2x cap; per-event deterministic timestamps spread over many seconds and expressed in UTC, the local zone (TZ = unset / Asia/Kolkata / America/St_Johns per worker) and two fixed offsets; the console sink consumes each chunk piecewise with yields. " +
			"Between the two phases one workload per path runs 12000 (thorough 100000) bursts in which four goroutines log one event each; when the four calls have returned the console holds exactly their four chunks and a file has grown by exactly their bytes. Oracle: each event is first logged alone (sequential phase), then all events are logged concurrently; every chunk (console) / line (files) of the concurrent phase must be byte-identical to the same event's line from the sequential phase, exactly once per event and sink. The race build runs the same workload under the Go race detector; every report with a library frame is a violation. " +
			"Non-trivial/distinct = distinct (path, bufferCap, G, build flavour) workloads that matched completely.",
		Assumptions: []string{"file sinks are read at quiescent points (no writer active)", "interleavings are whatever the scheduler produced on 16 cores (observed overlap is reported as max_inflight_console_writes), not enumerated"},
		Run: func(d *D) {
			var specs []Spec
			ns := 12
			i := 0
			add := func(fl string, setup int, capN string, g int, m int64) {
				s := d.NewSpec("conc", fmt.Sprintf("%s-s%d-%s-g%d", fl, setup, capN, g), i, 1000)
				i++
				s.Flavour = fl
				s.N = m
				s.Args["setup"], s.Args["cap"], s.Args["g"] = fmt.Sprint(setup), capN, fmt.Sprint(g)
				s.TimeoutS = int(d.Pick(300, 1200))
				specs = append(specs, s)
			}
			for su := 0; su < ns; su++ {
				if d.Quick() {
					add("plain", su, "10KB", []int{8, 16, 64, 4}[su%4], 400)
					specs[len(specs)-1].Args["bursts"] = "12000"
					add("plain", su, "1KB", []int{16, 64, 4, 8}[su%4], 1500)
					add("race", su, []string{"1KB", "8KB"}[su%2], []int{4, 8, 16}[su%3], 250)
				} else {
					for _, g := range []int{2, 4, 8, 16, 32, 64} {
						add("plain", su, "10KB", g, 1500)
						add("plain", su, "1KB", g, 5000)
						add("plain", su, "8KB", g, 1500)
						specs[len(specs)-1].Args["bursts"] = "100000"
					}
					for _, g := range []int{2, 4, 8, 16} {
						add("race", su, "1KB", g, 1200)
						add("race", su, "8KB", g, 400)
					}
				}
			}
			for i := range specs {
				if z := []string{"", "Asia/Kolkata", "America/St_Johns"}[i%3]; z != "" {
					specs[i].Env = append(specs[i].Env, "TZ="+z)
				}
			}
			specs = d.WithRuntimeVariants(specs, int(d.Pick(4, 2)), nil)
			outs := d.RunWorkers(specs, 8)
			d.raceVerdict(outs)
		},
	})
}
