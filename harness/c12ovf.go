package main

// C12, worker kind "overflow": raw writes through handles bound to asynchronous loggers with the two discard policies.
// A burst overflows the queue (drops are the policy's business and are not judged here); whatever IS delivered - during
// the burst and in the paced phase afterwards, when nothing needs to be dropped - must be byte-identical to exactly one
// payload as it was at call time, at most once, in the writer's call order; the call reports the full length.

import (
	"fmt"
	"hash/crc32"
	"math/rand/v2"
	"sync"
	"time"

	log "github.com/go-spring/log"
)

func c12OverflowWorker(w *W) {
	registerMonitorPlugins()
	h := log.GetLogger("ovf")
	h2 := log.GetLogger("ovf2")
	r := w.Rng()
	for ci := 0; ci < int(w.Spec.N); ci++ {
		pol := []string{"Discard", "DiscardOldest"}[(ci+w.Spec.Shard)%2]
		cfg := map[string]string{
			"appender.s.type": "VSlow", "appender.s.delayUs": "150",
			"logger.ovf.type": "AsyncLogger", "logger.ovf.tags": "_com_ovf", "logger.ovf.bufferSize": "100", "logger.ovf.bufferFullPolicy": pol, "logger.ovf.appenderRef.ref": "s",
			// a second asynchronous logger in the same process (state shared between async loggers would show here)
			"logger.ovf2.type": "AsyncLogger", "logger.ovf2.tags": "_com_ovf2", "logger.ovf2.bufferSize": "1000", "logger.ovf2.bufferFullPolicy": "Block", "logger.ovf2.appenderRef.ref": "s",
		}
		w.Journal("C12 overflow case %d %v", ci, cfg)
		rec.take()
		if err := log.Refresh(cfg); err != nil {
			w.Violate("C12:refresh-failed", "Refresh failed: "+err.Error(), cfg)
			log.Destroy()
			continue
		}
		submitted := map[string]string{} // payload -> writer
		var mu sync.Mutex
		order := map[string][]string{} // writer -> payloads in call order
		write := func(hd *log.LoggerWrapper, wr string, seq int, buf []byte, r *rand.Rand) []byte {
			l := 1 + r.IntN(300)
			if seq%17 == 0 {
				l = 3000 + r.IntN(3000)
			}
			buf = buf[:0]
			body := make([]byte, l)
			for i := range body {
				body[i] = byte('a' + (seq+i)%26)
			}
			buf = fmt.Appendf(buf, "id-ovf%sx%d-%d|%d|%s|%08x\n", wr, ci, seq, l, body, crc32.ChecksumIEEE(body))
			p := string(buf)
			mu.Lock()
			submitted[p] = wr
			order[wr] = append(order[wr], p)
			mu.Unlock()
			n, err := hd.Write(buf)
			if n != len(buf) || err != nil {
				w.Violate("C12:short-write", fmt.Sprintf("Write returned n=%d err=%v for %d bytes (policy %s)", n, err, len(buf), pol), nil)
			}
			// the caller reuses its buffer at once
			for i := range buf {
				buf[i] = '#'
			}
			return buf
		}
		// phase 1: burst from 4 writers, the queue overflows
		var wg sync.WaitGroup
		for g := 0; g < 4; g++ {
			wg.Add(1)
			go func(g int) {
				defer wg.Done()
				buf := make([]byte, 0, 8192)
				gr := newRng(w.Spec.Seed, uint64(w.Spec.Shard)*977+uint64(ci)*31+uint64(g)+1212)
				for i := 0; i < 500; i++ {
					buf = write(h, fmt.Sprintf("b%d", g), i, buf, gr)
				}
			}(g)
		}
		wg.Wait()
		// let the worker drain, then phase 2: paced writes (nothing needs to be dropped), interleaved with the second logger
		deadline := time.Now().Add(20 * time.Second)
		for rec.count() < 100 && time.Now().Before(deadline) {
			time.Sleep(2 * time.Millisecond)
		}
		time.Sleep(40 * time.Millisecond)
		buf := make([]byte, 0, 8192)
		paced := 0
		for i := 0; i < 400; i++ {
			buf = write(h, "p", i, buf, r)
			paced++
			if i%3 == 0 {
				buf = write(h2, "q", i, buf, r)
			}
			time.Sleep(400 * time.Microsecond)
		}
		discards := int64(0)
		for _, l := range func() []log.Logger { ls, _ := log.VerifGlobals(); return ls }() {
			if a, ok := l.(*log.AsyncLogger); ok {
				discards += a.GetDiscardCounter()
			}
		}
		log.Destroy()
		items := rec.take()
		seen := map[string]int{}
		pos := map[string]int{} // writer -> index into its order list
		okAll := true
		cs := map[string]any{"index": ci, "policy": pol, "scenario": "burst overflow then paced raw writes"}
		deliveredPaced := 0
		for _, it := range items {
			if it.Kind != "write" {
				continue
			}
			p := string(it.JSON)
			wr, ok := submitted[p]
			w.Count("delivered_payloads_checked", 1)
			if !ok {
				okAll = false
				w.Violate("C12:altered:recording-appender", fmt.Sprintf("policy %s: a delivered payload of %d bytes equals no payload any writer submitted (after a queue overflow): %q", pol, len(p), trunc(p, 200)), cs)
				break
			}
			seen[p]++
			if seen[p] > 1 {
				okAll = false
				w.Violate("C12:duplicate:recording-appender", fmt.Sprintf("policy %s: payload %s delivered twice", pol, idOf(it.JSON)), cs)
				break
			}
			// call order per writer: the delivered payloads of one writer are a subsequence of its calls
			lst := order[wr]
			k := pos[wr]
			for k < len(lst) && lst[k] != p {
				k++
			}
			if k == len(lst) {
				okAll = false
				w.Violate("C12:order:recording-appender", fmt.Sprintf("policy %s: writer %s: payload %s delivered after a payload the writer submitted later", pol, wr, idOf(it.JSON)), cs)
				break
			}
			pos[wr] = k + 1
			if wr == "p" {
				deliveredPaced++
			}
		}
		// Block-policy logger: everything, exactly once
		for _, p := range order["q"] {
			if seen[p] != 1 {
				okAll = false
				w.Violate("C12:missing:recording-appender", fmt.Sprintf("a payload written through the Block-policy logger next to an overflowing %s logger was delivered %d times", pol, seen[p]), cs)
				break
			}
		}
		w.Eval(1)
		w.Count("overflow_discards_observed", discards)
		w.Count("paced_payloads_delivered", int64(deliveredPaced))
		if discards == 0 {
			w.Note(fmt.Sprintf("overflow case %d (%s): the burst did not overflow the queue", ci, pol))
		}
		if okAll {
			w.Distinct(fmt.Sprintf("overflow|%s|discards=%v|%s", pol, discards > 0, w.Spec.Flavour))
		}
		if ci == 0 {
			w.Sample(map[string]any{"scenario": "4 writers x 500 raw writes overflow an async logger (cap 100, slow appender), then 400 paced writes + 134 through a Block logger", "policy": pol, "discards": discards, "paced_delivered": deliveredPaced})
		}
	}
}
