package main

// C01 — an event reaches an appender iff its level is enabled on the whole path.
// Generated configurations × all 15 entry points, compared with an independent level-routing model.

import (
	"bytes"
	"context"
	"encoding/json"
	"fmt"
	"math"
	"math/rand/v2"
	"os"
	"path/filepath"
	"regexp"
	"runtime"
	"sort"
	"strings"
	"sync"
	"sync/atomic"

	log "github.com/go-spring/log"
)

type lvl struct {
	name string
	code int32
	l    log.Level
}

var (
	c01levels []lvl // every registered level
	c01byName = map[string]lvl{}
)

func c01init() {
	if c01levels != nil {
		return
	}
	add := func(l log.Level) {
		v := lvl{l.Name(), l.Code(), l}
		c01levels = append(c01levels, v)
		c01byName[v.name] = v
	}
	for _, l := range []log.Level{log.NoneLevel, log.TraceLevel, log.DebugLevel, log.InfoLevel, log.WarnLevel, log.ErrorLevel, log.PanicLevel, log.FatalLevel, log.MaxLevel} {
		add(l)
	}
	add(log.RegisterLevel(50, "fine"))
	add(log.RegisterLevel(350, "Notice"))
	add(log.RegisterLevel(998, "L998"))
	add(log.RegisterLevel(1500, "AUDIT_X"))
	add(log.RegisterLevel(1, "L1"))
	add(log.RegisterLevel(1000, "L1000"))
	add(log.RegisterLevel(-5, "NEG"))
	add(log.RegisterLevel(math.MinInt32, "LOWEST"))
	add(log.RegisterLevel(math.MaxInt32, "HIGHEST"))
	// alias names for codes that are already taken: references spelled WARN and WARNING have equal lower bounds
	add(log.RegisterLevel(400, "Warning"))
	add(log.RegisterLevel(300, "audit"))
}

// c01reregister gives the user levels NOTICE and FINE another code (k-th alternative) and updates the harness's tables.
func c01reregister(k int) {
	for _, x := range []struct {
		name  string
		codes []int32
	}{{"Notice", []int32{350, 650, 250, 450}}, {"fine", []int32{50, 150, 850, 99}}} {
		l := log.RegisterLevel(x.codes[k%len(x.codes)], x.name)
		v := lvl{l.Name(), l.Code(), l}
		c01byName[v.name] = v
		for i := range c01levels {
			if c01levels[i].name == v.name {
				c01levels[i] = v
			}
		}
	}
}

type rng struct{ min, max int32 }

func (r rng) has(c int32) bool { return c >= r.min && c < r.max }

type c01ref struct {
	Sink     string `json:"sink"`
	Level    string `json:"level"` // as written
	min      int32
	max      int32
	explicit bool
	Discard  bool `json:"discard,omitempty"`
}

type c01case struct {
	Kind     string            `json:"kind"` // sync, async, console, file, rolling
	Layout   bool              `json:"layout"`
	Separate bool              `json:"separate"`
	Async    bool              `json:"async"`
	LogLevel string            `json:"log_level"`
	Refs     []c01ref          `json:"refs"`
	Config   map[string]string `json:"config"`
	Dir      string            `json:"dir"`
	lr       rng
}

func parseRangeModel(s string) (rng, bool) {
	s = strings.TrimSpace(s)
	if s == "" {
		return rng{0, 999}, false
	}
	ss := strings.Split(s, "~")
	r := rng{c01byName[strings.ToUpper(ss[0])].code, 999}
	if len(ss) == 2 {
		r.max = c01byName[strings.ToUpper(ss[1])].code
		return r, true
	}
	return r, false
}

func c01rangeString(r *rand.Rand, allowExplicit bool, forRef bool) string {
	pick := func() lvl {
		// bias towards the built-in middle levels
		if r.IntN(4) == 0 {
			return c01levels[r.IntN(len(c01levels))]
		}
		return c01levels[1+r.IntN(7)]
	}
	switch x := r.IntN(10); {
	case x < 2:
		return ""
	case x < 7 || !allowExplicit:
		l := pick()
		if forRef && l.name == "MAX" {
			l = c01byName["INFO"]
		}
		return randLevelCase(r, l.name)
	default:
		a, b := pick(), pick()
		if forRef && b.name == "MAX" { // explicit ~MAX on a reference is indistinguishable from open-ended: don't-care
			b = c01byName["FATAL"]
		}
		return randLevelCase(r, a.name) + "~" + randLevelCase(r, b.name)
	}
}

func c01gen(r *rand.Rand, idx int, scratch string) *c01case {
	c := &c01case{Config: map[string]string{}}
	kinds := []string{"sync", "sync", "sync", "async", "async", "console", "file", "rolling", "rolling"}
	c.Kind = kinds[r.IntN(len(kinds))]
	c.LogLevel = c01rangeString(r, true, false)
	c.lr, _ = parseRangeModel(c.LogLevel)
	cfg := c.Config
	lk := func(k string) string { return "logger.lg." + k }
	cfg[lk("tags")] = "c01tag"
	if c.LogLevel != "" || r.IntN(2) == 0 {
		cfg[lk("level")] = c.LogLevel
	}
	c.Layout = r.IntN(3) == 0
	// there must be at least one appender section
	cfg["appender.unused.type"] = "Discard"
	switch c.Kind {
	case "sync", "async":
		if c.Kind == "sync" {
			cfg[lk("type")] = "Logger"
		} else {
			cfg[lk("type")] = "AsyncLogger"
			cfg[lk("bufferFullPolicy")] = "Block"
			if r.IntN(2) == 0 {
				cfg[lk("bufferSize")] = fmt.Sprint(100 + r.IntN(200))
			}
		}
		if c.Layout {
			cfg[lk("layout.type")] = "JSONLayout"
		}
		n := 1 + r.IntN(4)
		order := r.Perm(n)
		for i := 0; i < n; i++ {
			ref := c01ref{Sink: fmt.Sprintf("r%d", i)}
			ref.Level = c01rangeString(r, true, true)
			// equal lower bounds on purpose, sometimes
			if i > 0 && r.IntN(4) == 0 {
				ref.Level = c.Refs[r.IntN(i)].Level
				if strings.Contains(ref.Level, "~") && r.IntN(2) == 0 {
					ref.Level = strings.Split(ref.Level, "~")[0]
				}
			}
			rr, ex := parseRangeModel(ref.Level)
			ref.min, ref.max, ref.explicit = rr.min, rr.max, ex
			cfg["appender."+ref.Sink+".type"] = "VRec"
			if n > 1 && r.IntN(6) == 0 {
				// the built-in Discard appender as one of the references (it takes part in the chaining rule like any
				// other reference; what it receives cannot be observed and is not judged)
				ref.Discard = true
				cfg["appender."+ref.Sink+".type"] = "Discard"
			}
			c.Refs = append(c.Refs, ref)
		}
		if n == 1 && r.IntN(2) == 0 {
			cfg[lk("appenderRef.ref")] = c.Refs[0].Sink
			if c.Refs[0].Level != "" || r.IntN(2) == 0 {
				cfg[lk("appenderRef.level")] = c.Refs[0].Level
			}
		} else {
			for pos, i := range order { // declaration index order is random
				cfg[lk(fmt.Sprintf("appenderRef[%d].ref", pos))] = c.Refs[i].Sink
				if c.Refs[i].Level != "" || r.IntN(2) == 0 {
					cfg[lk(fmt.Sprintf("appenderRef[%d].level", pos))] = c.Refs[i].Level
				}
			}
		}
	case "console":
		cfg[lk("type")] = "Console"
		if c.Layout {
			cfg[lk("layout.type")] = "JSONLayout"
		}
	case "file":
		cfg[lk("type")] = "File"
		c.Dir = filepath.Join(scratch, fmt.Sprintf("c%d", idx))
		cfg[lk("fileDir")] = c.Dir
		cfg[lk("fileName")] = "f.log"
		if c.Layout {
			cfg[lk("layout.type")] = "JSONLayout"
		}
	case "rolling":
		cfg[lk("type")] = "RollingFile"
		c.Dir = filepath.Join(scratch, fmt.Sprintf("c%d", idx))
		cfg[lk("fileDir")] = c.Dir
		cfg[lk("fileName")] = "app.log"
		cfg[lk("rotation")] = "h"
		c.Separate = r.IntN(2) == 0
		c.Async = r.IntN(2) == 0
		if c.Separate || r.IntN(2) == 0 {
			cfg[lk("separate")] = fmt.Sprint(c.Separate)
		}
		if c.Async {
			cfg[lk("async")] = "true"
			cfg[lk("bufferFullPolicy")] = "Block"
		}
		if c.Layout {
			cfg[lk("layout.type")] = "JSONLayout"
		}
	}
	return c
}

// model: which sinks receive an event of level code L
func (c *c01case) expectSinks(L int32) []string {
	if !c.lr.has(L) {
		return nil
	}
	switch c.Kind {
	case "sync", "async":
		var out []string
		for i, ref := range c.Refs {
			max := ref.max
			if !ref.explicit {
				// open-ended: ends at the smallest lower bound strictly greater than its own
				max = 999
				best := int32(math.MinInt32)
				found := false
				for j, o := range c.Refs {
					if j != i && o.min > ref.min && (!found || o.min < best) {
						best, found = o.min, true
					}
				}
				if found {
					max = best
				}
			}
			if L >= ref.min && L < max && !ref.Discard {
				out = append(out, ref.Sink)
			}
		}
		return out
	case "console":
		return []string{"console"}
	case "file":
		return []string{"file"}
	case "rolling":
		if c.Separate && L >= 400 {
			return []string{"rolling.wf"}
		}
		return []string{"rolling"}
	}
	return nil
}

var c01tsRe = regexp.MustCompile(`^\d{14}$`)

type c01call struct {
	id    string
	level lvl
	entry string
}

func c01Worker(w *W) {
	c01init()
	registerMonitorPlugins()
	tag := log.RegisterTag("c01tag")
	sink := &chunkSink{}
	log.Stdout = sink
	scratch := filepath.Join(w.Spec.Dir, w.Spec.Name+".d")
	_ = os.MkdirAll(scratch, 0755)
	defer os.RemoveAll(scratch)
	ctx := context.Background()

	n := int(w.Spec.N)
	only := -1
	if w.Spec.Replay != nil {
		var rc struct {
			Index int `json:"index"`
		}
		_ = json.Unmarshal(w.Spec.Replay, &rc)
		only = rc.Index
		n = only + 1
	}
	for ci := 0; ci < n; ci++ {
		r := newRng(w.Spec.Seed, uint64(w.Spec.Shard)*1_000_003+uint64(ci)+5)
		if ci%9 == 4 {
			// between two configurations (nothing is live) the application registers two of its level names anew with other
			// codes: ranges written with those names follow the registry as it is at the time of the Refresh
			c01reregister(ci / 9)
			w.Count("level_names_registered_anew_with_another_code", 2)
		}
		c := c01gen(r, ci, scratch)
		if only >= 0 && ci != only {
			continue
		}
		cs := map[string]any{"index": ci, "case": c}
		w.Journal("C01 case %d %v", ci, c.Config)
		if c.Dir != "" {
			_ = os.MkdirAll(c.Dir, 0755)
		}
		rec.take()
		sink.take()
		var err error
		if pv, st := catch(func() { err = log.Refresh(c.Config) }); pv != nil {
			w.Violate("C01:refresh-panic:"+c.Kind, fmt.Sprintf("Refresh panicked on a well-formed %s configuration: %v\n%s", c.Kind, pv, trunc(st, 1200)), cs)
			log.Destroy()
			continue
		}
		if err != nil {
			w.Violate("C01:refresh-error:"+c.Kind, fmt.Sprintf("Refresh rejected a well-formed %s configuration: %v", c.Kind, trunc(err.Error(), 500)), cs)
			log.Destroy()
			continue
		}
		// all 15 entry points + Record at every registered level
		var calls []c01call
		k := 0
		id := func(entry string, l lvl) string {
			k++
			s := fmt.Sprintf("id-%dx%d-%d", w.Spec.Shard, ci, k)
			calls = append(calls, c01call{s, l, entry})
			return s
		}
		L := func(n string) lvl { return c01byName[n] }
		// the same routing question while 8 goroutines log events of DIFFERENT levels through the same logger at the same
		// time (the rule is per event: whatever the fan-out keeps between events must not leak from one level to another).
		// In one case in five this happens after the sequential calls, in another one in five BEFORE them: then the logger's
		// very first events arrive from 8 goroutines at the same moment (spin barrier) - whatever a logger prepares on first
		// use, the first events are routed by the declared ranges like all later ones.
		var cpanic any
		concurrentPass := func(rounds int) {
			const G = 8
			plans := make([][]c01call, G)
			for g := 0; g < G; g++ {
				for rd := 0; rd < rounds; rd++ {
					for j := range c01levels {
						l := c01levels[(j*7+g*3+rd)%len(c01levels)]
						k++
						plans[g] = append(plans[g], c01call{fmt.Sprintf("id-%dx%d-%d", w.Spec.Shard, ci, k), l, "Record(concurrent)"})
					}
				}
				calls = append(calls, plans[g]...)
			}
			var wg sync.WaitGroup
			var cpv atomic.Value
			var ready atomic.Int64
			for g := 0; g < G; g++ {
				wg.Add(1)
				go func(plan []c01call) {
					defer wg.Done()
					ready.Add(1)
					for spins := 0; ready.Load() < G; spins++ {
						if spins%256 == 255 {
							runtime.Gosched()
						}
					}
					if v, _ := catch(func() {
						for _, cl := range plan {
							log.Record(ctx, cl.level.l, tag, 1, log.Msg(cl.id))
						}
					}); v != nil {
						cpv.Store(fmt.Sprint(v))
					}
				}(plans[g])
			}
			wg.Wait()
			if v := cpv.Load(); v != nil {
				cpanic = v
				w.Violate("C01:log-panic:"+c.Kind, fmt.Sprintf("a concurrent log call panicked under a %s configuration: %v", c.Kind, v), cs)
			}
			w.Count("events_logged_concurrently_at_mixed_levels", int64(G*rounds*len(c01levels)))
		}
		if ci%5 == 3 {
			concurrentPass(2)
			w.Count("cases_whose_first_events_were_concurrent", 1)
		}
		pv, st := catch(func() {
			s := id("Trace", L("TRACE"))
			log.Trace(ctx, tag, func() []log.Field { return []log.Field{log.Msg(s)} })
			log.Tracef(ctx, tag, "%s", id("Tracef", L("TRACE")))
			s2 := id("Debug", L("DEBUG"))
			log.Debug(ctx, tag, func() []log.Field { return []log.Field{log.Msg(s2)} })
			log.Debugf(ctx, tag, "%s", id("Debugf", L("DEBUG")))
			log.Info(ctx, tag, log.Msg(id("Info", L("INFO"))))
			log.Infof(ctx, tag, "%s", id("Infof", L("INFO")))
			log.Warn(ctx, tag, log.Msg(id("Warn", L("WARN"))))
			log.Warnf(ctx, tag, "%s", id("Warnf", L("WARN")))
			log.Error(ctx, tag, log.Msg(id("Error", L("ERROR"))))
			log.Errorf(ctx, tag, "%s", id("Errorf", L("ERROR")))
			log.Panic(ctx, tag, log.Msg(id("Panic", L("PANIC"))))
			log.Panicf(ctx, tag, "%s", id("Panicf", L("PANIC")))
			log.Fatal(ctx, tag, log.Msg(id("Fatal", L("FATAL"))))
			log.Fatalf(ctx, tag, "%s", id("Fatalf", L("FATAL")))
			for _, l := range c01levels {
				log.Record(ctx, l.l, tag, 1, log.Msg(id("Record", l)))
			}
		})
		if pv != nil {
			w.Violate("C01:log-panic:"+c.Kind, fmt.Sprintf("a log call panicked under a %s configuration: %v\n%s", c.Kind, pv, trunc(st, 1500)), cs)
		}
		if pv == nil && ci%5 == 1 {
			concurrentPass(6)
		}
		if pv == nil && cpanic != nil {
			pv = cpanic
		}
		if pv2, st2 := catch(log.Destroy); pv2 != nil {
			w.Violate("C01:destroy-panic:"+c.Kind, fmt.Sprintf("Destroy panicked: %v\n%s", pv2, trunc(st2, 1200)), cs)
			continue
		}
		if pv != nil {
			continue
		}
		// observed deliveries: (sink,id) -> count and level name
		type obs struct {
			n     int
			level string
		}
		got := map[string]*obs{}
		note := func(sinkName string, b []byte, lv string) {
			for _, line := range bytes.Split(b, []byte("\n")) {
				if len(line) == 0 {
					continue
				}
				i := idOf(line)
				if i == "" {
					continue
				}
				l := lv
				if l == "" {
					l = levelOf(line)
				}
				key := sinkName + "|" + i
				o := got[key]
				if o == nil {
					o = &obs{level: l}
					got[key] = o
				}
				o.n++
				if o.level != l {
					o.level = o.level + "/" + l
				}
			}
		}
		for _, it := range rec.take() {
			if it.Kind == "event" {
				note(it.Sink, it.JSON, strings.ToUpper(it.Level.Name()))
				if it.Recycled {
					w.Violate("C01:event-recycled", "an event changed identity while an appender was still using it", cs)
				}
			} else {
				note(it.Sink, it.JSON, "")
			}
		}
		for _, ch := range sink.take() {
			note("console", ch, "")
		}
		if c.Dir != "" {
			ents, _ := os.ReadDir(c.Dir)
			for _, e := range ents {
				b, _ := os.ReadFile(filepath.Join(c.Dir, e.Name()))
				switch {
				case e.Name() == "f.log":
					note("file", b, "")
				case strings.HasPrefix(e.Name(), "app.log.wf.") && c01tsRe.MatchString(strings.TrimPrefix(e.Name(), "app.log.wf.")):
					note("rolling.wf", b, "")
				case strings.HasPrefix(e.Name(), "app.log.") && c01tsRe.MatchString(strings.TrimPrefix(e.Name(), "app.log.")):
					note("rolling", b, "")
				default:
					note("stray:"+e.Name(), b, "")
				}
			}
			_ = os.RemoveAll(c.Dir)
		}
		// compare with the model
		bad := false
		expKeys := map[string]c01call{}
		for _, cl := range calls {
			for _, s := range c.expectSinks(cl.level.code) {
				expKeys[s+"|"+cl.id] = cl
			}
		}
		kindKey := c.Kind
		if c.Kind == "rolling" {
			kindKey = fmt.Sprintf("rolling-sep%v-async%v", c.Separate, c.Async)
		}
		if c.Layout {
			kindKey += "+layout"
		}
		var keys []string
		for k := range expKeys {
			keys = append(keys, k)
		}
		sort.Strings(keys)
		for _, k := range keys {
			cl := expKeys[k]
			o := got[k]
			switch {
			case o == nil:
				bad = true
				w.Violate("C01:missing:"+kindKey, fmt.Sprintf("%s event at level %s(%d) via %s was not delivered to %s (logger level %q, refs %v)", cl.id, cl.level.name, cl.level.code, cl.entry, strings.Split(k, "|")[0], c.LogLevel, c.refsDesc()), cs)
			case o.n != 1:
				bad = true
				w.Violate("C01:duplicate:"+kindKey, fmt.Sprintf("%s delivered %d times to %s", cl.id, o.n, strings.Split(k, "|")[0]), cs)
			case o.level != cl.level.name:
				bad = true
				w.Violate("C01:wrong-level:"+cl.entry, fmt.Sprintf("%s logged through %s arrived with level %s, expected %s", cl.id, cl.entry, o.level, cl.level.name), cs)
			}
		}
		var gkeys []string
		for k := range got {
			gkeys = append(gkeys, k)
		}
		sort.Strings(gkeys)
		byID := map[string]c01call{}
		for _, cl := range calls {
			byID[cl.id] = cl
		}
		for _, k := range gkeys {
			if _, ok := expKeys[k]; !ok {
				bad = true
				parts := strings.Split(k, "|")
				cl := byID[parts[1]]
				w.Violate("C01:unexpected:"+kindKey, fmt.Sprintf("%s event at level %s(%d) via %s was delivered to %s although its level is not enabled on that path (logger level %q, refs %v)", parts[1], cl.level.name, cl.level.code, cl.entry, parts[0], c.LogLevel, c.refsDesc()), cs)
			}
		}
		w.Eval(1)
		w.Count("events_logged", int64(len(calls)))
		w.Count("deliveries_checked", int64(len(expKeys)))
		if !bad {
			// distinct class: kind, #refs, range shape
			shape := ""
			for _, rf := range c.Refs {
				switch {
				case rf.Level == "":
					shape += "e"
				case rf.explicit:
					shape += "x"
				default:
					shape += "o"
				}
			}
			eq := false
			for i := range c.Refs {
				for j := i + 1; j < len(c.Refs); j++ {
					if c.Refs[i].min == c.Refs[j].min {
						eq = true
					}
				}
			}
			w.Distinct(fmt.Sprintf("%s|refs=%s|eqmin=%v|loglvl=%v", kindKey, shape, eq, c.LogLevel != ""))
			if ci < 1 {
				w.Sample(map[string]any{"config": c.Config, "events": len(calls), "deliveries": len(expKeys)})
			}
		}
	}
}

func (c *c01case) refsDesc() string {
	var s []string
	for _, r := range c.Refs {
		s = append(s, fmt.Sprintf("%s:%q", r.Sink, r.Level))
	}
	return strings.Join(s, " ")
}

func init() {
	register(&Prop{
		ID: "C01", Level: "exploration", MinDistinct: 40, Worker: c01Worker,
		Rule: "configurations generated from a seeded grammar: logger kind in {Logger, AsyncLogger(Block), Console, File, RollingFile sync/async x separate on/off}, each with/without a logger-level JSON layout; logger range and 1-4 appenderRef ranges drawn from \"\" | MIN | MIN~MAX over 9 built-in and 9 harness-registered levels (codes MinInt32,-5,1,50,350,998,1000,1500,MaxInt32), random letter case, " +
			"references declared in random index order, equal lower bounds forced in 1/4 of the cases; every case is Refreshed, all 15 entry points are called (Record at all 16 registered levels) with unique ids, then Destroy. Oracle: independent re-implementation of the routing statement; multiset of (sink,id) and the level per id must match exactly. " +
			"Non-trivial/distinct = distinct (logger kind+layout, reference range shapes, equal-lower-bound present, logger level set) classes among configurations that matched.",
		Assumptions: []string{"references with an explicit ~MAX upper bound and two references to the same appender are not generated (statement does not fix the outcome)", "async loggers use the Block policy so that nothing is legitimately dropped; they are flushed by Destroy"},
		Run: func(d *D) {
			var specs []Spec
			for i := 0; i < 16; i++ {
				s := d.NewSpec("cfg", fmt.Sprintf("cfg-%d", i), i, 16)
				s.N = d.Pick(4000, 40000)
				specs = append(specs, s)
			}
			// a slice of the same configurations under the race detector (async loggers, rolling loggers with inner workers)
			for i := 0; i < int(d.Pick(2, 6)); i++ {
				s := d.NewSpec("cfg", fmt.Sprintf("cfg-race-%d", i), 200+i, 16)
				s.N = d.Pick(250, 3000)
				s.Flavour = "race"
				specs = append(specs, s)
			}
			outs := d.RunWorkers(specs, 16)
			d.raceVerdict(outs)
		},
	})
}
