package main

// C04 — async logger: delivered + discarded = submitted, nothing twice.
// Conservation oracle over recorded histories; race detector; seeded yield-point perturbation.

import (
	"context"
	"fmt"
	"hash/crc32"
	"strings"
	"sync"
	"time"

	log "github.com/go-spring/log"
)

type asyncCase struct {
	Policy    string `json:"policy"`
	Buf       int    `json:"buf"`
	Producers int    `json:"producers"`
	PerProd   int    `json:"per_producer"`
	Appender  string `json:"appender"` // fast | slow | gated
	Layout    bool   `json:"layout"`
	ViaCfg    bool   `json:"via_refresh"`
	RawPct    int    `json:"raw_pct"`
	DisPct    int    `json:"disabled_pct"`
	Yield     uint64 `json:"yield_prob"`
}

func (c asyncCase) class() string {
	return fmt.Sprintf("%s|buf%d|P%d|%s|layout=%v|cfg=%v", c.Policy, c.Buf, c.Producers, c.Appender, c.Layout, c.ViaCfg)
}

var asyncSeq int

// buildAsync creates and starts an AsyncLogger either directly (exported fields) or through Refresh.
// It returns the logger, the sink name and a stop function (Stop or Destroy).
func buildAsync(c asyncCase, tagName string) (*log.AsyncLogger, string, func(), error) {
	asyncSeq++
	sinkName := fmt.Sprintf("as%d", asyncSeq)
	apType := map[string]string{"fast": "VRec", "slow": "VSlow", "gated": "VGate"}[c.Appender]
	if c.ViaCfg {
		cfg := map[string]string{
			"appender." + sinkName + ".type": apType,
			"logger.lg.type":                 "AsyncLogger", "logger.lg.tags": tagName, "logger.lg.level": "INFO",
			"logger.lg.bufferSize": fmt.Sprint(c.Buf), "logger.lg.bufferFullPolicy": c.Policy, "logger.lg.appenderRef.ref": sinkName,
		}
		if c.Appender == "slow" {
			cfg["appender."+sinkName+".delayUs"] = "60"
		}
		if c.Layout {
			cfg["logger.lg.layout.type"] = "JSONLayout"
		}
		if err := log.Refresh(cfg); err != nil {
			log.Destroy()
			return nil, "", nil, err
		}
		ls, _ := log.VerifGlobals()
		for _, l := range ls {
			if a, ok := l.(*log.AsyncLogger); ok {
				return a, sinkName, log.Destroy, nil
			}
		}
		log.Destroy()
		return nil, "", nil, fmt.Errorf("no AsyncLogger among the live loggers")
	}
	var ap log.Appender
	switch c.Appender {
	case "fast":
		ap = &VRec{AppenderBase: log.AppenderBase{Name: sinkName}}
	case "slow":
		ap = &VSlow{AppenderBase: log.AppenderBase{Name: sinkName}, DelayUS: 60}
	case "gated":
		ap = &VGate{AppenderBase: log.AppenderBase{Name: sinkName}}
	}
	pol := map[string]log.BufferFullPolicy{"Block": log.BufferFullPolicyBlock, "Discard": log.BufferFullPolicyDiscard, "DiscardOldest": log.BufferFullPolicyDiscardOldest}[c.Policy]
	l := &log.AsyncLogger{
		LoggerBase:       log.LoggerBase{Name: "direct", Level: log.LevelRange{MinLevel: log.InfoLevel, MaxLevel: log.MaxLevel}},
		AppenderRefs:     log.AppenderRefs{AppenderRefs: []*log.AppenderRef{{Appender: ap, Ref: sinkName, Level: log.LevelRange{MinLevel: log.NoneLevel, MaxLevel: log.MaxLevel}}}},
		BufferSize:       c.Buf,
		BufferFullPolicy: pol,
	}
	if c.Layout {
		l.Layout = &log.JSONLayout{BaseLayout: log.BaseLayout{FileLineLength: 48}}
	}
	if err := l.Start(); err != nil {
		return nil, "", nil, err
	}
	return l, sinkName, l.Stop, nil
}

func appendEvent(l interface{ Append(*log.Event) }, level log.Level, id string) {
	e := log.GetEvent()
	e.Level = level
	e.Time = time.Unix(1700000000, 0)
	e.Tag = "c04"
	e.Fields = []log.Field{log.Msg(id)}
	l.Append(e)
}

// c04backlog: Stop must wait for the whole backlog however long the appender takes: with a slow appender
// the queue holds several seconds of work when Stop is called; afterwards every item must be delivered.
func c04backlog(w *W) {
	registerMonitorPlugins()
	perItem := time.Duration(w.ArgInt("delay_us", 5000)) * time.Microsecond
	n := int(w.Spec.N)
	for _, policy := range []string{w.Arg("policy", "Block")} {
		asyncSeq++
		sinkName := fmt.Sprintf("bl%d", asyncSeq)
		ap := &VSlow{AppenderBase: log.AppenderBase{Name: sinkName}, DelayUS: int(perItem / time.Microsecond)}
		all := log.LevelRange{MinLevel: log.NoneLevel, MaxLevel: log.MaxLevel}
		pol := map[string]log.BufferFullPolicy{"Block": log.BufferFullPolicyBlock, "DiscardOldest": log.BufferFullPolicyDiscardOldest, "Discard": log.BufferFullPolicyDiscard}[policy]
		l := &log.AsyncLogger{LoggerBase: log.LoggerBase{Name: "backlog", Level: all}, BufferSize: n + 100, BufferFullPolicy: pol,
			AppenderRefs: log.AppenderRefs{AppenderRefs: []*log.AppenderRef{{Appender: ap, Level: all}}}}
		if err := l.Start(); err != nil {
			w.Violate("C04:start-failed", err.Error(), nil)
			return
		}
		rec.take()
		for i := 0; i < n; i++ {
			id := fmt.Sprintf("id-b%sx%d-%d", policy[:1], w.Spec.Shard, i)
			if i%5 == 4 {
				l.Write([]byte("raw " + id + "\n"))
			} else {
				appendEvent(l, log.InfoLevel, id)
			}
		}
		cs := map[string]any{"scenario": "backlog", "policy": policy, "items": n, "per_item": perItem.String(), "backlog": (time.Duration(n) * perItem).String()}
		w.Journal("C04 backlog %v", cs)
		t0 := time.Now()
		done, pv, _ := callWithWatchdog(time.Duration(n)*perItem*4+60*time.Second, l.Stop)
		if !done || pv != nil {
			w.Inconclusive(fmt.Sprintf("backlog: Stop did not return / panicked (%v)", pv))
			return
		}
		got := map[string]int{}
		for _, it := range rec.take() {
			if it.Sink == sinkName {
				got[idOf(it.JSON)]++
			}
		}
		w.Eval(1)
		w.Count("backlog_items", int64(n))
		if int64(len(got))+l.GetDiscardCounter() != int64(n) {
			w.Violate("C04:conservation:lost:backlog-"+policy, fmt.Sprintf("Stop returned after %v with a backlog of %v: delivered %d + discarded %d != submitted %d (nothing was dropped by policy: the buffer never filled)", time.Since(t0).Round(time.Millisecond), time.Duration(n)*perItem, len(got), l.GetDiscardCounter(), n), cs)
		} else {
			w.Distinct(fmt.Sprintf("backlog|%s|%v", policy, time.Duration(n)*perItem))
			w.Sample(cs)
		}
	}
}

// raw payloads that carry no id: zero-length, bare line terminators, a blank, a NUL byte
var c04anon = []string{"", "\n", "", "\r\n", " ", "\x00", "\n\n", "\r"}

func c04Worker(w *W) {
	if w.Spec.Kind == "backlog" {
		c04backlog(w)
		return
	}
	if w.Spec.Kind == "relife" {
		c04relife(w)
		return
	}
	if w.Spec.Kind == "builtinfile" {
		asyncBuiltinFile(w, "C04")
		return
	}
	registerMonitorPlugins()
	tag := log.RegisterTag("c04tag")
	ctx := context.Background()
	r := w.Rng()
	y := installYielder(uint64(w.Spec.Seed)+uint64(w.Spec.Shard), 0, 0)
	n := int(w.Spec.N)
	race := w.Spec.Flavour == "race"
	orders := map[uint32]bool{}
	for ci := 0; ci < n; ci++ {
		c := asyncCase{
			Policy:    []string{"Block", "Discard", "DiscardOldest"}[(ci+w.Spec.Shard)%3],
			Buf:       []int{100, 101, 128, 1000}[r.IntN(4)],
			Producers: []int{1, 2, 4, 8, 32}[r.IntN(5)],
			Appender:  []string{"fast", "slow", "gated", "slow"}[r.IntN(4)],
			Layout:    r.IntN(3) == 0,
			ViaCfg:    r.IntN(3) == 0,
			RawPct:    []int{0, 20, 50}[r.IntN(3)],
			DisPct:    []int{0, 15, 40}[r.IntN(3)],
			Yield:     []uint64{0, 3, 11}[r.IntN(3)],
		}
		total := 2000 + r.IntN(6000)
		if race {
			total = 600 + r.IntN(1500)
		}
		if c.Appender == "slow" && c.Policy == "Block" {
			total /= 4
		}
		c.PerProd = total/c.Producers + 1
		w.Journal("C04 case %d %+v", ci, c)
		y.prob, y.maxUS = c.Yield, 30
		rec.take()
		l, sinkName, stop, err := buildAsync(c, "c04tag")
		if err != nil {
			w.Violate("C04:start-failed", "could not start the async logger: "+err.Error(), c)
			continue
		}
		g := gateFor(sinkName)
		g.Open.Store(c.Appender != "gated")
		type sub struct {
			id      string
			enabled bool
		}
		subs := make([][]sub, c.Producers)
		nEmpty := make([]int, c.Producers)
		var anonMu sync.Mutex
		anonSub, anonDel := map[string]int{}, map[string]int{}
		var wg sync.WaitGroup
		for p := 0; p < c.Producers; p++ {
			pr := newRng(w.Spec.Seed, uint64(w.Spec.Shard)*7919+uint64(ci)*131+uint64(p))
			// decide the items up front (deterministic per seed)
			kinds := make([]int, c.PerProd) // 0 enabled event, 1 disabled event, 2 raw write, 3 raw write of length 0
			for i := range kinds {
				x := pr.IntN(100)
				switch {
				case x < c.RawPct && pr.IntN(12) == 0:
					// a zero-length raw write - or a bare line terminator, a blank, a NUL - is an item like any other (delivered
					// once, verbatim, or counted); it cannot carry an id, so these are accounted for by number per payload
					kinds[i] = 3
					nEmpty[p]++
				case x < c.RawPct:
					kinds[i] = 2
				case x < c.RawPct+c.DisPct:
					kinds[i] = 1
				}
			}
			wg.Add(1)
			go func(p int) {
				defer wg.Done()
				for i, k := range kinds {
					id := fmt.Sprintf("id-p%dc%d-%d", p, ci, i)
					switch k {
					case 0:
						lv := []log.Level{log.InfoLevel, log.WarnLevel, log.ErrorLevel}[i%3]
						if c.ViaCfg {
							log.Record(ctx, lv, tag, 1, log.Msg(id))
						} else {
							appendEvent(l, lv, id)
						}
						subs[p] = append(subs[p], sub{id, true})
					case 1:
						if c.ViaCfg {
							log.Debugf(ctx, tag, "%s", id)
						} else {
							appendEvent(l, log.DebugLevel, id)
						}
						subs[p] = append(subs[p], sub{id, false})
					case 2:
						l.Write([]byte("raw " + id + "\n"))
						subs[p] = append(subs[p], sub{id, true})
					case 3:
						pl := c04anon[(i+p)%len(c04anon)]
						if pl == "" && i%2 == 0 {
							l.Write(nil)
						} else {
							l.Write([]byte(pl))
						}
						anonMu.Lock()
						anonSub[pl]++
						anonMu.Unlock()
					}
				}
			}(p)
		}
		if c.Appender == "gated" {
			// first phase with the consumer stuck inside the appender, then let it run
			time.Sleep(time.Duration(200+r.IntN(800)) * time.Microsecond)
			g.Open.Store(true)
			for i := 0; i < 4; i++ {
				g.Gate <- struct{}{}
			}
		}
		done := make(chan struct{})
		go func() { wg.Wait(); close(done) }()
		// No wall-clock verdict: under Block a producer parked on the full queue is normal while the consumer is slow or
		// the machine is loaded. The producers are only declared blocked when nothing at all was delivered or discarded for
		// six consecutive 10 s observations AND the consumer is not inside the harness's own appender.
		progress := func() int64 { return int64(rec.count()) + l.GetDiscardCounter() }
		last, stale, waited := progress(), 0, 0
	waitProducers:
		for {
			select {
			case <-done:
				break waitProducers
			case <-time.After(10 * time.Second):
			}
			waited++
			if cur := progress(); cur != last {
				last, stale = cur, 0
				if waited > 120 {
					w.Inconclusive("C04 producers still making progress after 20 minutes: " + c.class())
					w.flush()
					return
				}
				continue
			}
			if stale++; stale < 6 {
				continue
			}
			dump := goroutineDump()
			consumer := ""
			for _, gr := range strings.Split(dump, "\n\n") {
				if strings.Contains(gr, "(*AsyncLogger).Start.func") {
					consumer = gr
				}
			}
			blocked, gr := blockedInLibrary(dump, "c04Worker")
			switch {
			case blocked && !strings.Contains(consumer, "main.(*V"):
				w.Violate("C04:producer-blocked:"+c.Policy, "no item was delivered or discarded for 60 s while a producer is parked inside the library and the consumer is not inside the appender:\n"+trunc(gr, 1200)+"\n-- consumer goroutine --\n"+trunc(consumer, 1200), c)
			default:
				w.Inconclusive("C04 producers made no progress for 60 s (consumer inside the harness appender or no producer parked in the library): " + c.class())
			}
			w.flush()
			return
		}
		// producers are joined: now Stop (property: counts are exact once Stop has returned)
		okStop, pv, dump := callWithWatchdog(90*time.Second, stop)
		if !okStop {
			if blocked, gr := blockedInLibrary(dump, "watchdogMarker"); blocked {
				w.Violate("C04:stop-blocked:"+c.Policy, "Stop is parked inside the library:\n"+trunc(gr, 1500), c)
			} else {
				w.Inconclusive("C04 Stop did not return within the watchdog: " + c.class())
			}
			w.flush()
			return
		}
		if pv != nil {
			w.Violate("C04:stop-panic", fmt.Sprintf("Stop panicked: %v", pv), c)
			continue
		}
		discarded := l.GetDiscardCounter()
		delivered := map[string]int{}
		nDelivered := 0
		ghost := ""
		orderSig := crc32.NewIEEE()
		emptyDelivered, emptySubmitted := 0, 0
		for _, k := range nEmpty {
			emptySubmitted += k
		}
		for _, it := range rec.take() {
			if it.Sink != sinkName {
				continue
			}
			id := idOf(it.JSON)
			if i := strings.IndexByte(id, 'c'); i > 0 {
				orderSig.Write([]byte(id[:i])) // producer part only: the interleaving of producers as seen by the appender
			}
			if it.Kind == "write" && id == "" {
				if _, known := anonSub[string(it.JSON)]; known {
					anonDel[string(it.JSON)]++
					emptyDelivered++
					nDelivered++
					continue
				}
			}
			if id == "" {
				ghost = trunc(string(it.JSON), 200)
			}
			delivered[id]++
			nDelivered++
			if it.Recycled {
				w.Violate("C04:event-recycled", "an event changed identity while the appender was using it", c)
			}
		}
		submittedEnabled := emptySubmitted
		bad := false
		for pl, ns := range anonSub {
			if nd := anonDel[pl]; nd > ns || (c.Policy == "Block" && nd != ns) {
				bad = true
				w.Violate("C04:anonymous-raw-writes:"+c.Policy, fmt.Sprintf("[%s] the raw payload %q was submitted %d times and reached the appender %d times", c.class(), pl, ns, nd), c)
				break
			}
		}
		w.Count("anonymous_raw_writes_submitted", int64(emptySubmitted))
		w.Count("anonymous_raw_writes_delivered", int64(emptyDelivered))
		for p := range subs {
			for _, s := range subs[p] {
				d := delivered[s.id]
				if s.enabled {
					submittedEnabled++
					if d > 1 {
						bad = true
						w.Violate("C04:delivered-twice:"+c.Policy, fmt.Sprintf("[%s] %s was delivered %d times", c.class(), s.id, d), c)
					}
					if d == 0 && c.Policy == "Block" {
						bad = true
						w.Violate("C04:lost-under-block", fmt.Sprintf("[%s] %s was neither delivered nor may it be discarded under Block", c.class(), s.id), c)
					}
				} else if d > 0 {
					bad = true
					w.Violate("C04:disabled-delivered", fmt.Sprintf("[%s] %s (below the logger's level) was delivered", c.class(), s.id), c)
				}
				delete(delivered, s.id)
			}
		}
		for id, k := range delivered {
			bad = true
			if id == "" {
				w.Violate("C04:ghost-item:"+c.Policy, fmt.Sprintf("[%s] %d delivered item(s) carry no submitted id (e.g. %q)", c.class(), k, ghost), c)
			} else {
				w.Violate("C04:ghost-item:"+c.Policy, fmt.Sprintf("[%s] delivered id %s was never submitted", c.class(), id), c)
			}
			break
		}
		if int64(nDelivered)+discarded != int64(submittedEnabled) {
			bad = true
			dir := "lost"
			if int64(nDelivered)+discarded > int64(submittedEnabled) {
				dir = "overcounted"
			}
			w.Violate("C04:conservation:"+dir+":"+c.Policy, fmt.Sprintf("[%s] delivered %d + discarded %d != submitted(enabled) %d", c.class(), nDelivered, discarded, submittedEnabled), c)
		}
		if c.Policy == "Block" && discarded != 0 {
			bad = true
			w.Violate("C04:block-discards", fmt.Sprintf("[%s] discard counter is %d under the Block policy", c.class(), discarded), c)
		}
		w.Eval(1)
		w.Count("items_submitted", int64(c.Producers*c.PerProd))
		w.Count("items_delivered", int64(nDelivered))
		w.Count("items_discarded", discarded)
		orders[orderSig.Sum32()] = true
		if !bad {
			dk := "nodrop"
			if discarded > 0 {
				dk = "drops"
			}
			w.Distinct(c.class() + "|" + dk)
			if ci == 0 {
				w.Sample(map[string]any{"case": c, "submitted_enabled": submittedEnabled, "delivered": nDelivered, "discarded": discarded})
			}
		}
	}
	for k, v := range y.counts() {
		w.Count("yield_"+k, v)
	}
	w.Count("distinct_producer_interleavings_seen_at_the_appender", int64(len(orders)))
}

func init() {
	register(&Prop{
		ID: "C04", Level: "exploration", MinDistinct: 30, Worker: c04Worker,
		Rule: "runs: AsyncLogger built directly (exported fields) or through Refresh, policy cycling over Block/Discard/DiscardOldest, buffer size in {100,101,128,1000}, 1-32 producers, appender fast/slow(60us)/gated-for-the-first-phase, with/without a logger-level layout, item mix of enabled events (3 levels), disabled-level events and raw writes, each item with a unique (producer,seq) id; producers are joined before Stop; " +
			"yield points between enqueue/drop/worker steps are perturbed by a seeded callback. Oracle after Stop returned: delivered + discard counter = submitted at an enabled level, every delivered id submitted exactly once, nothing below the level delivered, Block => counter 0 and everything delivered. The same runs are repeated in a -race build; three further runs (one per policy) leave a backlog of 6.5 s (thorough: 30 s) behind a 5 ms/item appender at the moment of Stop (Stop must wait for all of it). " +
			"Non-trivial/distinct = distinct (policy, buffer, producers, appender, layout, construction, drops occurred) classes among runs whose counts were exact.",
		Assumptions: []string{"items racing with Stop are excluded by the statement: producers are joined first", "schedules are those produced by the scheduler plus seeded yields (hit counts reported)"},
		Run: func(d *D) {
			var specs []Spec
			for i := 0; i < 12; i++ {
				s := d.NewSpec("cons", fmt.Sprintf("cons-%d", i), i, 16)
				s.N = d.Pick(8, 120)
				s.TimeoutS = int(d.Pick(300, 1500))
				specs = append(specs, s)
			}
			for i := 0; i < 4; i++ {
				s := d.NewSpec("cons", fmt.Sprintf("race-%d", i), 100+i, 16)
				s.Flavour = "race"
				s.N = d.Pick(6, 60)
				s.TimeoutS = int(d.Pick(300, 1500))
				specs = append(specs, s)
			}
			// a backlog of several seconds at the moment of Stop (quick: 2 x ~3 s, thorough: 2 x ~20 s)
			for i, pol := range []string{"Block", "DiscardOldest", "Discard"} {
				b := d.NewSpec("backlog", "backlog-"+pol, 200+i, 16)
				b.N = d.Pick(1300, 6000) // x 5 ms per item: 6.5 s / 30 s of queued work when Stop is called
				b.Args["policy"] = pol
				b.TimeoutS = int(d.Pick(300, 900))
				specs = append(specs, b)
			}
			specs = append(specs, d.NewSpec("builtinfile", "builtinfile", 400, 16))
			for i := 0; i < int(d.Pick(2, 6)); i++ {
				s := d.NewSpec("relife", fmt.Sprintf("relife-%d", i), 300+i, 16)
				s.N = d.Pick(6, 40)
				if i == 1 {
					s.Flavour = "race"
				}
				specs = append(specs, s)
			}
			specs = d.WithRuntimeVariants(specs, int(d.Pick(3, 1)), func(s Spec) bool { return s.Kind == "cons" })
			outs := d.RunWorkers(specs, 16)
			d.raceVerdict(outs)
		},
	})
}
