package main

// C09 — string escaping is total, exact and never leaks raw control bytes.
// Oracle: a strict JSON string-literal validator/decoder written here (independent of the
// library), cross-checked against encoding/json on the smaller spaces.

import (
	"bytes"
	"encoding/json"
	"fmt"
	"runtime"
	"strings"
	"sync"
	"sync/atomic"
	"time"
	"unicode/utf8"
	"unsafe"

	log "github.com/go-spring/log"
)

// expectedDecode is the statement's right-hand side: the input with each invalid UTF-8 byte
// replaced by one U+FFFD.
func expectedDecode(dst []byte, s string) []byte {
	dst = dst[:0]
	for i := 0; i < len(s); {
		r, size := utf8.DecodeRuneInString(s[i:])
		if r == utf8.RuneError && size == 1 {
			dst = append(dst, 0xEF, 0xBF, 0xBD)
			i++
			continue
		}
		dst = append(dst, s[i:i+size]...)
		i += size
	}
	return dst
}

func hexv(c byte) int {
	switch {
	case c >= '0' && c <= '9':
		return int(c - '0')
	case c >= 'a' && c <= 'f':
		return int(c-'a') + 10
	case c >= 'A' && c <= 'F':
		return int(c-'A') + 10
	}
	return -1
}

// strictStringBody validates the body of a JSON string literal (without the surrounding quotes)
// per RFC 8259 and decodes it. why != "" means invalid.
func strictStringBody(dst []byte, b []byte) (out []byte, why string) {
	dst = dst[:0]
	for i := 0; i < len(b); {
		c := b[i]
		switch {
		case c < 0x20:
			return dst, fmt.Sprintf("raw control byte 0x%02x at %d", c, i)
		case c == '"':
			return dst, fmt.Sprintf("unescaped quote at %d", i)
		case c == '\\':
			if i+1 >= len(b) {
				return dst, "dangling backslash at end"
			}
			e := b[i+1]
			switch e {
			case '"', '\\', '/':
				dst = append(dst, e)
				i += 2
			case 'b':
				dst = append(dst, '\b')
				i += 2
			case 'f':
				dst = append(dst, '\f')
				i += 2
			case 'n':
				dst = append(dst, '\n')
				i += 2
			case 'r':
				dst = append(dst, '\r')
				i += 2
			case 't':
				dst = append(dst, '\t')
				i += 2
			case 'u':
				if i+6 > len(b) {
					return dst, "truncated \\u escape"
				}
				v := 0
				for k := 2; k < 6; k++ {
					h := hexv(b[i+k])
					if h < 0 {
						return dst, "bad hex digit in \\u escape"
					}
					v = v<<4 | h
				}
				i += 6
				r := rune(v)
				if r >= 0xD800 && r <= 0xDBFF {
					// needs a low surrogate
					if i+6 <= len(b) && b[i] == '\\' && b[i+1] == 'u' {
						v2 := 0
						okh := true
						for k := 2; k < 6; k++ {
							h := hexv(b[i+k])
							if h < 0 {
								okh = false
								break
							}
							v2 = v2<<4 | h
						}
						if okh && v2 >= 0xDC00 && v2 <= 0xDFFF {
							r = 0x10000 + (r-0xD800)<<10 + rune(v2-0xDC00)
							i += 6
						} else {
							return dst, "lone high surrogate escape"
						}
					} else {
						return dst, "lone high surrogate escape"
					}
				} else if r >= 0xDC00 && r <= 0xDFFF {
					return dst, "lone low surrogate escape"
				}
				dst = utf8.AppendRune(dst, r)
			default:
				return dst, fmt.Sprintf("invalid escape \\%c at %d", e, i)
			}
		case c < utf8.RuneSelf:
			dst = append(dst, c)
			i++
		default:
			r, size := utf8.DecodeRune(b[i:])
			if r == utf8.RuneError && size == 1 {
				return dst, fmt.Sprintf("invalid UTF-8 byte 0x%02x at %d in output", c, i)
			}
			dst = append(dst, b[i:i+size]...)
			i += size
		}
	}
	return dst, ""
}

type c09state struct {
	w        *W
	buf      bytes.Buffer
	exp, dec []byte
	nontriv  int64
	evals    int64
	useJSON  bool // also cross-check with encoding/json
	crossBad int64
}

// check runs the library on s and the oracle on the result. It returns a description when violated.
func (st *c09state) check(s string) string {
	st.evals++
	st.buf.Reset()
	if pv, _ := catch(func() { log.WriteLogString(&st.buf, s) }); pv != nil {
		return fmt.Sprintf("WriteLogString panicked: %v", pv)
	}
	out := st.buf.Bytes()
	var why string
	st.dec, why = strictStringBody(st.dec, out)
	if why != "" {
		return "output is not a valid JSON string literal: " + why
	}
	st.exp = expectedDecode(st.exp, s)
	if !bytes.Equal(st.dec, st.exp) {
		return fmt.Sprintf("decodes to %q, expected %q", st.dec, st.exp)
	}
	if len(out) != len(s) || string(out) != s {
		st.nontriv++
	}
	if st.useJSON {
		var js string
		lit := make([]byte, 0, len(out)+2)
		lit = append(lit, '"')
		lit = append(lit, out...)
		lit = append(lit, '"')
		if err := json.Unmarshal(lit, &js); err != nil {
			return "encoding/json rejects the literal: " + err.Error()
		}
		if js != string(st.exp) {
			// the two oracles disagree with each other: report (oracle cross-check)
			st.crossBad++
			return fmt.Sprintf("encoding/json decodes to %q, expected %q", js, st.exp)
		}
	}
	return ""
}

func c09class(s string) string {
	// bitmask of byte/sequence classes present
	var m uint32
	for i := 0; i < len(s); {
		c := s[i]
		switch {
		case c == '\n' || c == '\r' || c == '\t':
			m |= 1
		case c < 0x20:
			m |= 2
		case c == '"':
			m |= 4
		case c == '\\':
			m |= 8
		case c == 0x7f:
			m |= 16
		case c < 0x80:
			m |= 32
		}
		if c < 0x80 {
			i++
			continue
		}
		r, size := utf8.DecodeRuneInString(s[i:])
		if r == utf8.RuneError && size == 1 {
			switch {
			case c < 0xC0:
				m |= 64 // stray continuation
			case c < 0xC2:
				m |= 128 // overlong lead
			case c >= 0xF5:
				m |= 256 // invalid lead
			case c == 0xED:
				m |= 512 // possibly surrogate
			default:
				m |= 1024 // truncated / bad continuation
			}
			i++
			continue
		}
		switch size {
		case 2:
			m |= 2048
		case 3:
			m |= 4096
			if r == 0x2028 || r == 0x2029 {
				m |= 1 << 14
			}
			if r == utf8.RuneError {
				m |= 1 << 15
			}
		case 4:
			m |= 8192
		}
		i += size
	}
	return fmt.Sprintf("mask%05x", m)
}

var c09boundary = []byte{0x00, 0x1F, 0x20, 0x22, 0x5C, 0x7F, 0x80, 0xBF, 0xC2, 0xDF, 0xE0, 0xED, 0xF0, 0xF4, 0xF5, 0xFF}

func c09Worker(w *W) {
	st := &c09state{w: w}
	report := func(s, why, space string) {
		w.Violate("C09:"+space+":"+classifyC09Why(why), fmt.Sprintf("input %q (hex % x): %s", s, s, why), map[string]any{"hex": fmt.Sprintf("%x", s)})
	}
	if w.Spec.Replay != nil {
		var c struct {
			Hex string `json:"hex"`
		}
		_ = json.Unmarshal(w.Spec.Replay, &c)
		var s []byte
		fmt.Sscanf(c.Hex, "%x", &s)
		st.useJSON = true
		if why := st.check(string(s)); why != "" {
			report(string(s), why, "replay")
		}
		if why := c09layouts(string(s)); why != "" {
			report(string(s), why, "layout")
		}
		w.Eval(1)
		return
	}
	switch w.Spec.Kind {
	case "exh":
		// all byte strings of length L whose first byte ≡ shard (mod nshards); plus all shorter ones in shard 0
		L := int(w.Spec.N)
		st.useJSON = L <= 3
		var rec func(prefix []byte, l int)
		rec = func(prefix []byte, l int) {
			if len(prefix) == l {
				if why := st.check(string(prefix)); why != "" {
					report(string(prefix), why, "exh")
				}
				return
			}
			for b := 0; b < 256; b++ {
				if len(prefix) == 0 && l > 0 && b%w.Spec.NShards != w.Spec.Shard {
					continue
				}
				rec(append(prefix, byte(b)), l)
			}
		}
		// fast path for the innermost loops: reuse one slice
		for l := 0; l <= L; l++ {
			if l == 0 {
				if w.Spec.Shard == 0 {
					rec(nil, 0)
				}
				continue
			}
			if l < L && !(w.Spec.Args["shorter"] == "1") {
				continue
			}
			buf := make([]byte, 0, l)
			rec(buf, l)
		}
		w.Res.DistinctCount = st.nontriv
		w.Sample(map[string]any{"space": fmt.Sprintf("all byte strings of length %s%d, first byte ≡ %d mod %d", map[bool]string{true: "<= ", false: ""}[w.Spec.Args["shorter"] == "1"], L, w.Spec.Shard, w.Spec.NShards), "example_input_hex": "22 5c 0a ff", "example_output": `\"\\\n�`})
	case "boundary":
		// all strings of length <= L over the 16-symbol boundary alphabet, first symbol ≡ shard; lengths > MinLen only
		L := int(w.Spec.N)
		minLen := w.ArgInt("minlen", 0)
		st.useJSON = true
		idx := make([]int, L)
		for l := minLen; l <= L; l++ {
			if l == 0 {
				continue
			}
			for i := range idx {
				idx[i] = 0
			}
			s := make([]byte, l)
			for {
				if idx[0]%w.Spec.NShards == w.Spec.Shard {
					for i := 0; i < l; i++ {
						s[i] = c09boundary[idx[i]]
					}
					if why := st.check(string(s)); why != "" {
						report(string(s), why, "boundary")
					}
				}
				// increment
				k := l - 1
				for k >= 0 {
					idx[k]++
					if idx[k] < 16 {
						break
					}
					idx[k] = 0
					k--
				}
				if k < 0 {
					break
				}
			}
		}
		w.Res.DistinctCount = st.nontriv
		w.Sample(map[string]any{"space": fmt.Sprintf("boundary alphabet {% x}, lengths %d..%d", c09boundary, minLen, L)})
	case "conc":
		// the escaper under concurrency: G goroutines escape the same strings at once, each into its own buffer; every
		// output must be byte-identical to the output the string produced when escaped alone (state shared between
		// calls - scratch buffers, templates, tables built lazily - would show here and nowhere in the sequential spaces)
		r := w.Rng()
		n := int(w.Spec.N)
		ins := make([]string, n)
		outs := make([][]byte, n)
		pool := append(append([]byte{}, c09boundary...), 0x01, 0x02, 0x0b, 0x0c, 0x0e, 0x1e, 0x1f, '"', '\\', '\n', '\r', '\t', 'a', 'b', ' ', 0xe2, 0x82, 0xac, 0xf0, 0x9f, 0x98, 0x80)
		for i := range ins {
			l := 1 + r.IntN(40)
			if i%10 == 0 {
				l = 100 + r.IntN(400)
			}
			b := make([]byte, l)
			for k := range b {
				if r.IntN(3) == 0 {
					b[k] = byte(r.IntN(256))
				} else {
					b[k] = pool[r.IntN(len(pool))]
				}
			}
			ins[i] = string(b)
			if why := st.check(ins[i]); why != "" {
				report(ins[i], why, "random")
			}
			var buf bytes.Buffer
			log.WriteLogString(&buf, ins[i])
			outs[i] = append([]byte(nil), buf.Bytes()...)
		}
		G := w.ArgInt("g", 16)
		var wg sync.WaitGroup
		var bad atomic.Int64
		for g := 0; g < G; g++ {
			wg.Add(1)
			go func(g int) {
				defer wg.Done()
				gr := newRng(w.Spec.Seed, uint64(w.Spec.Shard)*131+uint64(g)+909)
				var buf bytes.Buffer
				for rep := 0; rep < 6*n && bad.Load() == 0; rep++ {
					i := gr.IntN(n)
					buf.Reset()
					log.WriteLogString(&buf, ins[i])
					if !bytes.Equal(buf.Bytes(), outs[i]) {
						if bad.Add(1) == 1 {
							w.Violate("C09:concurrent:differs-from-alone", fmt.Sprintf("%d goroutines escaping at once: input %x produced %q, alone it produced %q", G, ins[i], trunc(buf.String(), 300), trunc(string(outs[i]), 300)), map[string]any{"hex": fmt.Sprintf("%x", ins[i]), "goroutines": G})
						}
					}
				}
			}(g)
		}
		wg.Wait()
		// keys nobody has formatted before, met by all goroutines at the same moment (spin barrier per key): whatever an
		// encoder remembers about keys, every goroutine's document carries the escaped key - the first user's and the
		// one that arrives while the first is still at work
		{
			R := 300
			keys := make([]string, R)
			for i := range keys {
				b := []byte(fmt.Sprintf("fresh-%d-%d-", w.Spec.Shard, i))
				for k := 4 + r.IntN(60); k > 0; k-- {
					b = append(b, pool[r.IntN(len(pool))])
				}
				if i%2 == 0 {
					b = append(b, '\n', '"', 0xff)
				}
				keys[i] = string(b)
			}
			var arrive, badK atomic.Int64
			var wg2 sync.WaitGroup
			for g := 0; g < G; g++ {
				wg2.Add(1)
				go func() {
					defer wg2.Done()
					for i := 0; i < R && badK.Load() == 0; i++ {
						arrive.Add(1)
						for spins := 0; arrive.Load() < int64((i+1)*G) && badK.Load() == 0; spins++ {
							if spins%64 == 63 {
								runtime.Gosched()
							}
						}
						if why := c09layouts(keys[i]); why != "" && badK.Add(1) == 1 {
							report(keys[i], fmt.Sprintf("%d goroutines use a never-seen key at the same moment: %s", G, why), "layout")
						}
					}
				}()
			}
			wg2.Wait()
			w.Count("fresh_keys_met_in_lockstep", int64(R))
			if badK.Load() == 0 {
				w.Distinct(fmt.Sprintf("fresh-keys-lockstep|G=%d|%s", G, w.Spec.Flavour))
			}
		}
		w.Count("concurrent_escapes_compared", int64(6*n*G))
		if bad.Load() == 0 {
			w.Distinct(fmt.Sprintf("concurrent|G=%d|%s", G, w.Spec.Flavour))
		}
		w.Sample(map[string]any{"kind": "concurrent", "goroutines": G, "strings": n, "escapes_per_goroutine": 6 * n})
	case "random":
		st.useJSON = true
		r := w.Rng()
		n := int(w.Spec.N)
		pools := [][]byte{c09boundary, []byte("\"\\\n\r\t\b\f/ua0 "), {0xE2, 0x80, 0xA8, 0xA9, 0xEF, 0xBF, 0xBD, 0xBE, 0xED, 0xA0, 0x9F, 0xF0, 0x90, 0x8F, 0xF4, 0x8F, 0xC0, 0xC1, 0x7F, 0x1F}}
		for i := 0; i < n; i++ {
			// length distribution: mostly short-medium, some up to 4 KiB; always >= 7 (disjoint from enumerated spaces)
			var l int
			switch r.IntN(10) {
			case 0:
				l = 7 + r.IntN(4096-7)
			case 1, 2:
				l = 7 + r.IntN(300)
			default:
				l = 7 + r.IntN(40)
			}
			if i%400 == 57 {
				// a few very long strings (escaped form far beyond 64 KiB), written into the reused, by then pre-grown buffer
				l = 40_000 + r.IntN(120_000)
			}
			s := make([]byte, l)
			mode := r.IntN(4)
			if l >= 40_000 {
				mode = r.IntN(3)
			}
			for k := range s {
				switch mode {
				case 0:
					s[k] = byte(r.IntN(256))
				case 1:
					p := pools[r.IntN(len(pools))]
					s[k] = p[r.IntN(len(p))]
				case 2:
					if r.IntN(3) == 0 {
						s[k] = byte(r.IntN(256))
					} else {
						s[k] = byte(0x20 + r.IntN(0x5f))
					}
				default:
					s[k] = 0
				}
			}
			if mode == 3 {
				// valid unicode text with injected boundary bytes
				var sb strings.Builder
				for sb.Len() < l {
					switch r.IntN(8) {
					case 0:
						sb.WriteRune(rune(r.IntN(0x20)))
					case 1:
						sb.WriteRune(rune(0x80 + r.IntN(0x780)))
					case 2:
						sb.WriteRune(rune(0x800 + r.IntN(0xD000)))
					case 3:
						sb.WriteRune(rune(0x10000 + r.IntN(0x100000)))
					case 4:
						sb.WriteByte(c09boundary[r.IntN(16)])
					case 5:
						sb.WriteRune([]rune{0x2028, 0x2029, 0xFFFD, 0xFEFF, 0xD7FF, 0xE000, 0x10FFFF, 0x7F}[r.IntN(8)])
					default:
						sb.WriteByte(byte(0x20 + r.IntN(0x5f)))
					}
				}
				s = []byte(sb.String())
			}
			str := string(s)
			if i < 2 {
				w.Sample(map[string]any{"random_input_hex": fmt.Sprintf("%x", trunc(str, 48)), "len": len(str)})
			}
			w.Journal("%x", str)
			if why := st.check(str); why != "" {
				report(str, why, "random")
			} else {
				w.Distinct(c09class(str))
			}
			if i%16 == 0 {
				if why := c09layouts(str); why != "" {
					report(str, why, "layout")
				}
				w.Count("layout_key_value_checks", 1)
			}
		}
	case "addrreuse":
		// keys that live at the same address one after the other (a caller building keys in a reused buffer; the same
		// happens to short-lived heap strings after a garbage collection): what was learnt about one key must not be
		// applied to the next
		r := w.Rng()
		plain := []string{"plainkey", "user_id1", "abcdefgh", "k0000001"}
		for rep := 0; rep < int(w.Spec.N); rep++ {
			kb := make([]byte, 8)
			for round := 0; round < 6; round++ {
				var k string
				if round%2 == 0 {
					k = plain[r.IntN(len(plain))]
				} else {
					b := []byte(plain[r.IntN(len(plain))])
					b[r.IntN(8)] = []byte{'"', '\\', '\n', 0x01, 0xff, 0x7f, '\t'}[r.IntN(7)]
					if r.IntN(2) == 0 {
						b[r.IntN(8)] = []byte{'"', '\\', '\r', 0x1f, 0xc0}[r.IntN(5)]
					}
					k = string(b)
				}
				copy(kb, k)
				key := unsafe.String(&kb[0], len(kb))
				if why := c09layouts(key); why != "" {
					report(k, "key built in a reused buffer (round "+fmt.Sprint(round)+"): "+why, "layout")
				}
				st.evals++
			}
			if rep%50 == 0 {
				runtime.GC()
			}
			// the heap variant: short-lived keys of one length, a collection in between
			for round := 0; round < 4; round++ {
				b := []byte(fmt.Sprintf("dyn%05d", r.IntN(99999)))
				if round%2 == 1 {
					b[r.IntN(8)] = []byte{'"', '\\', '\n', 0x02}[r.IntN(4)]
				}
				if why := c09layouts(string(b)); why != "" {
					report(string(b), "short-lived key: "+why, "layout")
				}
				st.evals++
			}
		}
		w.Count("same_address_keys_checked", int64(w.Spec.N)*10)
		w.Distinct("addrreuse")
		w.Sample(map[string]any{"kind": "addrreuse", "what": "8-byte keys written into one reused buffer, alternately plain and containing bytes that need escaping"})
	case "inject":
		// plain ASCII strings of length 1..40 with one or two special bytes injected at every position:
		// a fast path that looks at more than 4 bytes at a time (word-at-a-time scans) is not covered by
		// the short exhaustive window
		st.useJSON = true
		specials := []byte{0x00, 0x01, 0x08, 0x09, 0x0a, 0x0d, 0x1e, 0x1f, 0x22, 0x5c, 0x7f, 0x80, 0xbf, 0xc0, 0xc2, 0xe0, 0xed, 0xf0, 0xf4, 0xf5, 0xff}
		multi := []string{"é", "中", "😀", "\xe2\x82", "\xed\xa0\x80", "\xf0\x9f", "\xef\xbf\xbd", "\u2028"}
		lens := []int{1, 2, 7, 8, 9, 15, 16, 17, 23, 24, 25, 31, 32, 33, 40, 47, 48, 49, 55, 56, 57, 58, 59, 60, 61, 62, 63, 64, 65, 66, 71, 72, 73, 80, 96, 127, 128, 129, 130, 255, 256, 257, 300}
		k := 0
		for _, L := range lens {
			base := make([]byte, L)
			for i := range base {
				base[i] = byte('a' + i%26)
			}
			for p1 := 0; p1 < L; p1++ {
				for _, sp := range specials {
					k++
					if k%w.Spec.NShards != w.Spec.Shard {
						continue
					}
					b := append([]byte{}, base...)
					b[p1] = sp
					if why := st.check(string(b)); why != "" {
						report(string(b), why, "inject")
					}
					if why := c09layouts(string(b)); why != "" {
						report(string(b), why, "layout")
					}
					// a second special byte further on
					for _, p2 := range []int{p1 + 1, p1 + 7, p1 + 8, L - 1} {
						if p2 > p1 && p2 < L {
							b2 := append([]byte{}, b...)
							b2[p2] = specials[(k+p2)%len(specials)]
							if why := st.check(string(b2)); why != "" {
								report(string(b2), why, "inject")
							}
						}
					}
				}
				for _, m := range multi {
					k++
					if k%w.Spec.NShards != w.Spec.Shard {
						continue
					}
					str := string(base[:p1]) + m + string(base[p1:])
					if why := st.check(str); why != "" {
						report(str, why, "inject")
					}
				}
			}
		}
		w.Res.DistinctCount = st.nontriv
		w.Sample(map[string]any{"space": "plain ASCII strings of 43 lengths (1..300, dense around 8/16/32/64/128/256) with one of 21 special bytes / 8 multi-byte sequences at every position, plus a second special byte at +1,+7,+8,end"})
	case "reuse":
		// one JSONEncoder object serves a long sequence of documents (buffer reset + Reset() between them, as a caller
		// holding on to its encoder would do): every document must be byte-identical to what a fresh encoder produces for it
		r := w.Rng()
		keys := []string{"msg", "k", "user_id", "he said \"hi\"", "back\\slash", "line\nbreak", "x\xffy", "trace", "é", "", "a b", "ctl\x01"}
		vals := func() string {
			switch r.IntN(4) {
			case 0:
				return ""
			case 1:
				return strings.Repeat("v", r.IntN(200))
			case 2:
				return "q\"" + strings.Repeat("\\", r.IntN(5)) + "\n"
			}
			return fmt.Sprint(r.IntN(1 << 30))
		}
		var buf bytes.Buffer
		enc := log.NewJSONEncoder(&buf)
		for doc := 0; doc < int(w.Spec.N); doc++ {
			n := 1 + r.IntN(6)
			type kv struct{ k, v string }
			var kvs []kv
			for i := 0; i < n; i++ {
				kvs = append(kvs, kv{keys[r.IntN(len(keys))], vals()})
			}
			write := func(e *log.JSONEncoder) {
				e.AppendEncoderBegin()
				for i, x := range kvs {
					e.AppendKey(x.k)
					switch i % 3 {
					case 0:
						e.AppendString(x.v)
					case 1:
						e.AppendInt64(int64(len(x.v)))
					default:
						e.AppendArrayBegin()
						e.AppendString(x.v)
						e.AppendBool(true)
						e.AppendArrayEnd()
					}
				}
				e.AppendEncoderEnd()
			}
			buf.Reset()
			enc.Reset()
			if pv, _ := catch(func() { write(enc) }); pv != nil {
				report(fmt.Sprint(kvs), fmt.Sprintf("reused encoder panicked: %v", pv), "layout")
				break
			}
			var fb bytes.Buffer
			write(log.NewJSONEncoder(&fb))
			if !bytes.Equal(buf.Bytes(), fb.Bytes()) {
				report(fmt.Sprint(kvs), fmt.Sprintf("key/value document %d written by a REUSED JSONEncoder (Reset between documents) differs from a fresh encoder's: %q vs %q", doc, trunc(buf.String(), 300), trunc(fb.String(), 300)), "layout")
				break
			}
			st.evals++
		}
		w.Count("documents_through_one_reused_encoder", int64(w.Spec.N))
		w.Distinct("reuse")
		w.Sample(map[string]any{"kind": "reuse", "what": "one JSONEncoder + one buffer, Reset between documents of 1-6 members drawn from 12 keys (some needing escapes) in varying order"})
	case "layoutexh":
		// every string of length <= 2 as key and value through both encoders
		for a := 0; a < 256; a++ {
			if a%w.Spec.NShards != w.Spec.Shard {
				continue
			}
			for b := -1; b < 256; b++ {
				s := []byte{byte(a)}
				if b >= 0 {
					s = append(s, byte(b))
				}
				if why := c09layouts(string(s)); why != "" {
					report(string(s), why, "layout")
				}
				st.evals++
				w.Count("layout_key_value_checks", 1)
			}
		}
		// the same kind of strings on their way OUT of the process: through the built-in Console appender onto a real
		// descriptor, and through the built-in File / RollingFile appenders into real files - the bytes that arrive are the
		// bytes the (checked) layouts produced; a sink may not rewrite, filter or re-escape them
		{
			var strs []string
			for c := 0; c < 256; c++ {
				if c%w.Spec.NShards == w.Spec.Shard || c == 0x7f || c == 0x1b {
					strs = append(strs, "b"+string([]byte{byte(c)})+"e")
				}
			}
			for r := rune(0x80); r <= 0xA0; r++ { // C1 controls, well-formed
				strs = append(strs, "c1"+string(r)+"x")
			}
			strs = append(strs, "line\nbreak", "tab\there", "quote\"and\\backslash", "\u2028\u2029", "\xff\xfe", "\x1b[31mred\x1b[0m", "bell\a", "del\x7fend", "nul\x00byte", "\r\n")
			mk := func() []*log.Event {
				var evs []*log.Event
				for i, sv := range strs {
					evs = append(evs, &log.Event{Level: log.InfoLevel, Time: time.Unix(1_700_000_000+int64(i), 0).UTC(), File: "s.go", Line: i + 1, Tag: "c09",
						Fields: []log.Field{log.String(sv, sv), log.Strings("l", []string{sv})}})
				}
				return evs
			}
			for _, m := range builtinFaithful(w.Spec.Dir, w.Spec.Name, 48, mk) {
				w.Violate("C09:builtin-sink-alters-bytes", m.String(), map[string]any{"sink": m.Sink, "layout": m.Layout})
			}
			// and the text layout as an application builds it by hand (a struct literal, nothing injected): one event, one line,
			// no raw control byte in it
			for i, e := range mk() {
				out := (&log.TextLayout{BaseLayout: log.BaseLayout{FileLineLength: 48}}).ToBytes(e)
				ctl := 0
				for _, c := range out {
					if c < 0x20 {
						ctl++
					}
				}
				if ctl != 1 || len(out) == 0 || out[len(out)-1] != '\n' {
					report(strs[i], fmt.Sprintf("a hand-built TextLayout produced a line with %d control bytes (exactly one, the final line feed, is expected): %q", ctl, trunc(string(out), 300)), "layout")
					break
				}
			}
			w.Count("strings_sent_through_the_builtin_sinks", int64(6*len(strs)))
			w.Distinct("builtin-sinks")
		}
	}
	w.Eval(st.evals)
	w.Count("oracle_crosscheck_disagreements", st.crossBad)
}

func classifyC09Why(why string) string {
	for _, k := range []string{"panicked", "raw control", "unescaped quote", "dangling", "invalid escape", "invalid UTF-8", "surrogate", "truncated", "bad hex", "decodes to", "encoding/json", "key", "value", "text"} {
		if strings.Contains(why, k) {
			return strings.ReplaceAll(k, " ", "-")
		}
	}
	return "other"
}

// c09layouts checks a string used as key and as value inside the JSON and the text encoder:
// the JSON object must be strictly valid and decode to the expected key/value, and the text
// encoder must emit exactly esc(key)=esc(value) with esc = the escaper's own (already validated) output.
func c09layouts(s string) string {
	var esc bytes.Buffer
	log.WriteLogString(&esc, s)
	var jb bytes.Buffer
	je := log.NewJSONEncoder(&jb)
	je.AppendEncoderBegin()
	log.String(s, s).Encode(je)
	je.AppendEncoderEnd()
	want := `{"` + esc.String() + `":"` + esc.String() + `"}`
	if jb.String() != want {
		return fmt.Sprintf("key/value inside the JSON encoder: got %q want %q", jb.String(), want)
	}
	exp := string(expectedDecode(nil, s))
	v, err := strictJSONParse(jb.Bytes())
	if err != nil {
		return "key/value inside the JSON encoder: invalid JSON: " + err.Error()
	}
	obj, ok := v.(*jObject)
	if !ok || len(obj.Keys) != 1 || obj.Keys[0] != exp {
		return fmt.Sprintf("key inside the JSON encoder decodes to %q, expected %q", fmt.Sprint(obj), exp)
	}
	if sv, ok := obj.Vals[0].(string); !ok || sv != exp {
		return fmt.Sprintf("value inside the JSON encoder decodes to %v, expected %q", obj.Vals[0], exp)
	}
	var tb bytes.Buffer
	te := log.NewTextEncoder(&tb, "||")
	te.AppendEncoderBegin()
	log.String(s, s).Encode(te)
	log.Strings(s, []string{s}).Encode(te)
	te.AppendEncoderEnd()
	wantT := esc.String() + "=" + esc.String() + "||" + esc.String() + `=["` + esc.String() + `"]`
	if tb.String() != wantT {
		return fmt.Sprintf("key/value inside the text encoder: got %q want %q", tb.String(), wantT)
	}
	for _, c := range tb.Bytes() {
		if c < 0x20 {
			return "text encoder output contains a raw control byte"
		}
	}
	return ""
}

func init() {
	register(&Prop{
		ID: "C09", Level: "exploration", MinDistinct: 1000,
		Rule: "inputs: (a) every byte string of length <= 3 (quick) / <= 4 (thorough) over the full byte alphabet, enumerated exhaustively and sharded by first byte; " +
			"(b) every string of length 4..6 (quick: 4..5) over the 16-symbol UTF-8 boundary alphabet; (c) seeded random strings of length 7..4096 (raw bytes, boundary-heavy, printable+noise, valid-unicode+noise); " +
			"(d) every string of length 1..2 as key and value through the JSON and text encoders; (e) plain ASCII strings of 43 lengths up to 300 (dense around powers of two) with one or two special bytes / multi-byte sequences injected at every position (also as keys and values), against scanners that look at more than 4 bytes at a time. Non-trivial = the escaped output differs from the input (an escape, a replacement or a multi-byte decision was needed); " +
			"distinct_nontrivial = number of non-trivial inputs in the disjoint enumerated spaces (a),(b) + number of distinct byte-class masks seen among (c).",
		Assumptions: []string{
			"the escaper is memoryless with <= 4 bytes of look-ahead, so the exhaustive window determines its behaviour on longer strings (argument, not machine-checked; random long strings sample it)",
			"oracle = strict RFC 8259 string-literal validator/decoder written for the harness, cross-checked against encoding/json on spaces (a, len<=3), (b), (c)",
		},
		Worker: c09Worker,
		Run: func(d *D) {
			var specs []Spec
			L := int(d.Pick(3, 4))
			for i := 0; i < 16; i++ {
				s := d.NewSpec("exh", fmt.Sprintf("exh%d-%d", L, i), i, 16)
				s.N = int64(L)
				s.TimeoutS = int(d.Pick(300, 3000))
				if L == 3 {
					s.Args["shorter"] = "1"
				}
				specs = append(specs, s)
			}
			if L == 4 {
				for i := 0; i < 16; i++ {
					s := d.NewSpec("exh", fmt.Sprintf("exh3-%d", i), i, 16)
					s.N = 3
					s.Args["shorter"] = "1"
					specs = append(specs, s)
				}
			}
			bl := int(d.Pick(5, 6))
			for i := 0; i < 16; i++ {
				s := d.NewSpec("boundary", fmt.Sprintf("bnd-%d", i), i, 16)
				s.N = int64(bl)
				s.Args["minlen"] = fmt.Sprint(L + 1)
				specs = append(specs, s)
			}
			for i := 0; i < 16; i++ {
				s := d.NewSpec("random", fmt.Sprintf("rnd-%d", i), i, 16)
				s.N = d.Pick(6000, 80000)
				specs = append(specs, s)
			}
			for i := 0; i < 8; i++ {
				specs = append(specs, d.NewSpec("layoutexh", fmt.Sprintf("lay-%d", i), i, 8))
			}
			for i := 0; i < 4; i++ {
				specs = append(specs, d.NewSpec("inject", fmt.Sprintf("inj-%d", i), i, 4))
			}
			ru := d.NewSpec("reuse", "reuse", 0, 1)
			ru.N = d.Pick(20000, 400000)
			specs = append(specs, ru)
			ar := d.NewSpec("addrreuse", "addrreuse", 0, 1)
			ar.N = d.Pick(3000, 60000)
			specs = append(specs, ar)
			for i := 0; i < 3; i++ {
				s := d.NewSpec("conc", fmt.Sprintf("conc-%d", i), i, 3)
				s.N = d.Pick(4000, 40000)
				s.Args["g"] = fmt.Sprint([]int{16, 4, 8}[i])
				if i == 2 {
					s.Flavour = "race"
					s.N = d.Pick(1500, 8000)
				}
				specs = append(specs, s)
			}
			outs := d.RunWorkers(specs, 16)
			d.raceVerdict(outs)
			if !d.Quick() {
				d.runFuzz("FuzzC09Escape", 3_000_000, "C09:fuzz")
			}
			d.Extra["exhaustive"] = true
			d.Extra["exhaustive_spaces"] = []string{fmt.Sprintf("all byte strings of length <= %d", L), fmt.Sprintf("boundary alphabet, length %d..%d", L+1, bl), "all strings of length 1..2 as key/value in both encoders"}
		},
	})
}
