package main

// Worker kind "builtinfile" of C04, C06 and C12: the asynchronous logger in front of the library's OWN file appender (and, in
// one variant, two file appenders whose references are declared in descending order of their lower bounds), built as a struct
// literal and through Refresh. The other kinds of these checks observe through recording appenders, which a path reserved for
// the built-in appender types never reaches. Three producers submit a burst of events, below-level events and raw writes (some
// of 4 KiB and more) and Stop follows at once; everything is then read back from the real files:
//   C04: every enabled item is in a file exactly once or was counted as discarded (Block: nothing discarded)
//   C06: each producer's items appear in the file in the order they were submitted
//   C12: every raw payload that arrived is verbatim (length and checksum travel in the payload) and arrived once
// Each property reports only its own aspect.

import (
	"bytes"
	"fmt"
	"hash/crc32"
	"os"
	"path/filepath"
	"regexp"
	"strconv"
	"sync"
	"time"

	log "github.com/go-spring/log"
)

var abRawRe = regexp.MustCompile(`RAW (id-[0-9A-Za-z]+-[0-9]+) ([0-9]+) ([0-9a-f]{8}) `)

func asyncBuiltinFile(w *W, prop string) {
	registerMonitorPlugins()
	log.RegisterTag("abtag")
	type variant struct {
		policy string
		viaCfg bool
		twoRef bool
	}
	var vs []variant
	for _, pol := range []string{"Block", "Discard", "DiscardOldest"} {
		vs = append(vs, variant{pol, false, false}, variant{pol, true, false})
	}
	vs = append(vs, variant{"Block", false, true}, variant{"Discard", false, true})
	for vi, v := range vs {
		dir := filepath.Join(w.Spec.Dir, fmt.Sprintf("%s.ab%d", w.Spec.Name, vi))
		_ = os.RemoveAll(dir)
		_ = os.MkdirAll(dir, 0o755)
		cs := map[string]any{"scenario": "asynchronous logger in front of the built-in file appender, burst then Stop", "policy": v.policy, "built_through_refresh": v.viaCfg, "two_references_descending": v.twoRef}
		var l *log.AsyncLogger
		var stop func()
		tl := func() log.Layout { return &log.TextLayout{BaseLayout: log.BaseLayout{FileLineLength: 48}} }
		if v.viaCfg {
			cfg := map[string]string{"appender.f.type": "File", "appender.f.fileDir": dir, "appender.f.fileName": "a.log",
				"logger.lg.type": "AsyncLogger", "logger.lg.tags": "abtag", "logger.lg.level": "INFO", "logger.lg.bufferSize": "100", "logger.lg.bufferFullPolicy": v.policy, "logger.lg.appenderRef.ref": "f"}
			if err := log.Refresh(cfg); err != nil {
				w.Note("builtinfile: Refresh failed: " + err.Error())
				log.Destroy()
				continue
			}
			ls, _ := log.VerifGlobals()
			for _, x := range ls {
				if a, ok := x.(*log.AsyncLogger); ok {
					l = a
				}
			}
			stop = log.Destroy
		} else {
			pol := map[string]log.BufferFullPolicy{"Block": log.BufferFullPolicyBlock, "Discard": log.BufferFullPolicyDiscard, "DiscardOldest": log.BufferFullPolicyDiscardOldest}[v.policy]
			fa := &log.FileAppender{AppenderBase: log.AppenderBase{Name: "f"}, Layout: tl(), FileDir: dir, FileName: "a.log"}
			refs := []*log.AppenderRef{{Appender: fa, Ref: "f", Level: log.LevelRange{MinLevel: log.NoneLevel, MaxLevel: log.MaxLevel}}}
			aps := []*log.FileAppender{fa}
			if v.twoRef {
				// an errors-only file first, the catch-all file second (nothing sorts the references of a hand-built logger)
				fe := &log.FileAppender{AppenderBase: log.AppenderBase{Name: "e"}, Layout: tl(), FileDir: dir, FileName: "err.log"}
				refs = []*log.AppenderRef{{Appender: fe, Ref: "e", Level: log.LevelRange{MinLevel: log.ErrorLevel, MaxLevel: log.MaxLevel}}, refs[0]}
				aps = append(aps, fe)
			}
			okStart := true
			for _, a := range aps {
				if a.Start() != nil {
					okStart = false
				}
			}
			l = &log.AsyncLogger{LoggerBase: log.LoggerBase{Name: "ab", Level: log.LevelRange{MinLevel: log.InfoLevel, MaxLevel: log.MaxLevel}},
				AppenderRefs: log.AppenderRefs{AppenderRefs: refs}, BufferSize: 100, BufferFullPolicy: pol}
			if !okStart || l.Start() != nil {
				w.Note("builtinfile: start failed")
				continue
			}
			stop = func() {
				l.Stop()
				for _, a := range aps {
					a.Stop()
				}
			}
		}
		if l == nil {
			w.Note("builtinfile: no asynchronous logger")
			if stop != nil {
				stop()
			}
			continue
		}
		const P, N = 3, 1500
		type item struct {
			id  string
			raw bool
			n   int
			crc uint32
		}
		sent := make([][]item, P)
		var wg sync.WaitGroup
		for p := 0; p < P; p++ {
			wg.Add(1)
			go func(p int) {
				defer wg.Done()
				buf := make([]byte, 0, 8192)
				for i := 0; i < N; i++ {
					id := fmt.Sprintf("id-ab%dp%dv%d-%d", w.Spec.Shard, p, vi, i)
					switch {
					case i%10 == 3:
						// a raw write; every third one is 4 KiB or more
						body := 20 + (i*7)%300
						if (i/10)%3 == 0 {
							body = 4096 + (i*13)%3000
						}
						pay := bytes.Repeat([]byte{byte('a' + i%26)}, body)
						buf = append(buf[:0], fmt.Sprintf("RAW %s %d %08x ", id, body, crc32.ChecksumIEEE(pay))...)
						buf = append(buf, pay...)
						buf = append(buf, '\n')
						l.Write(buf)
						sent[p] = append(sent[p], item{id: id, raw: true, n: body, crc: crc32.ChecksumIEEE(pay)})
						for k := range buf { // the caller's buffer is the caller's again
							buf[k] = 'Z'
						}
					case i%10 == 7:
						appendEvent(l, log.DebugLevel, "below-"+id) // below the logger's level: neither delivered nor counted
					case i%10 == 5:
						appendEvent(l, log.ErrorLevel, id)
						sent[p] = append(sent[p], item{id: id})
					default:
						appendEvent(l, log.InfoLevel, id)
						sent[p] = append(sent[p], item{id: id})
					}
				}
			}(p)
		}
		wg.Wait()
		okStop, pv, _ := callWithWatchdog(60*time.Second, stop)
		if !okStop || pv != nil {
			if prop == "C04" {
				w.Violate("C04:builtin-file:stop", fmt.Sprintf("Stop after the burst: returned=%v panic=%v", okStop, pv), cs)
			}
			w.flush()
			return
		}
		discarded := l.GetDiscardCounter()
		// a hand-built logger object lives a second time: Start again (appenders first), a handful of items one at a time into
		// the empty queue, Stop - all of them are in the file
		secondLife := ""
		if !v.viaCfg && !v.twoRef {
			fa2 := l.AppenderRefs.AppenderRefs[0].Appender.(*log.FileAppender)
			if fa2.Start() == nil && l.Start() == nil {
				var ids2 []string
				for i := 0; i < 12; i++ {
					id := fmt.Sprintf("id-ab%dlife2v%d-%d", w.Spec.Shard, vi, i)
					ids2 = append(ids2, id)
					if i%3 == 1 {
						l.Write([]byte("RAW2 " + id + "\n"))
					} else {
						appendEvent(l, log.InfoLevel, id)
					}
					time.Sleep(200 * time.Microsecond)
				}
				ok2, pv2, _ := callWithWatchdog(60*time.Second, func() { l.Stop(); fa2.Stop() })
				d2, _ := os.ReadFile(filepath.Join(dir, "a.log"))
				seen2 := map[string]bool{}
				for _, m := range idRe.FindAll(d2, -1) {
					seen2[string(m)] = true
				}
				missing := 0
				for _, id := range ids2 {
					if !seen2[id] {
						missing++
					}
				}
				if !ok2 || pv2 != nil || int64(missing) != l.GetDiscardCounter()-discarded {
					secondLife = fmt.Sprintf("the same logger object started a second time (empty queue, 12 items one at a time, Stop returned=%v panic=%v): %d items are not in the file, the discard counter moved by %d", ok2, pv2, missing, l.GetDiscardCounter()-discarded)
				}
			}
		}
		data, _ := os.ReadFile(filepath.Join(dir, "a.log"))
		errData, _ := os.ReadFile(filepath.Join(dir, "err.log"))
		_ = os.RemoveAll(dir)
		// where is what
		pos := map[string][]int{}
		for _, m := range idRe.FindAllIndex(data, -1) {
			id := string(data[m[0]:m[1]])
			pos[id] = append(pos[id], m[0])
		}
		rawOK := map[string]int{}
		rawBad := ""
		for _, m := range abRawRe.FindAllSubmatchIndex(data, -1) {
			id := string(data[m[2]:m[3]])
			n, _ := strconv.Atoi(string(data[m[4]:m[5]]))
			crc, _ := strconv.ParseUint(string(data[m[6]:m[7]]), 16, 32)
			start := m[1]
			if start+n+1 > len(data) || data[start+n] != '\n' || crc32.ChecksumIEEE(data[start:start+n]) != uint32(crc) {
				if rawBad == "" {
					end := start + 60
					if end > len(data) {
						end = len(data)
					}
					rawBad = fmt.Sprintf("raw payload %s (%d bytes announced) is not verbatim in the file: …%q…", id, n, data[start:end])
				}
				continue
			}
			rawOK[id]++
		}
		submitted, delivered, below := 0, 0, bytes.Count(data, []byte("below-id-"))
		var dup, orderBad string
		for p := 0; p < P; p++ {
			last := -1
			for _, it := range sent[p] {
				submitted++
				ps := pos[it.id]
				if len(ps) > 1 && dup == "" {
					dup = fmt.Sprintf("%s is in the file %d times", it.id, len(ps))
				}
				if len(ps) == 0 {
					continue
				}
				delivered++
				if ps[0] < last && orderBad == "" {
					orderBad = fmt.Sprintf("producer %d: %s is in the file BEFORE an item the same goroutine submitted earlier", p, it.id)
				}
				if ps[0] > last {
					last = ps[0]
				}
			}
		}
		w.Eval(1)
		good := true
		if secondLife != "" && (prop == "C04" || prop == "C12") {
			good = false
			w.Violate(prop+":builtin-file:second-life:"+v.policy, secondLife, cs)
		}
		switch prop {
		case "C04":
			switch {
			case dup != "":
				good = false
				w.Violate("C04:builtin-file:duplicate:"+v.policy, dup, cs)
			case int64(delivered)+discarded != int64(submitted):
				good = false
				w.Violate("C04:builtin-file:conservation:"+v.policy, fmt.Sprintf("%d enabled items submitted by %d producers, then Stop: %d are in the file, the discard counter says %d (sum %d)", submitted, P, delivered, discarded, int64(delivered)+discarded), cs)
			case v.policy == "Block" && discarded != 0:
				good = false
				w.Violate("C04:builtin-file:block-discards", fmt.Sprintf("discard counter %d under Block", discarded), cs)
			case below != 0:
				good = false
				w.Violate("C04:builtin-file:below-level-delivered", fmt.Sprintf("%d events below the logger's level are in the file", below), cs)
			}
			if v.twoRef && good {
				// the errors-only file holds exactly the ERROR events that were delivered
				inErr := map[string]bool{}
				for _, m := range idRe.FindAll(errData, -1) {
					inErr[string(m)] = true
				}
				for p := 0; p < P && good; p++ {
					for i, it := range sent[p] {
						_ = i
						isErr := !it.raw && inErr[it.id]
						if isErr && len(pos[it.id]) == 0 {
							good = false
							w.Violate("C04:builtin-file:conservation:"+v.policy, fmt.Sprintf("%s reached the errors-only file and not the catch-all file declared after it", it.id), cs)
						}
					}
				}
			}
		case "C06":
			if orderBad != "" {
				good = false
				w.Violate("C06:builtin-file:order:"+v.policy, orderBad, cs)
			}
			if v.policy == "Block" && delivered != submitted && good {
				good = false
				w.Violate("C06:builtin-file:block-lost:"+v.policy, fmt.Sprintf("Block policy: %d of %d items are in the file after Stop", delivered, submitted), cs)
			}
		case "C12":
			switch {
			case rawBad != "":
				good = false
				w.Violate("C12:builtin-file:altered:"+v.policy, rawBad, cs)
			default:
				for p := 0; p < P && good; p++ {
					for _, it := range sent[p] {
						if !it.raw {
							continue
						}
						if rawOK[it.id] > 1 || len(pos[it.id]) > 1 {
							good = false
							w.Violate("C12:builtin-file:duplicate:"+v.policy, fmt.Sprintf("raw payload %s was written once and is in the file %d times", it.id, len(pos[it.id])), cs)
							break
						}
						if v.policy == "Block" && rawOK[it.id] != 1 {
							good = false
							w.Violate("C12:builtin-file:missing:"+v.policy, fmt.Sprintf("Block policy: raw payload %s is not in the file after Stop", it.id), cs)
							break
						}
					}
				}
			}
		}
		w.Count("builtin_file_items_submitted", int64(submitted))
		w.Count("builtin_file_items_discarded", discarded)
		if good {
			w.Distinct(fmt.Sprintf("builtinfile|%s|refresh=%v|tworef=%v", v.policy, v.viaCfg, v.twoRef))
		}
	}
}
