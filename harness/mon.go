package main

// Monitors shared by several properties: recording / gated / slow appender plugins registered
// through the public plugin registry, the console collector, the fd monitor and the yield-point
// callback. All monitor state is mutex protected so that the monitor is never the race.

import (
	"fmt"
	"math/rand/v2"
	"os"
	"path/filepath"
	"regexp"
	"runtime"
	"strings"
	"sync"
	"sync/atomic"
	"time"

	log "github.com/go-spring/log"
)

type recItem struct {
	Sink      string
	Kind      string // "event" | "write"
	Level     log.Level
	Tag       string
	File      string
	Line      int
	Time      time.Time
	CtxString string
	JSON      []byte // event formatted by a private JSON layout (copy) / raw bytes for writes
	NFields   int
	Recycled  bool // the event changed identity while the appender was still using it
	Seq       int64
}

type recorder struct {
	mu    sync.Mutex
	items []recItem
	seq   int64
}

var rec recorder

func (r *recorder) add(it recItem) {
	recordedTotal.Add(1)
	r.mu.Lock()
	r.seq++
	it.Seq = r.seq
	r.items = append(r.items, it)
	r.mu.Unlock()
}
func (r *recorder) take() []recItem {
	r.mu.Lock()
	defer r.mu.Unlock()
	it := r.items
	r.items = nil
	return it
}
func (r *recorder) count() int {
	r.mu.Lock()
	defer r.mu.Unlock()
	return len(r.items)
}

var recLayout = &log.JSONLayout{BaseLayout: log.BaseLayout{FileLineLength: 4096}}

func recordEvent(sink string, e *log.Event, slow time.Duration) {
	lv, tag, nf, tm := e.Level, e.Tag, len(e.Fields), e.Time
	it := recItem{Sink: sink, Kind: "event", Level: lv, Tag: tag, File: e.File, Line: e.Line, Time: tm, CtxString: e.CtxString, NFields: nf}
	it.JSON = append([]byte(nil), recLayout.ToBytes(e)...)
	if slow > 0 {
		time.Sleep(slow)
	} else {
		runtime.Gosched()
	}
	if e.Level != lv || e.Tag != tag || len(e.Fields) != nf || !e.Time.Equal(tm) {
		it.Recycled = true
	}
	rec.add(it)
}

// VRec: recording appender.
type VRec struct {
	log.AppenderBase
	Layout log.Layout `PluginElement:"Layout?"`
}

func (a *VRec) Start() error { return nil }
func (a *VRec) Stop()        {}
func (a *VRec) Append(e *log.Event) {
	recordEvent(a.Name, e, 0)
}
func (a *VRec) Write(b []byte) {
	rec.add(recItem{Sink: a.Name, Kind: "write", JSON: append([]byte(nil), b...)})
}

// VSlow: recording appender with a per-item delay (microseconds).
type VSlow struct {
	log.AppenderBase
	DelayUS int `PluginAttribute:"delayUs,default=200"`
}

func (a *VSlow) Start() error { return nil }
func (a *VSlow) Stop()        {}
func (a *VSlow) Append(e *log.Event) {
	recordEvent(a.Name, e, time.Duration(a.DelayUS)*time.Microsecond)
}
func (a *VSlow) Write(b []byte) {
	c := append([]byte(nil), b...)
	time.Sleep(time.Duration(a.DelayUS) * time.Microsecond)
	rec.add(recItem{Sink: a.Name, Kind: "write", JSON: c})
}

// VGate: gated recording appender; every item announces itself on Entered and then waits for one
// token on Gate (unless Open is set). This is how the async worker is single-stepped.
type VGate struct {
	log.AppenderBase
}

type gateCtl struct {
	Entered chan string // receives the id of the item that entered the appender
	Gate    chan struct{}
	Open    atomic.Bool
}

var gates sync.Map // appender name -> *gateCtl

func gateFor(name string) *gateCtl {
	g, _ := gates.LoadOrStore(name, &gateCtl{Entered: make(chan string, 1<<16), Gate: make(chan struct{}, 1<<16)})
	return g.(*gateCtl)
}

func (a *VGate) Start() error { return nil }
func (a *VGate) Stop()        {}
func (a *VGate) Append(e *log.Event) {
	g := gateFor(a.Name)
	it := recItem{Sink: a.Name, Kind: "event", Level: e.Level, Tag: e.Tag, NFields: len(e.Fields)}
	it.JSON = append([]byte(nil), recLayout.ToBytes(e)...)
	id := idOf(it.JSON)
	g.Entered <- id
	if !g.Open.Load() {
		<-g.Gate
	}
	if len(e.Fields) != it.NFields || e.Tag != it.Tag {
		it.Recycled = true
	}
	rec.add(it)
}
func (a *VGate) Write(b []byte) {
	g := gateFor(a.Name)
	c := append([]byte(nil), b...)
	g.Entered <- idOf(c)
	if !g.Open.Load() {
		<-g.Gate
	}
	rec.add(recItem{Sink: a.Name, Kind: "write", JSON: c})
}

// VTap: a user appender that embeds the library's DiscardAppender (for its no-op Start/Stop/Append) and overrides Write to
// record raw bytes - and Append, so that it is a full recording appender.
type VTap struct {
	log.DiscardAppender
}

func (a *VTap) Append(e *log.Event) { recordEvent(a.Name, e, 0) }
func (a *VTap) Write(b []byte) {
	rec.add(recItem{Sink: a.Name, Kind: "write", JSON: append([]byte(nil), b...)})
}

// VMemLogger: a user-written logger kind. It embeds LoggerBase, records what it accepts under the sink name "m<name>", may
// decorate the name it reports (the library uses GetName for messages only) and may take its level range from a variable that
// the application changes at run time (GetLevel is part of the Logger interface; the serving logger's CURRENT range decides).
type VMemLogger struct {
	log.LoggerBase
	Decorate bool `PluginAttribute:"decorate,default=false"`
	Dynamic  bool `PluginAttribute:"dynamic,default=false"`
}

var vmemDynamicMin atomic.Value // log.Level

func (l *VMemLogger) Start() error { return nil }
func (l *VMemLogger) Stop()        {}
func (l *VMemLogger) GetName() string {
	if l.Decorate {
		return "mem(" + l.Name + ")"
	}
	return l.Name
}
func (l *VMemLogger) GetLevel() log.LevelRange {
	if l.Dynamic {
		if m, ok := vmemDynamicMin.Load().(log.Level); ok {
			return log.LevelRange{MinLevel: m, MaxLevel: log.MaxLevel}
		}
	}
	return l.Level
}
func (l *VMemLogger) Append(e *log.Event) {
	if l.GetLevel().Enable(e.Level) {
		recordEvent("m"+l.Name, e, 0)
	}
	log.PutEvent(e)
}
func (l *VMemLogger) Write(b []byte) {
	rec.add(recItem{Sink: "m" + l.Name, Kind: "write", JSON: append([]byte(nil), b...)})
}

var idRe = regexp.MustCompile(`id-[0-9A-Za-z]+-[0-9]+`)

func idOf(b []byte) string { return string(idRe.Find(b)) }

var levelJSONRe = regexp.MustCompile(`"level":"([^"]*)"`)
var levelTextRe = regexp.MustCompile(`^\[([A-Z0-9_]+)\]`)

// levelOf extracts the level name from a formatted line (JSON or text layout), upper-cased.
func levelOf(b []byte) string {
	if m := levelJSONRe.FindSubmatch(b); m != nil {
		return strings.ToUpper(string(m[1]))
	}
	if m := levelTextRe.FindSubmatch(b); m != nil {
		return string(m[1])
	}
	return ""
}

var monOnce sync.Once

func registerMonitorPlugins() {
	monOnce.Do(func() {
		log.RegisterPlugin[VRec]("VRec", log.PluginTypeAppender)
		log.RegisterPlugin[VSlow]("VSlow", log.PluginTypeAppender)
		log.RegisterPlugin[VGate]("VGate", log.PluginTypeAppender)
		log.RegisterPlugin[VTap]("VTap", log.PluginTypeAppender)
		log.RegisterPlugin[VMemLogger]("VMem", log.PluginTypeLogger)
	})
}

// slowSink replaces log.Stdout: records one chunk per Write call; optionally consumes slowly
// (copies piecewise with yields in between, so a producer recycling the buffer underneath is
// caught even without the race detector) and counts concurrent writers.
type slowSink struct {
	mu       sync.Mutex
	chunks   [][]byte
	slow     bool
	inflight atomic.Int32
	maxIn    atomic.Int32
	fail     atomic.Bool
}

func (s *slowSink) Write(b []byte) (int, error) {
	n := s.inflight.Add(1)
	for {
		m := s.maxIn.Load()
		if n <= m || s.maxIn.CompareAndSwap(m, n) {
			break
		}
	}
	defer s.inflight.Add(-1)
	if s.fail.Load() {
		return 0, fmt.Errorf("sink failure injected")
	}
	c := make([]byte, len(b))
	if s.slow && len(b) > 8 {
		step := len(b)/4 + 1
		for off := 0; off < len(b); off += step {
			end := off + step
			if end > len(b) {
				end = len(b)
			}
			copy(c[off:end], b[off:end])
			runtime.Gosched()
		}
	} else {
		copy(c, b)
	}
	s.mu.Lock()
	s.chunks = append(s.chunks, c)
	s.mu.Unlock()
	return len(b), nil
}
func (s *slowSink) take() [][]byte {
	s.mu.Lock()
	defer s.mu.Unlock()
	r := s.chunks
	s.chunks = nil
	return r
}

// fdsInto lists the targets of this process's descriptors that point into dir.
func fdsInto(dir string) []string {
	ents, err := os.ReadDir("/proc/self/fd")
	if err != nil {
		return nil
	}
	var out []string
	for _, e := range ents {
		t, err := os.Readlink(filepath.Join("/proc/self/fd", e.Name()))
		// only files inside dir: the directory itself may be open for a moment (retention scan listing it)
		if err == nil && strings.HasPrefix(t, strings.TrimSuffix(dir, "/")+"/") {
			out = append(out, t)
		}
	}
	return out
}

// yield-point callback: seeded perturbation + hit counters
type yielder struct {
	hits  sync.Map // name -> *atomic.Int64
	seed  uint64
	ctr   atomic.Uint64
	prob  uint64 // 1/prob of acting
	maxUS int
	pause sync.Map // name -> chan struct{} : block here until closed (deterministic schedules)
}

func (y *yielder) fn(name string) {
	yieldHitsTotal.Add(1)
	c, _ := y.hits.LoadOrStore(name, new(atomic.Int64))
	c.(*atomic.Int64).Add(1)
	if p, ok := y.pause.Load(name); ok {
		<-p.(chan struct{})
	}
	if y.prob == 0 {
		return
	}
	n := y.ctr.Add(1)
	h := (n*0x9E3779B97F4A7C15 + y.seed) * 0xD1B54A32D192ED03
	h ^= h >> 29
	if h%y.prob != 0 {
		return
	}
	switch (h >> 8) % 3 {
	case 0:
		runtime.Gosched()
	case 1:
		time.Sleep(time.Duration((h>>16)%uint64(y.maxUS+1)) * time.Microsecond)
	default:
		for i := 0; i < 3; i++ {
			runtime.Gosched()
		}
	}
}
func (y *yielder) counts() map[string]int64 {
	m := map[string]int64{}
	y.hits.Range(func(k, v any) bool {
		m[k.(string)] = v.(*atomic.Int64).Load()
		return true
	})
	return m
}

func installYielder(seed uint64, prob uint64, maxUS int) *yielder {
	y := &yielder{seed: seed, prob: prob, maxUS: maxUS}
	log.VerifPointFn = y.fn
	return y
}

// goroutineDump returns the stacks of all goroutines.
func goroutineDump() string {
	buf := make([]byte, 1<<20)
	for {
		n := runtime.Stack(buf, true)
		if n < len(buf) {
			return string(buf[:n])
		}
		buf = make([]byte, 2*len(buf))
	}
}

// blockedInLibrary reports whether some goroutine whose stack contains the marker function is
// parked on a channel operation with a library frame innermost (deadlock witness), and returns it.
func blockedInLibrary(dump, marker string) (bool, string) {
	for _, g := range strings.Split(dump, "\n\n") {
		if !strings.Contains(g, marker) {
			continue
		}
		hdr, _, _ := strings.Cut(g, "\n")
		if strings.Contains(hdr, "chan send") || strings.Contains(hdr, "chan receive") || strings.Contains(hdr, "select") {
			if libTop("goroutine " + strings.TrimPrefix(g, "goroutine ")) {
				return true, g
			}
		}
	}
	// Parked on a lock / condition / wait group taken inside the library: a witness only if nobody who could release it is
	// at work, i.e. every goroutine with library frames on its stack is itself parked with a library frame innermost (a
	// lock held by a goroutine that is busy inside a sink or a system call is ordinary contention, not a deadlock).
	isPark := func(hdr string) bool {
		for _, k := range []string{"chan send", "chan receive", "select", "sync.Mutex.Lock", "sync.RWMutex", "semacquire", "sync.Cond.Wait", "sync.WaitGroup.Wait"} {
			if strings.Contains(hdr, k) {
				return true
			}
		}
		return false
	}
	isLockPark := func(hdr string) bool {
		return isPark(hdr) && !strings.Contains(hdr, "chan send") && !strings.Contains(hdr, "chan receive") && !strings.Contains(hdr, "select")
	}
	witness := ""
	for _, g := range strings.Split(dump, "\n\n") {
		hdr, _, _ := strings.Cut(g, "\n")
		if strings.Contains(g, marker) && isLockPark(hdr) && libTop("goroutine "+strings.TrimPrefix(g, "goroutine ")) {
			witness = g
		}
	}
	if witness == "" {
		return false, ""
	}
	for _, g := range strings.Split(dump, "\n\n") {
		if !libFrameRe.MatchString(g) {
			continue
		}
		hdr, _, _ := strings.Cut(g, "\n")
		if !isPark(hdr) || !libTop("goroutine "+strings.TrimPrefix(g, "goroutine ")) {
			return false, ""
		}
	}
	return true, witness
}

// stuckInLibrary classifies a call that did not return: "blocked" when its goroutine is parked on a
// channel operation with a library frame innermost, "spinning" when two dumps taken 300 ms apart both
// show it running/runnable (or in a syscall) with library frames on its stack, "" otherwise.
func stuckInLibrary(marker string) (string, string) {
	d1 := goroutineDump()
	if b, g := blockedInLibrary(d1, marker); b {
		return "blocked", g
	}
	busy := func(dump string) (bool, string) {
		for _, g := range strings.Split(dump, "\n\n") {
			if !strings.Contains(g, marker) || !libFrameRe.MatchString(g) {
				continue
			}
			hdr, _, _ := strings.Cut(g, "\n")
			if strings.Contains(hdr, "[running") || strings.Contains(hdr, "[runnable") || strings.Contains(hdr, "[syscall") {
				return true, g
			}
		}
		return false, ""
	}
	b1, _ := busy(d1)
	time.Sleep(300 * time.Millisecond)
	b2, g2 := busy(goroutineDump())
	if b1 && b2 {
		return "spinning", g2
	}
	return "", ""
}

// stuckInAppender reports whether the goroutine carrying the marker is sitting inside one of the harness's
// gated/slow appenders with library frames above it on the stack: the library is running the appender on the
// caller's goroutine.
func stuckInAppender(marker string) (bool, string) {
	for _, g := range strings.Split(goroutineDump(), "\n\n") {
		if strings.Contains(g, marker) && libFrameRe.MatchString(g) && (strings.Contains(g, "main.(*VGate).") || strings.Contains(g, "main.(*VSlow).")) {
			return true, g
		}
	}
	return false, ""
}

// callWithWatchdog runs f in a goroutine (tagged by marker in its stack through the caller) and
// waits up to d. Returns done=false when the watchdog fired, plus a goroutine dump.
//
// The duration is not a deadline for the verdict: when it expires the call is only given up if the library made no
// observable progress (no item recorded by a monitor appender, no yield point passed) for three further 10 s
// observations - a call that waits for a slow but progressing consumer on a loaded machine is not a hang. While there is
// progress the wait goes on (cap 15 min; then done=false with an empty dump, which callers report as inconclusive).
func callWithWatchdog(d time.Duration, f func()) (done bool, pv any, dump string) {
	ch := make(chan any, 1)
	go func() {
		defer func() { ch <- recover() }()
		watchdogMarker(f)
	}()
	select {
	case pv = <-ch:
		return true, pv, ""
	case <-time.After(d):
	}
	last, stale := libraryProgress(), 0
	for waited := 0; waited < 90; waited++ {
		select {
		case pv = <-ch:
			return true, pv, ""
		case <-time.After(10 * time.Second):
		}
		if cur := libraryProgress(); cur != last {
			last, stale = cur, 0
			continue
		}
		if stale++; stale >= 3 {
			return false, nil, goroutineDump()
		}
	}
	return false, nil, ""
}

var yieldHitsTotal, recordedTotal atomic.Int64

// libraryProgress is a monotone counter of things the library did that a monitor could see.
func libraryProgress() int64 { return yieldHitsTotal.Load() + recordedTotal.Load() }

//go:noinline
func watchdogMarker(f func()) { f() }

func randLevelCase(r *rand.Rand, s string) string {
	b := []byte(s)
	for i := range b {
		if r.IntN(2) == 0 {
			if b[i] >= 'A' && b[i] <= 'Z' {
				b[i] += 32
			}
		}
	}
	return string(b)
}
