package main

// C16, worker kind "builtincycles": Refresh / Destroy cycles with the library's OWN plugin types only and with the spellings a
// real deployment uses - the file directory left at its default ("./logs", relative to the working directory) or given as a
// relative path, File and RollingFile appenders, a File logger, sync and async loggers. After every cycle the real files are
// read: "Destroy followed by a valid Refresh routes as configured" - every cycle's events are in the configured file.

import (
	"context"
	"fmt"
	"os"
	"path/filepath"
	"strings"
	"time"

	log "github.com/go-spring/log"
)

func c16BuiltinCycles(w *W) {
	tag := log.RegisterTag("c16bc")
	wd := filepath.Join(w.Spec.Dir, w.Spec.Name+".wd")
	_ = os.RemoveAll(wd)
	_ = os.MkdirAll(filepath.Join(wd, "logs"), 0o755)
	_ = os.MkdirAll(filepath.Join(wd, "rel", "sub"), 0o755)
	defer os.RemoveAll(wd)
	old, _ := os.Getwd()
	if err := os.Chdir(wd); err != nil {
		w.Inconclusive("cannot change the working directory: " + err.Error())
		return
	}
	defer os.Chdir(old)
	ctx := context.Background()
	type variant struct {
		name string
		cfg  map[string]string
		file string // relative to wd; a directory for rolling variants
	}
	vs := []variant{
		{"file-appender-default-dir", map[string]string{"appender.f.type": "File", "appender.f.fileName": "a.log", "logger.lg.type": "Logger", "logger.lg.tags": "c16bc", "logger.lg.appenderRef.ref": "f"}, "logs/a.log"},
		{"file-appender-relative-dir", map[string]string{"appender.f.type": "File", "appender.f.fileDir": "rel/sub", "appender.f.fileName": "b.log", "logger.lg.type": "AsyncLogger", "logger.lg.tags": "c16bc", "logger.lg.bufferFullPolicy": "Block", "logger.lg.appenderRef.ref": "f"}, "rel/sub/b.log"},
		{"file-appender-dot-relative", map[string]string{"appender.f.type": "File", "appender.f.fileDir": "./rel/../rel", "appender.f.fileName": "c.log", "logger.lg.type": "Logger", "logger.lg.tags": "c16bc", "logger.lg.appenderRef.ref": "f"}, "rel/c.log"},
		{"file-logger-default-dir", map[string]string{"appender.u.type": "Discard", "logger.lg.type": "File", "logger.lg.tags": "c16bc", "logger.lg.fileName": "d.log"}, "logs/d.log"},
		{"rolling-appender-relative-dir", map[string]string{"appender.f.type": "RollingFile", "appender.f.fileDir": "rel", "appender.f.fileName": "e.log", "appender.f.rotation": "h", "appender.f.maxAge": "24", "logger.lg.type": "Logger", "logger.lg.tags": "c16bc", "logger.lg.appenderRef.ref": "f"}, "rel"},
	}
	for _, v := range vs {
		cs := map[string]any{"scenario": "Refresh/Destroy cycles with built-in file plugins and relative directories", "variant": v.name, "config": v.cfg}
		var ids []string
		bad := false
		for cycle := 0; cycle < 4 && !bad; cycle++ {
			okR, pvR, _ := callWithWatchdog(30*time.Second, func() {
				if err := log.Refresh(v.cfg); err != nil {
					bad = true
					w.Violate("C16:valid-refresh-rejected", fmt.Sprintf("[%s] cycle %d: Refresh of a valid configuration failed: %v", v.name, cycle, err), cs)
				}
			})
			if !okR || pvR != nil {
				w.Violate("C16:refresh-panic", fmt.Sprintf("[%s] cycle %d: Refresh returned=%v panic=%v", v.name, cycle, okR, pvR), cs)
				w.flush()
				return
			}
			if bad {
				log.Destroy()
				break
			}
			for k := 0; k < 3; k++ {
				id := fmt.Sprintf("id-bc%dc%d-%d", w.Spec.Shard, cycle, k)
				ids = append(ids, id)
				if pv, _ := catch(func() { log.Info(ctx, tag, log.Msg(id)) }); pv != nil {
					bad = true
					w.Violate("C16:log-panic:live", fmt.Sprintf("[%s] cycle %d: a log call panicked: %v", v.name, cycle, pv), cs)
				}
			}
			if okD, pvD, _ := callWithWatchdog(30*time.Second, log.Destroy); !okD || pvD != nil {
				w.Violate("C16:destroy-panic", fmt.Sprintf("[%s] cycle %d: Destroy returned=%v panic=%v", v.name, cycle, okD, pvD), cs)
				w.flush()
				return
			}
			// after this cycle's Destroy everything logged so far is in the configured file
			var data []byte
			p := filepath.Join(wd, v.file)
			if st, err := os.Stat(p); err == nil && st.IsDir() {
				ents, _ := os.ReadDir(p)
				for _, e := range ents {
					if strings.HasPrefix(e.Name(), "e.log.") {
						b, _ := os.ReadFile(filepath.Join(p, e.Name()))
						data = append(data, b...)
					}
				}
			} else {
				data, _ = os.ReadFile(p)
			}
			w.Eval(1)
			for _, id := range ids {
				if !strings.Contains(string(data), id+"\"") && !strings.Contains(string(data), id+"\n") && !strings.Contains(string(data), id+"|") {
					bad = true
					w.Violate("C16:misrouted", fmt.Sprintf("[%s] after cycle %d (Refresh, three events, Destroy): %s is not in %s - a valid Refresh after Destroy must route as configured", v.name, cycle, id, v.file), cs)
					break
				}
			}
		}
		if !bad {
			w.Distinct("builtincycles|" + v.name)
		}
	}
}
