package main

// C04, worker kind "relife": one directly constructed AsyncLogger object is started and stopped several times. In every
// life, once Stop has returned, delivered + (discard counter delta) = submitted, nothing twice; Block delivers everything.
// (Refresh/Destroy build fresh objects each cycle; a program that keeps its own AsyncLogger may restart it.)

import (
	"fmt"
	"sync"
	"time"

	log "github.com/go-spring/log"
)

func c04relife(w *W) {
	registerMonitorPlugins()
	r := w.Rng()
	for ci := 0; ci < int(w.Spec.N); ci++ {
		c := asyncCase{
			Policy:    []string{"Block", "Discard", "DiscardOldest"}[(ci+w.Spec.Shard)%3],
			Buf:       []int{100, 128, 1000}[r.IntN(3)],
			Producers: []int{1, 2, 4}[r.IntN(3)],
			Appender:  []string{"fast", "slow"}[r.IntN(2)],
			Layout:    r.IntN(3) == 0,
		}
		w.Journal("C04 relife case %d %+v", ci, c)
		rec.take()
		l, sinkName, _, err := buildAsync(c, "c04tag")
		if err != nil {
			w.Violate("C04:start-failed", "could not start the async logger: "+err.Error(), c)
			continue
		}
		okAll := true
		lives := 2 + r.IntN(3)
		for life := 1; life <= lives && okAll; life++ {
			if life > 1 {
				if pv, st := catch(func() { err = l.Start() }); pv != nil || err != nil {
					w.Violate("C04:restart-failed", fmt.Sprintf("Start of a stopped AsyncLogger (life %d): err=%v panic=%v\n%s", life, err, pv, trunc(st, 800)), c)
					okAll = false
					break
				}
			}
			before := l.GetDiscardCounter()
			per := 300 + r.IntN(900)
			if c.Appender == "slow" && c.Policy == "Block" {
				per /= 4
			}
			var wg sync.WaitGroup
			for p := 0; p < c.Producers; p++ {
				wg.Add(1)
				go func(p int) {
					defer wg.Done()
					for i := 0; i < per; i++ {
						id := fmt.Sprintf("id-l%dp%dc%d-%d", life, p, ci, i)
						if i%4 == 3 {
							l.Write([]byte("raw " + id + "\n"))
						} else {
							appendEvent(l, log.InfoLevel, id)
						}
					}
				}(p)
			}
			wg.Wait()
			okStop, pv, dump := callWithWatchdog(90*time.Second, l.Stop)
			if !okStop {
				if blocked, gr := blockedInLibrary(dump, "watchdogMarker"); blocked {
					w.Violate("C04:stop-blocked:"+c.Policy, fmt.Sprintf("Stop (life %d of the same logger object) is parked inside the library:\n%s", life, trunc(gr, 1500)), c)
				} else {
					w.Inconclusive("C04 relife: Stop did not return within the watchdog")
				}
				w.flush()
				return
			}
			if pv != nil {
				w.Violate("C04:stop-panic", fmt.Sprintf("Stop panicked in life %d: %v", life, pv), c)
				okAll = false
				break
			}
			discarded := l.GetDiscardCounter() - before
			delivered := map[string]int{}
			for _, it := range rec.take() {
				if it.Sink == sinkName {
					delivered[idOf(it.JSON)]++
				}
			}
			submitted := c.Producers * per
			n := 0
			for id, k := range delivered {
				n += k
				if k > 1 {
					okAll = false
					w.Violate("C04:delivered-twice:"+c.Policy, fmt.Sprintf("life %d of one logger object: %s delivered %d times", life, id, k), c)
				}
			}
			if int64(n)+discarded != int64(submitted) {
				okAll = false
				kind := "lost"
				if int64(n)+discarded > int64(submitted) {
					kind = "overcounted"
				}
				w.Violate("C04:conservation:"+kind+":relife-"+c.Policy, fmt.Sprintf("life %d of one AsyncLogger object (Start/Stop repeated on the same object): submitted %d, delivered %d + discarded %d when Stop returned", life, submitted, n, discarded), c)
			}
			if c.Policy == "Block" && discarded != 0 {
				okAll = false
				w.Violate("C04:block-discarded", fmt.Sprintf("life %d: Block policy counted %d discards", life, discarded), c)
			}
			w.Count("restarted_lives_checked", 1)
		}
		w.Eval(1)
		if okAll {
			w.Distinct(fmt.Sprintf("relife|%s|%s|lives=%d|layout=%v", c.Policy, c.Appender, lives, c.Layout))
		}
	}
	w.Sample(map[string]any{"kind": "relife", "what": "one AsyncLogger object: Start, 1-4 producers, Stop, judge; 2-4 lives"})
}
