package main

// C10, scenario "request-scoped context fields": the context-fields hook hands out slices that the application built the
// usual way - the request's fields are stored in the context, a span inside the request appends its own fields to them, so
// the parent's slice (len 2) and the child's slice (len 4) share ONE backing array and the parent's has spare capacity. All
// of that is the application's data; the library only reads it. Events are logged alternately with the parent's and the
// child's context, each with own fields, through the built-in layouts (the record a user sees is the formatted line): every
// line must carry exactly the fields its hook call returned, ahead of the call's own fields.

import (
	"context"
	"fmt"
	"os"
	"path/filepath"
	"strings"
	"sync"
	"time"

	log "github.com/go-spring/log"
)

type c10scopeKey struct{}

func c10Scoped(w *W, tag *log.Tag) {
	for vi, v := range []struct{ kind, layout string }{{"Logger", "TextLayout"}, {"Logger", "JSONLayout"}, {"AsyncLogger", "JSONLayout"}, {"AsyncLogger", "TextLayout"}} {
		dir := filepath.Join(w.Spec.Dir, fmt.Sprintf("%s.scoped%d", w.Spec.Name, vi))
		_ = os.MkdirAll(dir, 0o755)
		cfg := map[string]string{"appender.f.type": "File", "appender.f.fileDir": dir, "appender.f.fileName": "s.log", "appender.f.layout.type": v.layout,
			"logger.lg.type": v.kind, "logger.lg.tags": "c10tag", "logger.lg.appenderRef.ref": "f"}
		if v.kind == "AsyncLogger" {
			cfg["logger.lg.bufferFullPolicy"] = "Block"
		}
		cs := map[string]any{"scenario": "parent and child context fields share one backing array (child = append(parent, ...))", "logger": v.kind, "layout": v.layout}
		if err := log.Refresh(cfg); err != nil {
			w.Violate("C10:refresh-failed", err.Error(), cfg)
			log.Destroy()
			continue
		}
		// the application's data
		reqFields := make([]log.Field, 0, 12) // a request-scoped slice with room for what the spans will add
		reqFields = append(reqFields, log.String("trace", "t-1"), log.String("svc", "checkout"))
		spanFields := append(reqFields, log.String("span", "s-7"))  // same array, len 3
		deepFields := append(spanFields, log.Int("depth", 2))       // same array, len 4
		deeperFields := append(deepFields, log.String("leaf", "x")) // same array, len 5
		want := map[string][]string{"req": {"trace", "svc"}, "span": {"trace", "svc", "span"}, "deep": {"trace", "svc", "span", "depth"}, "deeper": {"trace", "svc", "span", "depth", "leaf"}}
		slices := map[string][]log.Field{"req": reqFields, "span": spanFields, "deep": deepFields, "deeper": deeperFields}
		calls := 0
		log.FieldsFromContext = func(c context.Context) []log.Field {
			calls++
			if c == nil {
				return nil
			}
			k, _ := c.Value(c10scopeKey{}).(string)
			return slices[k]
		}
		order := []string{"req", "span", "req", "deep", "deeper", "deep", "span", "req", "deeper", "span"}
		var ids []string
		for i, k := range order {
			ctx := context.WithValue(context.Background(), c10scopeKey{}, k)
			id := fmt.Sprintf("id-scoped%d-%d", vi, i)
			ids = append(ids, id)
			switch i % 3 {
			case 0:
				log.Info(ctx, tag, log.Msg(id), log.Int("own", i), log.String("own2", "v"), log.String("own3", "w"))
			case 1:
				log.Warnf(ctx, tag, "%s", id)
			default:
				log.Error(ctx, tag, log.Msg(id), log.Int("own", i))
			}
		}
		log.FieldsFromContext = nil
		log.Destroy()
		data, _ := os.ReadFile(filepath.Join(dir, "s.log"))
		_ = os.RemoveAll(dir)
		lines := map[string]string{}
		for _, ln := range strings.Split(string(data), "\n") {
			if id := idOf([]byte(ln)); id != "" {
				lines[id] = ln
			}
		}
		okAll := true
		if calls != len(order) {
			okAll = false
			w.Violate("C10:hook-count:FieldsFromContext:enabled", fmt.Sprintf("request-scoped scenario: hook ran %d times for %d emitted events", calls, len(order)), cs)
		}
		for i, id := range ids {
			w.Eval(1)
			ln, ok := lines[id]
			if !ok {
				okAll = false
				w.Violate("C10:record-fields", fmt.Sprintf("request-scoped scenario: no line for %s (%d of %d lines found)", id, len(lines), len(ids)), cs)
				break
			}
			pos := func(key string) int {
				if v.layout == "JSONLayout" {
					return strings.Index(ln, `"`+key+`":`)
				}
				return strings.Index(ln, "||"+key+"=")
			}
			prev, bad := -1, ""
			for _, key := range want[order[i]] {
				p := pos(key)
				if p < 0 || p < prev {
					bad = fmt.Sprintf("context field %q of the %s context is missing or out of place", key, order[i])
					break
				}
				prev = p
			}
			pMsg := pos("msg")
			if bad == "" && (pMsg < 0 || pMsg < prev) {
				bad = "the call's msg field is missing or ahead of the context fields"
			}
			if bad == "" {
				for _, key := range []string{"trace", "svc", "span", "depth", "leaf"} {
					in := false
					for _, k2 := range want[order[i]] {
						in = in || k2 == key
					}
					if !in && pos(key) >= 0 {
						bad = fmt.Sprintf("the line carries %q, which the hook did not return for the %s context", key, order[i])
					}
				}
			}
			// the own fields of THIS call and of no other: msg occurs once, own=i if the call had it
			if bad == "" && strings.Count(ln, "id-scoped") != 1 {
				bad = "the line carries the msg of another call"
			}
			if bad == "" && i%3 != 1 {
				if (v.layout == "JSONLayout" && !strings.Contains(ln, fmt.Sprintf(`"own":%d`, i))) || (v.layout != "JSONLayout" && !strings.Contains(ln, fmt.Sprintf("||own=%d", i))) {
					bad = "the line lacks the call's own field"
				}
			}
			if bad != "" {
				okAll = false
				w.Violate("C10:record-ctxfields", fmt.Sprintf("request-scoped scenario (%s, %s), event %d logged with the %s context: %s: %s", v.kind, v.layout, i, order[i], bad, trunc(ln, 400)), cs)
				break
			}
		}
		if okAll {
			w.Distinct("request-scoped-hook-slices|" + v.kind + "|" + v.layout)
			w.Count("request_scoped_lines_checked", int64(len(ids)))
		}
	}
}

var c10secOnce sync.Once

// c10RollingBoundary: the built-in rolling-file logger with a one-second period, all three hooks installed and counting; three
// events, then across a real boundary (the first write of the new period performs the rotation), three more. Per emitted event:
// every hook exactly once, with the caller's context - also for the event whose write rotates the file.
func c10RollingBoundary(w *W, tag *log.Tag) {
	c10secOnce.Do(func() { log.RegisterTimeRotation("c10sec", log.TimeRotation{Interval: time.Second}) })
	for vi, async := range []string{"false", "true"} {
		dir := filepath.Join(w.Spec.Dir, fmt.Sprintf("%s.rb%d", w.Spec.Name, vi))
		_ = os.MkdirAll(dir, 0o755)
		cfg := map[string]string{"appender.unused.type": "Discard", "logger.lg.type": "RollingFile", "logger.lg.tags": "c10tag", "logger.lg.fileDir": dir, "logger.lg.fileName": "rb.log",
			"logger.lg.rotation": "c10sec", "logger.lg.async": async, "logger.lg.layout.type": "JSONLayout"}
		cs := map[string]any{"scenario": "rolling-file logger, one-second period, hooks counted across a real boundary", "async": async}
		if err := log.Refresh(cfg); err != nil {
			w.Note("rolling boundary scenario: Refresh failed: " + err.Error())
			log.Destroy()
			_ = os.RemoveAll(dir)
			continue
		}
		type counts struct{ t, s, f, foreign int }
		var mu sync.Mutex
		per := map[any]*counts{}
		get := func(c context.Context) *counts {
			mu.Lock()
			defer mu.Unlock()
			var k any
			if c != nil {
				k = c.Value(c10scopeKey{})
			}
			if k == nil {
				k = "<not a caller's context>"
			}
			if per[k] == nil {
				per[k] = &counts{}
			}
			return per[k]
		}
		log.TimeNow = func(c context.Context) time.Time { get(c).t++; return time.Now() }
		log.StringFromContext = func(c context.Context) string { get(c).s++; return "cs" }
		log.FieldsFromContext = func(c context.Context) []log.Field { get(c).f++; return nil }
		n := 0
		emit := func() {
			n++
			ctx := context.WithValue(context.Background(), c10scopeKey{}, fmt.Sprintf("call-%d", n))
			log.Info(ctx, tag, log.Msg(fmt.Sprintf("id-rb%d-%d", vi, n)))
		}
		for i := 0; i < 3; i++ {
			emit()
		}
		now := time.Now()
		time.Sleep(time.Until(now.Truncate(time.Second).Add(time.Second + 20*time.Millisecond)))
		for i := 0; i < 3; i++ {
			emit()
		}
		log.Destroy() // drains the asynchronous variant
		log.TimeNow, log.StringFromContext, log.FieldsFromContext = nil, nil, nil
		ents, _ := os.ReadDir(dir)
		_ = os.RemoveAll(dir)
		okAll := true
		mu.Lock()
		for k, c := range per {
			w.Eval(1)
			if k == "<not a caller's context>" {
				okAll = false
				w.Violate("C10:wrong-context", fmt.Sprintf("rolling-file logger across a period boundary: hooks were invoked with a context that is no caller's (TimeNow %d, StringFromContext %d, FieldsFromContext %d times)", c.t, c.s, c.f), cs)
				continue
			}
			if c.t != 1 || c.s != 1 || c.f != 1 {
				okAll = false
				w.Violate("C10:hook-count:TimeNow:enabled", fmt.Sprintf("rolling-file logger across a period boundary: for %v the hooks ran TimeNow x%d, StringFromContext x%d, FieldsFromContext x%d (each must run exactly once)", k, c.t, c.s, c.f), cs)
			}
		}
		if len(per) < n {
			okAll = false
			w.Violate("C10:hook-count:TimeNow:enabled", fmt.Sprintf("rolling-file logger: %d events were logged, hooks ran for %d of them", n, len(per)), cs)
		}
		mu.Unlock()
		if okAll && len(ents) >= 2 {
			w.Distinct("rolling-boundary-hooks|async=" + async)
			w.Count("rolling_boundary_events_with_counted_hooks", int64(n))
		}
	}
}
