package main

// C07 — JSON layout: one valid JSON object per event that decodes to the logged data.
// C08 — text layout: one line, fixed header, key=value tokens identical to the JSON tokens.

import (
	"bytes"
	"context"
	"encoding/json"
	"fmt"
	"runtime"
	"strconv"
	"strings"
	"sync"
	"time"

	log "github.com/go-spring/log"
)

// chunkSink replaces log.Stdout: records every Write call as one chunk.
type chunkSink struct {
	mu     sync.Mutex
	chunks [][]byte
}

func (c *chunkSink) Write(b []byte) (int, error) {
	c.mu.Lock()
	c.chunks = append(c.chunks, append([]byte(nil), b...))
	c.mu.Unlock()
	return len(b), nil
}
func (c *chunkSink) take() [][]byte {
	c.mu.Lock()
	defer c.mu.Unlock()
	r := c.chunks
	c.chunks = nil
	return r
}

type evSpec struct {
	levelName, time, fileLine, tag, ctx string
	members                             []xmember
}

// checkJSONLine validates one JSON-layout line against the expectation. Returns (parsed object, problem, class).
// structureOnly (C08): only the shape needed to pair tokens with members is checked; values and
// the fileLine rule are judged elsewhere.
func checkJSONLine(line []byte, sp *evSpec, structureOnly bool, truncated bool) (*jObject, string, string) {
	if len(line) == 0 || line[len(line)-1] != '\n' {
		return nil, "output does not end with a line break", "framing"
	}
	body := line[:len(line)-1]
	if bytes.IndexByte(body, '\n') >= 0 {
		return nil, "output spans more than one line", "framing"
	}
	v, err := strictJSONParse(body)
	if err != nil {
		return nil, "not a valid RFC 8259 value: " + err.Error(), "invalid-json"
	}
	obj, ok := v.(*jObject)
	if !ok {
		return nil, "top-level value is not an object", "invalid-json"
	}
	hdr := []xmember{{"level", &xnode{kind: xStr, s: strings.ToLower(sp.levelName)}}, {"time", &xnode{kind: xStr, s: sp.time}},
		{"fileLine", &xnode{kind: xStr, s: sp.fileLine}}, {"tag", &xnode{kind: xStr, s: sp.tag}}}
	if sp.ctx != "" {
		hdr = append(hdr, xmember{"ctxString", &xnode{kind: xStr, s: sp.ctx}})
	}
	all := append(hdr, sp.members...)
	if len(obj.Keys) != len(all) {
		return obj, fmt.Sprintf("object has %d members %q, expected %d", len(obj.Keys), obj.Keys, len(all)), "member-count"
	}
	if structureOnly {
		return obj, "", ""
	}
	for i, m := range all {
		if i == 2 && truncated {
			// the truncation rule of fileLine belongs to C08; here it only has to be a string member
			if _, ok := obj.Vals[i].(string); !ok || obj.Keys[i] != "fileLine" {
				return obj, "fileLine member missing or not a string", "header"
			}
			continue
		}
		if i == 0 {
			// the level member: its name, in whatever letter case the layout chooses
			if g, ok := obj.Vals[0].(string); !ok || obj.Keys[0] != "level" || !strings.EqualFold(g, string(expectedDecode(nil, sp.levelName))) {
				return obj, fmt.Sprintf("level member is %q=%v, expected the name %q", obj.Keys[0], obj.Vals[0], sp.levelName), "header"
			}
			continue
		}
		wantKey := string(expectedDecode(nil, m.key))
		if obj.Keys[i] != wantKey {
			cls := "member-order"
			if i < len(hdr) {
				cls = "header"
			}
			return obj, fmt.Sprintf("member %d has key %q, expected %q", i, obj.Keys[i], wantKey), cls
		}
		if d := xcompare(m.x, obj.Vals[i], wantKey); d != "" {
			cls := "value"
			if i < len(hdr) {
				cls = "header"
			} else {
				cls = "value:" + xkindName(m.x)
			}
			return obj, d, cls
		}
	}
	return obj, "", ""
}

func xkindName(x *xnode) string {
	return []string{"null", "bool", "int", "float", "nonfinite", "string", "array", "object", "marshal-error", "reflect"}[x.kind]
}

// expectedTextLine reconstructs the text line from the JSON tokens of the same event.
func expectedTextLine(obj *jObject, sp *evSpec, levelUpper string) string {
	var sb strings.Builder
	sb.WriteString("[" + levelUpper + "][" + sp.time + "][" + sp.fileLine + "] " + sp.tag + "||")
	nh := 4
	if sp.ctx != "" {
		sb.WriteString(sp.ctx + "||")
		nh = 5
	}
	for i, m := range sp.members {
		if i > 0 {
			sb.WriteString("||")
		}
		tok := obj.RawVals[nh+i]
		if m.x.strLike && len(tok) >= 2 && tok[0] == '"' {
			tok = tok[1 : len(tok)-1]
		}
		sb.WriteString(obj.RawKeys[nh+i] + "=" + tok)
	}
	sb.WriteByte('\n')
	return sb.String()
}

func textDiffClass(got, want string, sp *evSpec) string {
	// locate first difference
	i := 0
	for i < len(got) && i < len(want) && got[i] == want[i] {
		i++
	}
	hdrLen := len("[][][] ||") + len(sp.time) + len(sp.fileLine) + len(sp.tag)
	if i < hdrLen {
		return "header"
	}
	if strings.Count(got, "\n") != 1 {
		return "line-break"
	}
	for _, c := range []byte(got[:len(got)-1]) {
		if c < 0x20 {
			return "raw-control"
		}
	}
	return "token"
}

type genCase struct {
	Seed  int64 `json:"seed"`
	Shard int   `json:"shard"`
	Index int   `json:"index"`
	W     int   `json:"w"`
}

func here() (string, int) {
	_, f, l, _ := runtime.Caller(1)
	return f, l
}

// panickingArray writes two elements, opens a nested object and then panics.
type panickingArray struct{}

func (panickingArray) EncodeArray(enc log.Encoder) {
	enc.AppendInt64(1)
	enc.AppendString("two")
	enc.AppendObjectBegin()
	enc.AppendKey("k")
	enc.AppendInt64(3)
	panic("encoder gave up")
}

// drainArray: a custom array encoder over a source that is consumed by reading it.
type drainArray struct {
	vals  []int64
	calls int
}

func (d *drainArray) EncodeArray(enc log.Encoder) {
	d.calls++
	for _, v := range d.vals {
		enc.AppendInt64(v)
	}
	d.vals = nil
}

type ctxKey int

func c0708Worker(w *W) {
	isC08 := w.Spec.Prop == "C08"
	n := int(w.Spec.N)
	only := -1
	if w.Spec.Replay != nil {
		var gc genCase
		_ = json.Unmarshal(w.Spec.Replay, &gc)
		only = gc.Index
		n = gc.Index + 1
	}
	prop := w.Spec.Prop
	fgHostileLevels = prop == "C07"
	w.CountMax("max_levels_in_generator", int64(len(fgAllLevels())))

	switch w.Spec.Kind {
	case "asyncfmt":
		c0708AsyncFmt(w, isC08)
	case "direct":
		for i := 0; i < n; i++ {
			// one generator per case so that a case can be replayed by index
			g := &fgen{r: newRng(w.Spec.Seed, uint64(w.Spec.Shard)*1_000_003+uint64(i)+77)}
			ev := g.event()
			if i%4 == 1 || i%4 == 2 {
				// the same instant as the previous case's neighbour, shown in another zone; and the next
				// millisecond of the same second: caches keyed by the second must not leak
				base := time.Unix(int64(1_600_000_000+(i/4)*977), int64((i/4)%1000)*1e6)
				zones := []*time.Location{time.UTC, time.FixedZone("a", 5*3600+1800), time.FixedZone("b", -8*3600), time.FixedZone("c", 13*3600)}
				ev.Time = base.Add(time.Duration(i%4-1) * 7 * time.Millisecond).In(zones[(i/4+i)%4])
			}
			W := g.r.IntN(206) - 5
			if g.r.IntN(4) == 0 {
				W = []int{-5, -1, 0, 1, 2, 3, 4, 5, 48, 200}[g.r.IntN(10)]
			}
			if only >= 0 && i != only {
				continue
			}
			gc := genCase{Seed: w.Spec.Seed, Shard: w.Spec.Shard, Index: i, W: W}
			w.Journal("direct case %+v", gc)
			if i%150 == 75 {
				// a user-supplied encoder that panics half-way through a nested value; the caller recovers. Whatever
				// formatting state the library keeps between events must not leak into the events that follow.
				bad := &log.Event{Level: log.InfoLevel, Time: ev.Time, File: "p.go", Line: 1, Tag: "abc",
					Fields: []log.Field{log.Int("before", 1), log.Array("arr", panickingArray{}), log.Int("after", 2)}}
				catch(func() { (&log.TextLayout{BaseLayout: log.BaseLayout{FileLineLength: 48}}).ToBytes(bad) })
				catch(func() { (&log.JSONLayout{BaseLayout: log.BaseLayout{FileLineLength: 48}}).ToBytes(bad) })
				w.Count("recovered_encoder_panics", 2)
			}
			if i%400 == 200 {
				// a batch of generated events through the built-in Console (on a real descriptor), File and RollingFile appenders:
				// what arrives is what the layouts - judged case by case here - produce
				mk := func() []*log.Event {
					var evs []*log.Event
					for k := 0; k < 24; k++ {
						gk := &fgen{r: newRng(w.Spec.Seed, uint64(w.Spec.Shard)*1_000_003+uint64(i)*131+uint64(k)+5)}
						evs = append(evs, gk.event().toEvent())
					}
					return evs
				}
				var ms []builtinMismatch
				if pv, _ := catch(func() { ms = builtinFaithful(w.Spec.Dir, w.Spec.Name, W, mk) }); pv != nil {
					ms = nil // a panicking layout is the business of the per-case checks
				}
				mkInfo := func() []*log.Event { // through a logger: a level every range contains
					evs := mk()
					for _, e := range evs {
						e.Level = log.InfoLevel
					}
					return evs
				}
				if pv, _ := catch(func() { ms = append(ms, builtinFanout(w.Spec.Dir, w.Spec.Name, []int{12, 48, 200}, mkInfo)...) }); pv != nil {
					ms = nil
				}
				for _, m := range ms {
					w.Violate(prop+":builtin-sink-alters-bytes", m.String(), gc)
				}
				w.Count("events_sent_through_the_builtin_sinks", 24*6)
			}
			if !isC08 && i%50 == 25 {
				// a custom array encoder over a source that can be read ONCE (a queue being drained, an iterator): the event is
				// formatted once, by one layout, so the line carries what the source held - also when the layout starts from an
				// empty buffer pool (first events of a process, after two garbage collections)
				for _, cold := range []bool{true, false} {
					if cold {
						runtime.GC()
						runtime.GC()
					}
					q := &drainArray{vals: []int64{int64(i), -1, 1 << 62}}
					e := &log.Event{Level: log.InfoLevel, Time: ev.Time, File: "d.go", Line: 7, Tag: "abc",
						Fields: []log.Field{log.Int("before", 1), log.Array("drained", q), log.Int("after", 2)}}
					var dl []byte
					if pv, _ := catch(func() { dl = (&log.JSONLayout{BaseLayout: log.BaseLayout{FileLineLength: 48}}).ToBytes(e) }); pv != nil {
						w.Violate("C07:json-layout-panic", fmt.Sprintf("JSONLayout.ToBytes panicked on an event with a custom array encoder: %v", pv), gc)
						continue
					}
					want := fmt.Sprintf("[%d,-1,%d]", i, int64(1)<<62)
					got := "<member missing>"
					if v, err := strictJSONParse(bytes.TrimRight(dl, "\n")); err == nil {
						if o, ok := v.(*jObject); ok {
							for k, key := range o.Keys {
								if key == "drained" {
									got = o.RawVals[k]
								}
							}
						}
					} else {
						got = "<invalid JSON: " + err.Error() + ">"
					}
					w.Eval(1)
					if got != want {
						w.Violate("C07:value:custom-array", fmt.Sprintf("an array field whose encoder reads its source once (cold buffer pool: %v): the line carries %s, the source held %s; the encoder was invoked %d time(s) for one formatted line\nline: %s", cold, got, want, q.calls, trunc(string(dl), 400)), gc)
					} else {
						w.Count("single_pass_array_encoders_checked", 1)
					}
				}
			}
			sp := &evSpec{levelName: ev.Level.Name(), time: ev.Time.Format("2006-01-02T15:04:05.000"), fileLine: expectedFileLine(ev.File, ev.Line, W), tag: ev.Tag, ctx: ev.CtxString,
				members: append(append([]xmember{}, ev.ctxM...), ev.fM...)}
			var jline []byte
			jl := &log.JSONLayout{BaseLayout: log.BaseLayout{FileLineLength: W}}
			if pv, st := catch(func() { jline = jl.ToBytes(ev.toEvent()) }); pv != nil {
				if !isC08 || W < 3 {
					w.Violate(prop+":json-layout-panic", fmt.Sprintf("JSONLayout.ToBytes panicked (W=%d): %v\n%s", W, pv, trunc(st, 1500)), gc)
				}
				w.Eval(1)
				continue
			}
			obj, problem, cls := checkJSONLine(jline, sp, isC08, len(ev.File)+1+len(strconv.Itoa(ev.Line)) > W)
			if !isC08 {
				w.Eval(1)
				if problem != "" {
					w.Violate("C07:"+cls, fmt.Sprintf("event %d (features %s): %s\nline: %s", i, ev.featKey(), problem, trunc(string(jline), 1200)), gc)
				} else {
					w.Distinct(ev.featKey())
					if i < 1 {
						w.Sample(map[string]any{"json_line": trunc(string(jline), 400), "features": ev.featKey()})
					}
				}
				continue
			}
			// C08
			w.Eval(1)
			if problem != "" {
				w.Count("skipped_json_line_invalid", 1) // the JSON side is C07's business
				continue
			}
			var tline []byte
			tl := &log.TextLayout{BaseLayout: log.BaseLayout{FileLineLength: W}}
			if pv, st := catch(func() { tline = tl.ToBytes(ev.toEvent()) }); pv != nil {
				w.Violate("C08:text-layout-panic", fmt.Sprintf("TextLayout.ToBytes panicked (W=%d): %v\n%s", W, pv, trunc(st, 1500)), gc)
				continue
			}
			want := expectedTextLine(obj, sp, strings.ToUpper(ev.Level.Name()))
			if string(tline) != want {
				w.Violate("C08:"+textDiffClass(string(tline), want, sp), fmt.Sprintf("event %d W=%d (features %s):\n got: %q\nwant: %q", i, W, ev.featKey(), trunc(string(tline), 1500), trunc(want, 1500)), gc)
				continue
			}
			if i%4 == 1 {
				// one event, several appenders: layouts configured with another width format the very same event object first
				// (a logger fanning out to two appenders does exactly that); this layout's line must not depend on them
				e := ev.toEvent()
				W2 := []int{0, 2, 5, 20, 200, 17, -1, 1000}[(i/4)%8]
				var t2, j2 []byte
				if pv, _ := catch(func() {
					_ = (&log.TextLayout{BaseLayout: log.BaseLayout{FileLineLength: W2}}).ToBytes(e)
					_ = (&log.JSONLayout{BaseLayout: log.BaseLayout{FileLineLength: W2}}).ToBytes(e)
					t2 = tl.ToBytes(e)
					j2 = jl.ToBytes(e)
				}); pv != nil {
					w.Violate("C08:text-layout-panic", fmt.Sprintf("formatting one event with layouts of widths %d and %d panicked: %v", W2, W, pv), gc)
					continue
				}
				if string(t2) != want || !bytes.Equal(j2, jline) {
					w.Violate("C08:header", fmt.Sprintf("event %d: after layouts with width %d had formatted the same event object, the layout with W=%d produced\n text: %q\n json: %q\nexpected\n text: %q\n json: %q", i, W2, W, trunc(string(t2), 600), trunc(string(j2), 600), trunc(want, 600), trunc(string(jline), 600)), gc)
					continue
				}
				w.Count("events_formatted_by_layouts_of_two_widths", 1)
			}
			wc := "wide"
			switch {
			case W < 3:
				wc = "w<3"
			case len(ev.File)+1+len(strconv.Itoa(ev.Line)) > W:
				wc = "truncated"
			}
			w.Distinct(ev.featKey() + "|" + wc)
			if i < 1 {
				w.Sample(map[string]any{"text_line": trunc(string(tline), 400), "W": W, "features": ev.featKey()})
			}
		}
	case "pipeline":
		// real pipeline: Refresh-built console appenders with both layouts, hooks for time / context
		W := w.ArgInt("w", 48)
		sink := &chunkSink{}
		log.Stdout = sink
		tagJ := log.RegisterTag("vjson")
		tagT := log.RegisterTag("vtext")
		cfg := map[string]string{
			"appender.cj.type":                    "Console",
			"appender.cj.layout.type":             "JSONLayout",
			"appender.cj.layout.fileLineLength":   strconv.Itoa(W),
			"appender.ct.type":                    "Console",
			"appender.ct.layout.type":             "TextLayout",
			"appender.ct.layout.file-line-length": strconv.Itoa(W),
			"logger.lj.type":                      "Logger",
			"logger.lj.tags":                      "vjson",
			"logger.lj.appenderRef.ref":           "cj",
			"logger.lt.type":                      "Logger",
			"logger.lt.tags":                      "vtext",
			"logger.lt.appenderRef.ref":           "ct",
		}
		// the width is written in the spelling this worker draws (every spelling the key normalisation accepts names the same
		// attribute): canonical, capitalised path elements, kebab, snake, mixed
		delete(cfg, "appender.cj.layout.fileLineLength")
		delete(cfg, "appender.ct.layout.file-line-length")
		sp := [][2]string{{"layout.fileLineLength", "layout.file-line-length"}, {"Layout.FileLineLength", "layout.file_line_length"}, {"layout.FileLineLength", "Layout.fileLineLength"},
			{"layout.file_line_length", "Layout.FileLineLength"}, {"layout.file-line-length", "layout.FileLineLength"}}[w.Spec.Shard%5]
		cfg["appender.cj."+sp[0]], cfg["appender.ct."+sp[1]] = strconv.Itoa(W), strconv.Itoa(W)
		if err := log.Refresh(cfg); err != nil {
			w.Violate(prop+":pipeline-refresh", "Refresh of a plain two-console configuration failed: "+err.Error(), cfg)
			return
		}
		defer log.Destroy()
		type perCall struct {
			t  time.Time
			cs string
			cf []log.Field
		}
		log.TimeNow = func(ctx context.Context) time.Time { return ctx.Value(ctxKey(1)).(*perCall).t }
		log.StringFromContext = func(ctx context.Context) string { return ctx.Value(ctxKey(1)).(*perCall).cs }
		log.FieldsFromContext = func(ctx context.Context) []log.Field { return ctx.Value(ctxKey(1)).(*perCall).cf }
		for i := 0; i < n; i++ {
			g := &fgen{r: newRng(w.Spec.Seed, uint64(w.Spec.Shard)*1_000_003+uint64(i)+991)}
			ev := g.event()
			if only >= 0 && i != only {
				continue
			}
			if ev.Level.Code() >= log.MaxLevel.Code() {
				ev.Level = log.ErrorLevel // not enabled in any default range: nothing would be emitted
			}
			gc := genCase{Seed: w.Spec.Seed, Shard: w.Spec.Shard, Index: i, W: W}
			w.Journal("pipeline case %+v", gc)
			ctx := context.WithValue(context.Background(), ctxKey(1), &perCall{t: ev.Time, cs: ev.CtxString, cf: ev.CtxFields})
			sink.take()
			var file string
			var line int
			pv, st := catch(func() {
				file, line = here()
				log.Record(ctx, ev.Level, tagJ, 1, ev.Fields...) // line+1
				log.Record(ctx, ev.Level, tagT, 1, ev.Fields...) // line+2
			})
			w.Eval(1)
			if pv != nil {
				w.Violate(prop+":log-call-panic", fmt.Sprintf("log call panicked with fileLineLength=%d: %v\n%s", W, pv, trunc(st, 1500)), gc)
				continue
			}
			chunks := sink.take()
			if len(chunks) != 2 {
				w.Violate(prop+":pipeline-chunks", fmt.Sprintf("two log calls produced %d writes to the console stream", len(chunks)), gc)
				continue
			}
			sp := &evSpec{levelName: ev.Level.Name(), time: ev.Time.Format("2006-01-02T15:04:05.000"), fileLine: expectedFileLine(file, line+1, W), tag: "vjson", ctx: ev.CtxString,
				members: append(append([]xmember{}, ev.ctxM...), ev.fM...)}
			obj, problem, cls := checkJSONLine(chunks[0], sp, isC08, len(file)+1+len(strconv.Itoa(line+1)) > W)
			if !isC08 {
				if problem != "" {
					w.Violate("C07:"+cls, fmt.Sprintf("pipeline event %d (features %s): %s\nline: %s", i, ev.featKey(), problem, trunc(string(chunks[0]), 1200)), gc)
				} else {
					w.Distinct("pipe|" + ev.featKey())
					w.Count("pipeline_events", 1)
				}
				continue
			}
			if problem != "" {
				w.Count("skipped_json_line_invalid", 1)
				continue
			}
			sp.tag = "vtext"
			sp.fileLine = expectedFileLine(file, line+2, W)
			want := expectedTextLine(obj, sp, strings.ToUpper(ev.Level.Name()))
			if string(chunks[1]) != want {
				w.Violate("C08:"+textDiffClass(string(chunks[1]), want, sp), fmt.Sprintf("pipeline event %d W=%d:\n got: %q\nwant: %q", i, W, trunc(string(chunks[1]), 1500), trunc(want, 1500)), gc)
				continue
			}
			w.Distinct(fmt.Sprintf("pipe-w%d|%s", W, ev.featKey()))
			w.Count("pipeline_events", 1)
		}
	}
}

// c0708AsyncFmt: formatting that happens LATER than the call. An asynchronous logger with a logger-level layout formats on its
// worker goroutine, possibly long after the log call returned and after many other calls were made. Formatted-message entry
// points (Infof...), structured ones, lazily generated fields and caller-built field slices are mixed; every line must still decode to what THAT call logged, in call order.
func c0708AsyncFmt(w *W, isC08 bool) {
	registerMonitorPlugins()
	prop := "C07"
	lay := "JSONLayout"
	if isC08 {
		prop, lay = "C08", "TextLayout"
	}
	tag := log.RegisterTag("vasync")
	cfg := map[string]string{"appender.s.type": "VSlow", "appender.s.delayUs": "150", "logger.la.type": "AsyncLogger", "logger.la.tags": "vasync", "logger.la.appenderRef.ref": "s",
		"logger.la.layout.type": lay, "logger.la.bufferFullPolicy": "Block", "logger.la.bufferSize": "1000"}
	if err := log.Refresh(cfg); err != nil {
		w.Violate(prop+":pipeline-refresh", "Refresh failed: "+err.Error(), cfg)
		return
	}
	ctx := context.Background()
	n := int(w.Spec.N)
	want := make([]string, 0, n)
	for i := 0; i < n; i++ {
		msg := fmt.Sprintf("id-af%d-%d payload %s", w.Spec.Shard, i, strings.Repeat(string(rune('a'+i%26)), i%40))
		want = append(want, msg)
		switch i % 5 {
		case 0:
			log.Infof(ctx, tag, "%s", msg)
		case 1:
			log.Warnf(ctx, tag, "id-af%d-%d payload %s", w.Spec.Shard, i, strings.Repeat(string(rune('a'+i%26)), i%40))
		case 2:
			log.Error(ctx, tag, log.Msg(msg), log.Int("i", i))
		case 3:
			log.Debug(ctx, tag, func() []log.Field { return []log.Field{log.Msg(msg)} })
		default:
			// (a slice passed as fields... is NOT reused afterwards: whether an asynchronous logger may keep referring to the
			// caller's slice until it formats is not stated by any property - a don't-care, see DESIGN 9.4)
			own := []log.Field{log.Msg(msg), log.Int("i", i)}
			log.Info(ctx, tag, own...)
		}
	}
	log.Destroy()
	items := rec.take()
	cs := map[string]any{"scenario": "asynchronous logger with a logger-level " + lay + ", slow appender (backlog), formatted / structured / lazy entry points mixed"}
	w.Eval(int64(n))
	if len(items) != n {
		w.Violate(prop+":async-format:count", fmt.Sprintf("%d calls, %d lines reached the appender", n, len(items)), cs)
		return
	}
	for i, it := range items {
		line := string(it.JSON)
		var got string
		if isC08 {
			if k := strings.Index(line, "msg="); k >= 0 {
				got = line[k+4:]
				if j := strings.Index(got, "||"); j >= 0 {
					got = got[:j]
				}
				got = strings.TrimSuffix(got, "\n")
			}
		} else {
			var m map[string]any
			if err := json.Unmarshal(it.JSON, &m); err != nil {
				w.Violate("C07:invalid-json", fmt.Sprintf("line %d formatted on the worker goroutine is not valid JSON: %v: %s", i, err, trunc(line, 300)), cs)
				return
			}
			got, _ = m["msg"].(string)
		}
		if got != want[i] {
			w.Violate(prop+":async-format:msg", fmt.Sprintf("call #%d logged msg %q; the line formatted later on the worker goroutine carries %q", i, trunc(want[i], 120), trunc(got, 120)), cs)
			return
		}
	}
	w.Count("lines_formatted_after_the_call_returned", int64(n))
	w.Distinct("async-format|" + lay)
	w.Sample(cs)
}

func c0708Run(d *D) {
	var specs []Spec
	for i := 0; i < 14; i++ {
		s := d.NewSpec("direct", fmt.Sprintf("direct-%d", i), i, 14)
		s.N = d.Pick(20000, 400000)
		specs = append(specs, s)
	}
	ws := []int{48, 0, 1, 2, -5, 3, 10, 200}
	if d.ID == "C07" {
		ws = []int{48, 200}
	}
	for i, wv := range ws {
		s := d.NewSpec("pipeline", fmt.Sprintf("pipe-%d", i), 100+i, 14)
		s.N = d.Pick(3000, 40000)
		s.Args["w"] = strconv.Itoa(wv)
		specs = append(specs, s)
	}
	af := d.NewSpec("asyncfmt", "asyncfmt", 200, 14)
	af.N = d.Pick(3000, 60000)
	specs = append(specs, af)
	d.RunWorkers(specs, 16)
}

func init() {
	register(&Prop{
		ID: "C07", Level: "exploration", MinDistinct: 200, Worker: c0708Worker, Run: c0708Run,
		Rule: "events generated from a seeded grammar over every public field constructor (Bool..Strings, pointer variants incl. nil, Any over all 43 dispatched types + fall-through, Reflect over structs/maps/slices/Marshalers/unmarshalable values, " +
			"Array with scripted custom encoders emitting scalars, nested arrays and objects, Object nested to depth 4, FieldsFromMap), hostile keys/strings (arbitrary bytes, control, quotes, invalid/overlong UTF-8), boundary integers, ±0, subnormals, ±MaxFloat, NaN, ±Inf, " +
			"with/without context string and context fields; formatted by JSONLayout directly and through the real pipeline (Refresh, Record, console appender, hooks). Oracle: strict RFC 8259 parser (order/duplicate preserving, numbers as text) + expected tree built alongside the fields. " +
			"Non-trivial/distinct = distinct feature signatures (set of constructor/shape/boundary features present) of events whose line matched.",
		Assumptions: []string{"nil slices through the typed slice constructors may decode as [] or null", "API misuse by custom encoders (key inside array, unbalanced begin/end) and Array(key, nil) are not generated"},
	})
	register(&Prop{
		ID: "C08", Level: "exploration", MinDistinct: 200, Worker: c0708Worker, Run: c0708Run,
		Rule: "the same generated events as C07, all levels (built-in and custom), timestamps in arbitrary fixed zones (years 1-9999), file names of length 0-300, widths W in [-5,200] set directly and through Refresh (fileLineLength = 48,0,1,2,-5,3,10,200) followed by log calls through the pipeline. " +
			"Oracle (differential): the text line must equal the line reconstructed from the raw tokens of the JSON line of the same event ('[LEVEL][time][fileLine] tag||ctx||key=token||…', quotes removed for string fields, error texts and non-finite floats); fileLine rule computed independently; events whose JSON line is invalid are skipped (C07's business). " +
			"Non-trivial/distinct = distinct (feature signature, width class) pairs of matching events.",
		Assumptions: []string{"context strings, tags and level names containing control characters are not generated (the no-line-break guarantee is scoped to field keys and values)", "file names are ASCII"},
	})
}
