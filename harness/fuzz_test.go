package main

// Coverage-guided fuzz targets (Go's built-in fuzzer), run by the thorough tier of C09 and C17 with an
// execution-count budget (-fuzztime=<N>x). The oracles are the same as in the seeded workers.

import (
	"bytes"
	"strings"
	"testing"

	log "github.com/go-spring/log"
	"github.com/go-spring/log/expr"
)

func FuzzC09Escape(f *testing.F) {
	for _, s := range []string{"", "plain", "\"\\\n\r\t", "\x00\x1f\x7f", "é中😀", "\xff\xfe", "\xe2\x82", "\xed\xa0\x80", "\xf4\x90\x80\x80", "\xef\xbf\xbd", "a\xc0\xafb"} {
		f.Add(s)
	}
	f.Fuzz(func(t *testing.T, s string) {
		var buf bytes.Buffer
		log.WriteLogString(&buf, s)
		dec, why := strictStringBody(nil, buf.Bytes())
		if why != "" {
			t.Fatalf("input %q: output %q is not a valid JSON string body: %s", s, buf.String(), why)
		}
		if exp := expectedDecode(nil, s); !bytes.Equal(dec, exp) {
			t.Fatalf("input %q: decodes to %q, expected %q", s, dec, exp)
		}
	})
}

func FuzzC17Parse(f *testing.F) {
	for _, s := range []string{"", " ", "T{}", "T{a=1}", "T{a=\"x\\/y\", b.c[0]=-0x1F, d=U{e=1.5e3,},}", "T{a=", "T{{{{", "}}}}", "T{a=\"unterminated", "T{a=b c=d}", "\"", "T{a=\"\n\"}"} {
		f.Add(s)
	}
	f.Fuzz(func(t *testing.T, s string) {
		if len(s) > 4096 {
			return // large inputs are covered by the seeded workers (error recovery is quadratic in nesting depth)
		}
		var m map[string]string
		var err error
		func() {
			defer func() {
				if r := recover(); r != nil {
					t.Fatalf("Parse panicked on %q: %v", s, r)
				}
			}()
			m, err = expr.Parse(s)
		}()
		if strings.TrimSpace(s) == "" {
			if m != nil || err != nil {
				t.Fatalf("blank input returned %v, %v", m, err)
			}
			return
		}
		if (m != nil) == (err != nil) {
			t.Fatalf("input %q: map!=nil is %v and err!=nil is %v", s, m != nil, err != nil)
		}
	})
}
