package main

// C16 — logging never panics in any lifecycle state; the Refresh/Destroy cycle is sane.
// Exhaustive operation sequences up to a length against a small state-machine model.

import (
	"context"
	"encoding/json"
	"fmt"
	"os"
	"strings"
	"time"

	log "github.com/go-spring/log"
)

var c16ops = []string{"RA", "RB", "RE", "RL1", "RL2", "RL3", "RL4", "RL5", "RL6", "D", "LT", "WH", "RT", "GH"}

func c16cfgA() map[string]string {
	return map[string]string{
		"appender.ra.type": "VRec", "appender.rah.type": "VRec",
		"logger.la.type": "Logger", "logger.la.tags": "c16tag", "logger.la.appenderRef.ref": "ra", "logger.la.level": "INFO",
		"logger.h1.type": "Logger", "logger.h1.tags": "c16unused_a", "logger.h1.appenderRef.ref": "rah",
		"logger.h2.type": "Logger", "logger.h2.tags": "c16unused_b", "logger.h2.appenderRef.ref": "rah",
		"enableCaller": "true", "bufferCap": "8KB",
	}
}
func c16cfgB() map[string]string {
	return map[string]string{
		"appender.rb.type": "VRec", "appender.rbh.type": "VRec",
		"logger.lb.type": "AsyncLogger", "logger.lb.tags": "c16tag", "logger.lb.appenderRef.ref": "rb", "logger.lb.bufferFullPolicy": "Block", "logger.lb.bufferSize": "100",
		"logger.h1.type": "AsyncLogger", "logger.h1.tags": "c16unused_a", "logger.h1.appenderRef.ref": "rbh", "logger.h1.bufferFullPolicy": "Block", "logger.h1.bufferSize": "100",
		"logger.h2.type": "Logger", "logger.h2.tags": "c16unused_b", "logger.h2.appenderRef.ref": "rbh",
		"enableCaller": "false", "bufferCap": "2KB",
	}
}

type c16exp struct {
	id    string
	sink  string // "" = don't care
	step  int
	op    string
	wantC int // 1 caller location expected, 0 none expected, -1 don't care
}

type c16run struct {
	w      *W
	tag    *log.Tag
	h1, h2 *log.LoggerWrapper
	sink   *chunkSink
	seq    int
	rtN    int
}

// exec runs one sequence from the state "none" and returns the first discrepancy ("" if none) and its class.
func (rn *c16run) exec(ops []string, fresh bool) (string, string) {
	live := "none"
	var exps []c16exp
	ctx := context.Background()
	levels := []log.Level{log.TraceLevel, log.DebugLevel, log.InfoLevel, log.WarnLevel, log.ErrorLevel, log.PanicLevel, log.FatalLevel}
	rec.take()
	rn.sink.take()
	for step, op := range ops {
		rn.seq++
		var err error
		var pv any
		var st string
		where := fmt.Sprintf("step %d (%s) in state %s", step, op, live)
		switch op {
		case "RA", "RB", "RE", "RL1", "RL2", "RL3", "RL4", "RL5", "RL6":
			var cfg map[string]string
			switch op {
			case "RA":
				cfg = c16cfgA()
			case "RB":
				cfg = c16cfgB()
			case "RE":
				cfg = map[string]string{"logger.la.type": "Logger", "logger.la.tags": "c16tag", "enableCaller": "false"} // no appender section: rejected before anything is touched
			case "RL1":
				cfg = c16cfgA()
				cfg["logger.la.type"] = "NoSuchLogger"
				cfg["enableCaller"] = "false"
			case "RL2":
				cfg = c16cfgA()
				cfg["fastCaller"] = "notabool"
			case "RL3":
				cfg = c16cfgB()
				cfg["fastCaller"] = "notabool"
			case "RL4": // an appender cannot be started (its directory does not exist): fails before any logger is started
				cfg = c16cfgB()
				cfg["appender.bad.type"], cfg["appender.bad.fileDir"], cfg["appender.bad.fileName"] = "File", "/nonexistent-c16/dir", "x.log"
			case "RL6": // a requested handle name (h2) is not configured: fails while the handles are being bound (h1, asynchronous, may already be)
				cfg = c16cfgB()
				for k := range cfg {
					if strings.HasPrefix(k, "logger.h2.") {
						delete(cfg, k)
					}
				}
			case "RL5": // a LOGGER that refuses to start (asynchronous, buffer below the minimum) after every appender was started
				cfg = c16cfgB()
				cfg["appender.extra.type"] = "VRec"
				cfg["logger.lz.type"], cfg["logger.lz.tags"], cfg["logger.lz.appenderRef.ref"], cfg["logger.lz.bufferSize"] = "AsyncLogger", "c16never", "extra", "10"
			}
			pv, st = catch(func() { err = log.Refresh(cfg) })
			if pv != nil {
				return fmt.Sprintf("%s: Refresh panicked: %v\n%s", where, pv, trunc(st, 800)), "refresh-panic"
			}
			valid := op == "RA" || op == "RB"
			switch live {
			case "none":
				if valid && err != nil {
					return fmt.Sprintf("%s: Refresh of a valid configuration failed although nothing is live: %v", where, trunc(err.Error(), 300)), "valid-refresh-rejected"
				}
				if !valid && err == nil {
					return fmt.Sprintf("%s: Refresh of an invalid configuration succeeded", where), "invalid-refresh-accepted"
				}
				switch op {
				case "RA":
					live = "A"
				case "RB":
					live = "B"
				case "RE":
				default:
					live = "limbo"
				}
			case "A", "B":
				if err == nil {
					return fmt.Sprintf("%s: a second Refresh without Destroy was accepted", where), "second-refresh-accepted"
				}
			case "limbo":
				// outcome is don't-care; totality only
				if err == nil && valid {
					live = map[string]string{"RA": "A", "RB": "B"}[op]
				}
			}
		case "D":
			done, pvd, _ := callWithWatchdog(20*time.Second, log.Destroy)
			if !done {
				if k, gr := stuckInLibrary("watchdogMarker"); k != "" {
					rn.w.Violate("C16:destroy-hangs", fmt.Sprintf("sequence %v, %s: Destroy does not return (%s inside the library)\n%s", ops, where, k, trunc(gr, 1200)), map[string]any{"ops": ops, "fresh": fresh})
					rn.w.flush()
					os.Exit(0)
				}
				return where + ": Destroy did not return within the watchdog (not parked in the library)", "inconclusive"
			}
			if pvd != nil {
				return fmt.Sprintf("%s: Destroy panicked: %v", where, pvd), "destroy-panic"
			}
			live = "none"
		case "LT":
			id := fmt.Sprintf("id-c16x%d-%d", rn.w.Spec.Shard, rn.seq)
			lv := levels[rn.seq%len(levels)]
			if pv, st = catch(func() { log.Record(ctx, lv, rn.tag, 1, log.Msg(id)) }); pv != nil {
				return fmt.Sprintf("%s: logging through a tag panicked: %v\n%s", where, pv, trunc(st, 800)), "log-panic:" + live
			}
			e := c16exp{id: id, step: step, op: op, wantC: -1}
			switch live {
			case "none":
				e.sink = "console" // every level: nothing of an earlier configuration (such as A's level) may linger
			case "A":
				e.sink, e.wantC = "ra", 1
				if lv.Code() < log.InfoLevel.Code() {
					e.sink = "nowhere" // A's logger starts at INFO
				}
			case "B":
				e.sink, e.wantC = "rb", 0
			}
			exps = append(exps, e)
		case "WH":
			id := fmt.Sprintf("id-c16w%d-%d", rn.w.Spec.Shard, rn.seq)
			h := rn.h1
			if rn.seq%2 == 0 {
				h = rn.h2
			}
			var n int
			if rn.seq%3 == 1 {
				// a zero-length write first (io.Writer callers do that): it returns (0, nil) and changes nothing for what follows
				var n0 int
				var err0 error
				if pv0, st0 := catch(func() {
					if rn.seq%2 == 0 {
						n0, err0 = h.Write(nil)
					} else {
						n0, err0 = h.Write([]byte{})
					}
				}); pv0 != nil {
					return fmt.Sprintf("%s: a zero-length write through a named handle panicked: %v\n%s", where, pv0, trunc(st0, 800)), "write-panic:" + live
				}
				if live != "limbo" && (n0 != 0 || err0 != nil) {
					return fmt.Sprintf("%s: zero-length handle Write returned (%d,%v)", where, n0, err0), "write-result"
				}
			}
			if pv, st = catch(func() { n, err = h.Write([]byte("raw " + id + "\n")) }); pv != nil {
				return fmt.Sprintf("%s: writing through a named handle panicked: %v\n%s", where, pv, trunc(st, 800)), "write-panic:" + live
			}
			if live != "limbo" && (n != len("raw "+id+"\n") || err != nil) {
				return fmt.Sprintf("%s: handle Write returned (%d,%v)", where, n, err), "write-result"
			}
			e := c16exp{id: id, step: step, op: op, wantC: -1}
			switch live {
			case "none":
				e.sink = "console"
			case "A":
				e.sink = "rah"
			case "B":
				e.sink = "rbh"
			}
			exps = append(exps, e)
		case "RT":
			rn.rtN++
			name := fmt.Sprintf("c16x%d", rn.rtN%6)
			var t1, t2 *log.Tag
			var rtDone bool
			rtDone, pv, _ = callWithWatchdog(20*time.Second, func() { t1 = log.RegisterTag(name); t2 = log.RegisterTag(name) })
			if !rtDone {
				if k, gr := stuckInLibrary("watchdogMarker"); k != "" {
					rn.w.Violate("C16:register-blocks", fmt.Sprintf("sequence %v, %s: RegisterTag(%q) does not return (%s inside the library)\n%s", ops, where, name, k, trunc(gr, 1000)), map[string]any{"ops": ops, "fresh": fresh})
					rn.w.flush()
					os.Exit(0)
				}
				return where + ": RegisterTag did not return within the watchdog (not parked in the library)", "inconclusive"
			}
			switch live {
			case "none":
				if pv != nil {
					return fmt.Sprintf("%s: RegisterTag(%q) refused although no configuration is live: %v", where, name, pv), "register-refused"
				}
				if t1 == nil || t1 != t2 {
					return fmt.Sprintf("%s: RegisterTag(%q) not idempotent", where, name), "register-not-idempotent"
				}
			case "A", "B":
				if pv == nil {
					return fmt.Sprintf("%s: RegisterTag(%q) accepted while a configuration is live", where, name), "register-accepted-while-live"
				}
			}
		case "GH":
			var g1, g2 *log.LoggerWrapper
			pv, _ = catch(func() { g1 = log.GetLogger("h1"); g2 = log.GetLogger("h2") })
			switch live {
			case "none":
				if pv != nil {
					return fmt.Sprintf("%s: GetLogger refused although no configuration is live: %v", where, pv), "handle-refused"
				}
				if g1 != rn.h1 || g2 != rn.h2 {
					return fmt.Sprintf("%s: GetLogger returned a different handle for the same name", where), "handle-not-same"
				}
			case "A", "B":
				if pv == nil {
					return fmt.Sprintf("%s: GetLogger accepted while a configuration is live", where), "handle-accepted-while-live"
				}
			}
		}
	}
	// close the history: Destroy flushes async loggers, then every expectation is compared
	if done, pvd, _ := callWithWatchdog(20*time.Second, log.Destroy); !done {
		if k, gr := stuckInLibrary("watchdogMarker"); k != "" {
			rn.w.Violate("C16:destroy-hangs", fmt.Sprintf("sequence %v followed by Destroy: Destroy does not return (%s inside the library)\n%s", ops, k, trunc(gr, 1200)), map[string]any{"ops": ops, "fresh": fresh})
			rn.w.flush()
			os.Exit(0)
		}
		return "final Destroy did not return within the watchdog", "inconclusive"
	} else if pvd != nil {
		return fmt.Sprintf("final Destroy panicked: %v", pvd), "destroy-panic"
	}
	got := map[string][]recItem{}
	for _, it := range rec.take() {
		id := idOf(it.JSON)
		got[id] = append(got[id], it)
	}
	for _, ch := range rn.sink.take() {
		id := idOf(ch)
		got[id] = append(got[id], recItem{Sink: "console", JSON: ch})
	}
	for _, e := range exps {
		g := got[e.id]
		if e.sink == "" {
			continue
		}
		if e.sink == "nowhere" {
			if len(g) != 0 {
				return fmt.Sprintf("step %d (%s): %s is below the live logger's level but was delivered to %s", e.step, e.op, e.id, g[0].Sink), "disabled-level-delivered"
			}
			continue
		}
		if len(g) != 1 || g[0].Sink != e.sink {
			var sinks []string
			for _, x := range g {
				sinks = append(sinks, x.Sink)
			}
			cls := "misrouted"
			if e.sink == "console" {
				cls = "not-on-console"
			}
			return fmt.Sprintf("step %d (%s): %s was delivered to %v, expected exactly once to %s", e.step, e.op, e.id, sinks, e.sink), cls
		}
		if e.wantC >= 0 && g[0].Kind == "event" {
			has := g[0].File != ""
			if has != (e.wantC == 1) {
				return fmt.Sprintf("step %d (%s): record carries caller location=%v but the live configuration says enableCaller=%v (a rejected Refresh must not disturb the live configuration)", e.step, e.op, has, e.wantC == 1), "live-config-disturbed"
			}
		}
	}
	return "", ""
}

func c16Worker(w *W) {
	if w.Spec.Kind == "parked" {
		c16Parked(w)
		return
	}
	if w.Spec.Kind == "builtincycles" {
		c16BuiltinCycles(w)
		return
	}
	registerMonitorPlugins()
	rn := &c16run{w: w, sink: &chunkSink{}}
	log.Stdout = rn.sink
	fresh := w.Spec.Kind == "fresh"
	report := func(ops []string, desc, cls string) {
		w.Violate("C16:"+cls, fmt.Sprintf("sequence %v: %s", ops, desc), map[string]any{"ops": ops, "fresh": fresh})
	}
	distinct := func(ops []string) {
		w.Res.DistinctCount++
	}
	if fresh {
		// the sequence is the very first thing this process does with the library: the handle
		// used by WH has never been bound, tags have never been bound
		var ops []string
		_ = json.Unmarshal([]byte(w.Arg("ops", "[]")), &ops)
		w.Journal("fresh %v", ops)
		rn.tag = log.RegisterTag("c16tag")
		rn.h1, rn.h2 = log.GetLogger("h1"), log.GetLogger("h2")
		log.RegisterTag("c16unused_a")
		log.RegisterTag("c16unused_b")
		if d, cls := rn.exec(ops, true); cls == "inconclusive" {
			w.Inconclusive(d)
		} else if d != "" {
			report(ops, d, cls+":fresh-process")
		} else {
			distinct(ops)
		}
		w.Eval(1)
		if w.Spec.Shard == 0 {
			w.Sample(map[string]any{"fresh_process_sequence": ops})
		}
		return
	}
	rn.tag = log.RegisterTag("c16tag")
	rn.h1, rn.h2 = log.GetLogger("h1"), log.GetLogger("h2")
	log.RegisterTag("c16unused_a")
	log.RegisterTag("c16unused_b")
	if w.Spec.Replay != nil {
		var rc struct {
			Ops []string `json:"ops"`
		}
		_ = json.Unmarshal(w.Spec.Replay, &rc)
		if d, cls := rn.exec(rc.Ops, false); d != "" {
			report(rc.Ops, d, cls)
		}
		w.Eval(1)
		return
	}
	L := int(w.Spec.N)
	k := len(c16ops)
	switch w.Spec.Kind {
	case "enum":
		// all sequences of length 1..L whose index ≡ shard (mod nshards)
		idx := 0
		var rec2 func(prefix []string)
		rec2 = func(prefix []string) {
			if len(prefix) > 0 {
				idx++
				if idx%w.Spec.NShards == w.Spec.Shard {
					ops := append([]string{}, prefix...)
					w.Journal("enum %v", ops)
					if d, cls := rn.exec(ops, false); cls == "inconclusive" {
						w.Inconclusive(d)
					} else if d != "" {
						report(ops, d, cls)
					} else {
						distinct(ops)
					}
					w.Eval(1)
					if idx == w.Spec.NShards*300+w.Spec.Shard {
						w.Sample(map[string]any{"sequence": ops})
					}
				}
			}
			if len(prefix) == L {
				return
			}
			for i := 0; i < k; i++ {
				rec2(append(prefix, c16ops[i]))
			}
		}
		rec2(nil)
	case "sampled":
		r := w.Rng()
		n := int(w.Spec.N)
		lo, hi := w.ArgInt("lo", 5), w.ArgInt("hi", 8)
		for i := 0; i < n; i++ {
			l := lo + r.IntN(hi-lo+1)
			ops := make([]string, l)
			for j := range ops {
				ops[j] = c16ops[r.IntN(k)]
			}
			w.Journal("sampled %v", ops)
			if d, cls := rn.exec(ops, false); d != "" {
				report(ops, d, cls)
			} else {
				w.Distinct(strings.Join(ops, " "))
			}
			w.Eval(1)
			if i == 0 {
				w.Sample(map[string]any{"sampled_sequence": ops})
			}
		}
	}
}

func init() {
	register(&Prop{
		ID: "C16", Level: "exploration", MinDistinct: 1000, Worker: c16Worker,
		Rule: "operation sequences over the alphabet {Refresh valid A (sync, level INFO, enableCaller on), Refresh valid B (async, enableCaller off), Refresh invalid-early (rejected before anything is touched), Refresh invalid-late x6 (unknown logger type; property failure after a sync / an async configuration was started and bound; an appender that cannot be started; an asynchronous logger that refuses to start; a requested handle name that is not configured), Destroy, log via tag (level cycling), write via one of two named handles, register tag, obtain handles}: " +
			"ALL sequences of length 1..5 (quick) / 1..6 (thorough) chained in-process from the state 'nothing live', sequences of length 5-8 sampled, and every sequence of length <= 2 (quick) / <= 3 (thorough) executed as the very first thing a fresh process does. " +
			"Model: live in {none, A, B, limbo}; outcomes per statement (second Refresh rejected and live routing + enableCaller undisturbed, Destroy idempotent, registration refused while live/possible otherwise, output on the console when nothing is live, A/B routing incl. async after flush); in limbo only totality is judged. " +
			"distinct_nontrivial = number of distinct sequences whose every step matched the model (enumerated sequences are distinct by construction; sampled ones are de-duplicated).",
		Assumptions: []string{"the state after a late Refresh failure and before Destroy ('limbo') has no stated routing: only absence of panics/blocks is judged there", "a blocked call is detected by the worker's watchdog + goroutine dump (process-level), not by a deadline verdict"},
		Run: func(d *D) {
			var specs []Spec
			// late-failing Refreshes leave started loggers behind (outside every property): the enumeration is cut into
			// many short-lived workers so that this cannot exhaust a worker's memory
			ne := int(d.Pick(16, 128))
			for i := 0; i < ne; i++ {
				s := d.NewSpec("enum", fmt.Sprintf("enum-%d", i), i, ne)
				s.N = d.Pick(5, 6)
				s.TimeoutS = int(d.Pick(300, 1800))
				specs = append(specs, s)
			}
			for i := 0; i < 8; i++ {
				s := d.NewSpec("sampled", fmt.Sprintf("smp-%d", i), 100+i, 16)
				s.N = d.Pick(1500, 60000)
				specs = append(specs, s)
			}
			// the same sampled sequences under the race detector: Refresh/Destroy/log calls come from one goroutine, but the
			// asynchronous logger's worker runs beside them
			for i := 0; i < int(d.Pick(2, 6)); i++ {
				s := d.NewSpec("sampled", fmt.Sprintf("smp-race-%d", i), 300+i, 16)
				s.N = d.Pick(400, 6000)
				s.Flavour = "race"
				specs = append(specs, s)
			}
			specs = append(specs, d.NewSpec("builtincycles", "builtincycles", 401, 16))
			pk := d.NewSpec("parked", "parked", 400, 16)
			pk.N = d.Pick(6, 40)
			specs = append(specs, pk)
			// fresh processes
			FL := int(d.Pick(2, 3))
			var seqs [][]string
			var gen func(p []string)
			gen = func(p []string) {
				if len(p) > 0 {
					seqs = append(seqs, append([]string{}, p...))
				}
				if len(p) == FL {
					return
				}
				for _, o := range c16ops {
					gen(append(p, o))
				}
			}
			gen(nil)
			for i, sq := range seqs {
				s := d.NewSpec("fresh", fmt.Sprintf("fresh-%d", i), i, len(seqs))
				b, _ := json.Marshal(sq)
				s.Args["ops"] = string(b)
				s.TimeoutS = 120
				specs = append(specs, s)
			}
			outs := d.RunWorkers(specs, 16)
			d.raceVerdict(outs)
			d.Extra["exhaustive"] = true
			d.Extra["exhaustive_spaces"] = []string{fmt.Sprintf("all op sequences of length 1..%d (in-process)", d.Pick(5, 6)), fmt.Sprintf("all op sequences of length 1..%d (fresh process each)", FL)}
			d.Extra["fresh_process_sequences"] = len(seqs)
		},
	})
}
