package main

// C20 — synchronous file logging is write-through: returned calls survive a crash.
// Fault enumeration over crash points: child processes are killed (SIGKILL from inside right after
// the k-th acknowledgement, os.Exit, SIGKILL from the parent, SIGKILL while another goroutine is
// inside a rotation) and the parent then reads the targets.

import (
	"bufio"
	"context"
	"fmt"
	"os"
	"os/exec"
	"path/filepath"
	"strconv"
	"strings"
	"sync"
	"sync/atomic"
	"syscall"
	"time"

	log "github.com/go-spring/log"
)

// ---- child ----

func c20child(args []string) {
	// args: kind layout G N k mode dir
	kind, layout := args[0], args[1]
	G, _ := strconv.Atoi(args[2])
	N, _ := strconv.Atoi(args[3])
	k, _ := strconv.Atoi(args[4])
	mode, dir := args[5], args[6]
	ack := os.NewFile(3, "ack")
	tag := log.RegisterTag("c20tag")
	lt := map[string]string{"text": "TextLayout", "json": "JSONLayout"}[layout]
	cfg := map[string]string{"appender.u.type": "Discard", "logger.lg.tags": "c20tag"}
	switch kind {
	case "file":
		cfg["appender.f.type"], cfg["appender.f.fileDir"], cfg["appender.f.fileName"], cfg["appender.f.layout.type"] = "File", dir, "t.log", lt
		cfg["logger.lg.type"], cfg["logger.lg.appenderRef.ref"] = "Logger", "f"
	case "rolling":
		cfg["appender.f.type"], cfg["appender.f.fileDir"], cfg["appender.f.fileName"], cfg["appender.f.layout.type"] = "RollingFile", dir, "t.log", lt
		cfg["appender.f.rotation"], cfg["appender.f.maxAge"] = "c20sec", "24"
		if mode == "crossexit" {
			cfg["appender.f.maxAge"] = []string{"24", "999999", "100000", "1"}[k%4]
		}
		cfg["logger.lg.type"], cfg["logger.lg.appenderRef.ref"] = "Logger", "f"
	case "console":
		cfg["appender.f.type"], cfg["appender.f.layout.type"] = "Console", lt
		cfg["logger.lg.type"], cfg["logger.lg.appenderRef.ref"] = "Logger", "f"
	case "loggerlayout-file":
		cfg["appender.f.type"], cfg["appender.f.fileDir"], cfg["appender.f.fileName"] = "File", dir, "t.log"
		cfg["logger.lg.type"], cfg["logger.lg.appenderRef.ref"], cfg["logger.lg.layout.type"] = "Logger", "f", lt
	case "loggerlayout-2files", "2files":
		// two (three) appenders behind one synchronous logger: a returned call means the line is in EVERY target
		cfg["appender.f.type"], cfg["appender.f.fileDir"], cfg["appender.f.fileName"] = "File", dir, "t.log"
		cfg["appender.g.type"], cfg["appender.g.fileDir"], cfg["appender.g.fileName"] = "File", dir, "u.log"
		cfg["appender.h.type"], cfg["appender.h.fileDir"], cfg["appender.h.fileName"], cfg["appender.h.rotation"], cfg["appender.h.maxAge"] = "RollingFile", dir, "v.log", "c20sec", "24"
		cfg["logger.lg.type"] = "Logger"
		cfg["logger.lg.appenderRef[0].ref"], cfg["logger.lg.appenderRef[1].ref"], cfg["logger.lg.appenderRef[2].ref"] = "f", "g", "h"
		if kind == "loggerlayout-2files" {
			cfg["logger.lg.layout.type"] = lt
		} else {
			cfg["appender.f.layout.type"], cfg["appender.g.layout.type"], cfg["appender.h.layout.type"] = lt, lt, lt
		}
	case "shared-file":
		// the File appender of the synchronous logger is ALSO referenced by an asynchronous logger serving another tag
		// (appenders are shared objects); the synchronous logger's guarantee does not depend on who else uses its appender
		cfg["appender.f.type"], cfg["appender.f.fileDir"], cfg["appender.f.fileName"], cfg["appender.f.layout.type"] = "File", dir, "t.log", lt
		cfg["logger.lg.type"], cfg["logger.lg.appenderRef.ref"] = "Logger", "f"
		cfg["logger.la.type"], cfg["logger.la.tags"], cfg["logger.la.appenderRef.ref"], cfg["logger.la.bufferFullPolicy"] = "AsyncLogger", "c20other", "f", []string{"Discard", "Block"}[k%2]
	case "filelogger":
		cfg["logger.lg.type"], cfg["logger.lg.fileDir"], cfg["logger.lg.fileName"], cfg["logger.lg.layout.type"] = "File", dir, "t.log", lt
	case "rollinglogger":
		cfg["logger.lg.type"], cfg["logger.lg.fileDir"], cfg["logger.lg.fileName"], cfg["logger.lg.rotation"], cfg["logger.lg.layout.type"] = "RollingFile", dir, "t.log", "c20sec", lt
		cfg["logger.lg.separate"] = "true"
		if mode == "crossexit" {
			cfg["logger.lg.maxAge"] = []string{"24", "999999", "100000", "1"}[k%4]
		}
	case "consolelogger":
		cfg["logger.lg.type"], cfg["logger.lg.layout.type"] = "Console", lt
	}
	log.RegisterTimeRotation("c20sec", log.TimeRotation{Interval: time.Second})
	var rotating atomic.Bool
	var inBig atomic.Bool
	var ackedInRotation atomic.Int64
	if mode == "rotkill" {
		// the process dies while one goroutine is inside rotate(): at one of three points of the
		// rotation, after lingering there for 25 ms so that the other goroutines keep logging (and
		// acknowledging) while the rotation is in progress
		point := []string{"roll.rotate.closedold", "roll.rotate.created", "roll.rotate.swapped"}[k%3]
		log.VerifPointFn = func(name string) {
			if name == "roll.rotate.cas" {
				rotating.Store(true)
			}
			if name == point {
				time.Sleep(25 * time.Millisecond)
				_ = syscall.Kill(os.Getpid(), syscall.SIGKILL)
				time.Sleep(time.Second)
			}
		}
	}
	// "*-literal" kinds: the same plugins built as struct literals and started by hand (no configuration map, no injected
	// defaults): write-through does not depend on how the objects were constructed
	var direct log.Logger
	if strings.HasSuffix(kind, "-literal") {
		mkLayout := func() log.Layout {
			if lt == "JSONLayout" {
				return &log.JSONLayout{BaseLayout: log.BaseLayout{FileLineLength: 48}}
			}
			return &log.TextLayout{BaseLayout: log.BaseLayout{FileLineLength: 48}}
		}
		all := log.LevelRange{MinLevel: log.NoneLevel, MaxLevel: log.MaxLevel}
		var err error
		switch kind {
		case "file-literal":
			fa := &log.FileAppender{AppenderBase: log.AppenderBase{Name: "f"}, Layout: mkLayout(), FileDir: dir, FileName: "t.log"}
			err = fa.Start()
			direct = &log.SyncLogger{LoggerBase: log.LoggerBase{Name: "lg", Level: all}, AppenderRefs: log.AppenderRefs{AppenderRefs: []*log.AppenderRef{{Appender: fa, Ref: "f", Level: all}}}}
		case "filelogger-literal":
			fl := &log.FileLogger{LoggerBase: log.LoggerBase{Name: "lg", Level: all}, FileAppender: log.FileAppender{AppenderBase: log.AppenderBase{Name: "lg"}, Layout: mkLayout(), FileDir: dir, FileName: "t.log"}}
			err = fl.Start()
			direct = fl
		case "rolling-literal":
			ra := &log.RollingFileAppender{AppenderBase: log.AppenderBase{Name: "f"}, Layout: mkLayout(), FileDir: dir, FileName: "t.log", Rotation: log.TimeRotation{Interval: time.Second}, MaxAge: 24}
			err = ra.Start()
			direct = &log.SyncLogger{LoggerBase: log.LoggerBase{Name: "lg", Level: all}, AppenderRefs: log.AppenderRefs{AppenderRefs: []*log.AppenderRef{{Appender: ra, Ref: "f", Level: all}}}}
		}
		if err == nil && direct != nil {
			err = direct.Start()
		}
		if err != nil || direct == nil {
			fmt.Fprintln(os.Stderr, "child start failed:", err)
			os.Exit(7)
		}
	} else if err := log.Refresh(cfg); err != nil {
		fmt.Fprintln(os.Stderr, "child refresh failed:", err)
		os.Exit(7)
	}
	emit := func(level log.Level, fields ...log.Field) {
		e := log.GetEvent()
		e.Level, e.Time, e.Tag, e.File, e.Line = level, time.Now(), "c20tag", "c20.go", 1
		e.Fields = fields
		direct.Append(e)
	}
	ctx := context.Background()
	var mu sync.Mutex
	acks := 0
	big := strings.Repeat("B", 300_000)
	var wg sync.WaitGroup
	deadline := time.Now().Add(1400 * time.Millisecond)
	timed := mode == "rotkill" || mode == "contendkill" || mode == "fifokill" || mode == "fifostall" || mode == "crossexit"
	if mode == "crossexit" {
		deadline = time.Now().Add(2300 * time.Millisecond) // two rotations (and their retention scans) happen, then the process just exits
	}
	for g := 0; g < G; g++ {
		wg.Add(1)
		go func(g int) {
			defer wg.Done()
			for i := 0; timed && time.Now().Before(deadline) || !timed && i < N; i++ {
				id := fmt.Sprintf("id-g%dx%d-%d", g, k, i)
				pad := "p"
				if g == 0 && G > 1 && i%2 == 0 {
					pad = big // a long write: other goroutines arrive while it is in progress
				}
				isBig := len(pad) > 1
				if isBig {
					inBig.Store(true)
				}
				switch {
				case direct != nil && i%3 == 0:
					emit(log.InfoLevel, log.Msg(id), log.String("p", pad), log.String("z", "END"))
				case direct != nil && i%3 == 1:
					emit(log.ErrorLevel, log.Msg(id+" z=END"))
				case direct != nil:
					emit(log.WarnLevel, log.Msg(id), log.Int("n", i), log.String("z", "END"))
				case i%3 == 0:
					log.Info(ctx, tag, log.Msg(id), log.String("p", pad), log.String("z", "END"))
				case i%3 == 1:
					log.Errorf(ctx, tag, "%s z=END", id)
				default:
					log.Warn(ctx, tag, log.Msg(id), log.Int("n", i), log.String("z", "END"))
				}
				contended := !isBig && inBig.Load() // returned while goroutine 0 is still inside a long log call
				if isBig {
					inBig.Store(false)
				}
				wasRotating := rotating.Load()
				// the call has returned: acknowledge, then (maybe) die at once
				mu.Lock()
				fmt.Fprintf(ack, "%s\n", id)
				acks++
				if mode == "selfkill" && acks == k {
					_ = syscall.Kill(os.Getpid(), syscall.SIGKILL)
					time.Sleep(time.Second)
				}
				if (mode == "contendkill" || mode == "fifokill") && contended && acks > 20+k*7 {
					_ = syscall.Kill(os.Getpid(), syscall.SIGKILL)
					time.Sleep(time.Second)
				}
				if mode == "exit" && acks == k {
					os.Exit(0)
				}
				if wasRotating {
					ackedInRotation.Add(1)
				}
				mu.Unlock()
			}
		}(g)
	}
	wg.Wait()
	os.Exit(0) // no Destroy: nothing may depend on an orderly shutdown
}

// ---- parent ----

func c20one(w *W, kind, layout string, G, N, k int, mode string, idx int) {
	dir := filepath.Join(w.Spec.Dir, fmt.Sprintf("%s.d%d", w.Spec.Name, idx))
	_ = os.RemoveAll(dir)
	_ = os.MkdirAll(dir, 0755)
	defer os.RemoveAll(dir)
	cs := map[string]any{"appender": kind, "layout": layout, "goroutines": G, "events_per_goroutine": N, "crash_after_ack": k, "crash_mode": mode}
	w.Journal("C20 %v", cs)
	pr, pw, err := os.Pipe()
	if err != nil {
		w.Inconclusive("pipe: " + err.Error())
		return
	}
	var fifoData []byte
	var fifoStalls atomic.Int64
	fifoDone := make(chan struct{})
	if mode == "fifokill" || mode == "fifostall" {
		// the target is a FIFO drained slowly by the parent: a long write stays in progress for
		// milliseconds, so other goroutines' calls overlap it; what the reader receives is the target
		fp := filepath.Join(dir, "t.log")
		if err := syscall.Mkfifo(fp, 0644); err != nil {
			w.Inconclusive("mkfifo: " + err.Error())
			return
		}
		go func() {
			defer close(fifoDone)
			f, err := os.OpenFile(fp, os.O_RDONLY, 0)
			if err != nil {
				return
			}
			defer f.Close()
			buf := make([]byte, 32<<10)
			nread, nextStall := 0, 0
			for {
				n, err := f.Read(buf)
				fifoData = append(fifoData, buf[:n]...)
				if err != nil {
					return
				}
				time.Sleep(150 * time.Microsecond)
				// a read of 8 KiB or more: a long write is streaming through the pipe at this moment. Stall there (at most three
				// times, 250 KB apart): the pipe fills up and the writer - and everybody queued behind it - waits
				if total := len(fifoData); nread < 3 && total >= nextStall && (n >= 8192 || mode == "fifostall") {
					nread++
					nextStall = total + 250_000
					if mode == "fifostall" {
						nextStall = total + 100_000 // (this mode does not kill the writer: it runs its 1.4 s and exits)
					}
					fifoStalls.Add(1)
					// the collector at the other end of the pipe stalls for a while (three times, each time in the middle of a long write): the writer simply waits
					time.Sleep(600 * time.Millisecond)
				}
			}
		}()
	} else {
		close(fifoDone)
	}
	stdoutPath := filepath.Join(dir, "stdout.txt")
	so, _ := os.Create(stdoutPath)
	cmd := exec.Command(os.Args[0], "c20child", kind, layout, fmt.Sprint(G), fmt.Sprint(N), fmt.Sprint(k), mode, dir)
	cmd.Stdout = so
	cmd.Stderr = os.Stderr
	cmd.ExtraFiles = []*os.File{pw}
	if err := cmd.Start(); err != nil {
		w.Inconclusive("child start: " + err.Error())
		return
	}
	pw.Close()
	so.Close()
	var acked []string
	sc := bufio.NewScanner(pr)
	for sc.Scan() {
		acked = append(acked, sc.Text())
		if mode == "parentkill" && len(acked) == k {
			_ = cmd.Process.Kill()
		}
	}
	_ = cmd.Wait()
	pr.Close()
	if ws, ok := cmd.ProcessState.Sys().(syscall.WaitStatus); ok && ws.Exited() && ws.ExitStatus() == 7 {
		w.Violate("C20:child-refresh-failed", "child could not Refresh its configuration", cs)
		return
	}
	// read the target after the child is dead
	var data []byte
	if mode == "fifokill" || mode == "fifostall" {
		select {
		case <-fifoDone:
		case <-time.After(20 * time.Second):
			w.Inconclusive("FIFO reader did not see EOF")
			return
		}
		data = fifoData
	} else if strings.HasPrefix(kind, "console") {
		data, _ = os.ReadFile(stdoutPath)
	} else {
		ents, _ := os.ReadDir(dir)
		for _, e := range ents {
			if strings.HasPrefix(e.Name(), "t.log") {
				b, _ := os.ReadFile(filepath.Join(dir, e.Name()))
				data = append(data, b...)
				// a file may end in a partial line (the process died inside a write that was never
				// acknowledged): terminate it so that it cannot merge with the next file's first line
				if len(b) > 0 && b[len(b)-1] != '\n' {
					data = append(data, "<partial-at-death>\n"...)
				}
			}
		}
	}
	completeIn := func(data []byte) map[string]bool {
		complete := map[string]bool{}
		for _, ln := range strings.SplitAfter(string(data), "\n") {
			if !strings.HasSuffix(ln, "\n") {
				continue // an incomplete trailing line does not count
			}
			t := strings.TrimSuffix(ln, "\n")
			if strings.HasSuffix(t, "z=END") || strings.HasSuffix(t, `"z":"END"}`) || strings.HasSuffix(t, `z=END"}`) {
				if id := idOf([]byte(t)); id != "" {
					complete[id] = true
				}
			}
		}
		return complete
	}
	complete := completeIn(data)
	if strings.HasSuffix(kind, "2files") {
		// the other targets of the same logger: a line counts only if it is complete in every one of them
		for _, prefix := range []string{"u.log", "v.log"} {
			var d2 []byte
			ents, _ := os.ReadDir(dir)
			for _, e := range ents {
				if strings.HasPrefix(e.Name(), prefix) {
					b, _ := os.ReadFile(filepath.Join(dir, e.Name()))
					d2 = append(d2, b...)
					if len(b) > 0 && b[len(b)-1] != '\n' {
						d2 = append(d2, "<partial-at-death>\n"...)
					}
				}
			}
			c2 := completeIn(d2)
			for id := range complete {
				if !c2[id] {
					delete(complete, id)
				}
			}
			data = append(append(data, ("\n==== "+prefix+" ====\n")...), d2...)
		}
		w.Count("multi_target_runs", 1)
	}
	w.Eval(1)
	w.Count("fifo_reader_stalls_during_a_long_write", fifoStalls.Load())
	w.Count("acknowledged_calls_checked", int64(len(acked)))
	lost := 0
	for _, id := range acked {
		if !complete[id] {
			lost++
			if lost == 1 {
				// keep the witness: acknowledged ids and the target as found after the crash
				wd := filepath.Join(w.Spec.Dir, fmt.Sprintf("witness-%s-%d", w.Spec.Name, idx))
				_ = os.MkdirAll(wd, 0755)
				_ = os.WriteFile(filepath.Join(wd, "acked.txt"), []byte(strings.Join(acked, "\n")+"\n"), 0644)
				_ = os.WriteFile(filepath.Join(wd, "target.bin"), data, 0644)
				_ = os.WriteFile(filepath.Join(wd, "exit.txt"), []byte(cmd.ProcessState.String()), 0644)
				w.Violate("C20:acked-line-missing:"+kind+":"+mode, fmt.Sprintf("%s was acknowledged (its log call had returned) but its complete line is not in the target after the process died (%s appender, %s layout, %d goroutines, crash mode %s after ack #%d; %d acked, %d complete lines)", id, kind, layout, G, mode, k, len(acked), len(complete)), cs)
			}
		}
	}
	if mode == "rotkill" {
		if cmd.ProcessState.Success() {
			w.Count("rotkill_runs_without_overlap", 1) // no call returned during a rotation: nothing to judge beyond the general check
		} else {
			w.Count("rotkill_runs_killed_inside_rotation", 1)
		}
	}
	if lost == 0 && len(acked) > 0 {
		w.Distinct(fmt.Sprintf("%s|%s|G%d|%s|k%d", kind, layout, G, mode, k))
		w.Sample(cs)
	}
}

func c20Worker(w *W) {
	kinds := []string{"file", "rolling", "console", "loggerlayout-file", "filelogger", "rollinglogger", "consolelogger", "loggerlayout-2files", "2files", "shared-file", "file-literal", "filelogger-literal", "rolling-literal"}
	layouts := []string{"text", "json"}
	idx := 0
	N := 40
	thorough := w.Spec.Tier == "thorough"
	var grid []int
	if thorough {
		for k := 1; k <= N; k++ {
			grid = append(grid, k)
		}
	} else {
		grid = []int{1, 2, 3, 5, 8, 13, 21, 30, 39, 40}
	}
	run := func(kind, layout string, G, n, k int, mode string) {
		idx++
		if idx%w.Spec.NShards != w.Spec.Shard {
			return
		}
		c20one(w, kind, layout, G, n, k, mode, idx)
	}
	for _, kind := range kinds {
		for _, layout := range layouts {
			for _, k := range grid {
				for _, G := range []int{1, 4} {
					if !thorough && (k+G)%2 == 0 && G == 1 {
						continue
					}
					per := N / G
					for _, mode := range []string{"selfkill", "exit", "parentkill"} {
						if !thorough && mode != "selfkill" && k%3 != 0 && k != 40 {
							continue
						}
						run(kind, layout, G, per, k, mode)
					}
				}
			}
			creps := 3
			if thorough {
				creps = 12
			}
			for r := 0; r < creps; r++ {
				run(kind, layout, 4, 0, r, "contendkill")
			}
			if kind == "file" || kind == "loggerlayout-file" || kind == "filelogger" {
				for r := 0; r < creps; r++ {
					run(kind, layout, 4, 0, r, "fifokill")
				}
				run(kind, layout, 4, 0, 0, "fifostall")
			}
			if strings.HasPrefix(kind, "rolling") {
				reps := 6
				if thorough {
					reps = 24
				}
				for r := 0; r < reps; r++ {
					run(kind, layout, 4, 0, r, "rotkill")
				}
				for r := 0; r < 4; r++ {
					run(kind, layout, 2, 0, r, "crossexit")
				}
			}
		}
	}
}

func init() {
	subcommands["c20child"] = c20child
	register(&Prop{
		ID: "C20", Level: "fault_enumeration", MinDistinct: 50, Worker: c20Worker,
		Rule: "crash points: a child process logs through a synchronous logger to {File appender, RollingFile appender, Console appender (stdout redirected to a file), logger-level layout + File appender, one logger (with and without its own layout) over two File appenders and a RollingFile appender - the line must be in all three targets -, a File appender shared with an asynchronous logger that serves another tag, File logger, RollingFile logger (separate), Console logger} x {Text, JSON} from 1 or 4 goroutines (goroutine 0 alternates 300 KB lines so that others arrive while a long write is in progress), acknowledging every returned call on a pipe; " +
			"the process is destroyed right after acknowledgement #k for k on a 10-point grid over 1..40 (thorough: every k) by SIGKILL from inside, by os.Exit(0) without Destroy, and by SIGKILL from the parent after it has read k acknowledgements; in 'contended' runs the process kills itself the moment a call returns while goroutine 0 is still inside one of its long log calls (for the three plain-file kinds also with the target replaced by a FIFO that the parent drains slowly, so that the long write stays in progress for milliseconds; in a further mode the reader stalls three times for 600 ms while the writers run and exit normally); for rolling kinds additional runs cross a real 1 s boundary and SIGKILL the process from inside rotate() at one of three guarded yield points after lingering there 25 ms while the other goroutines keep logging and acknowledging. " +
			"Rolling kinds are also run across two real boundaries with maxAge in {24, 999999, 100000, 1} hours and then simply exit (retention scans have run in between). Oracle (parent, after the child is dead): every acknowledged id has a complete '\\n'-terminated line ending in the event's last field in the target. Non-trivial/distinct = distinct (kind, layout, goroutines, crash mode, k) crash points at which all acknowledged lines were present.",
		Assumptions: []string{"'in the target' means in the file as seen by another process (page cache), not on stable storage: the statement is about user-space buffering, not fsync", "acknowledgements are written after the log call returned, under a mutex together with the crash decision"},
		Run: func(d *D) {
			var specs []Spec
			for i := 0; i < 16; i++ {
				s := d.NewSpec("crash", fmt.Sprintf("crash-%d", i), i, 16)
				s.TimeoutS = int(d.Pick(300, 1800))
				if z := []string{"", "America/Los_Angeles", "", "Pacific/Kiritimati"}[i%4]; z != "" {
					s.Env = []string{"TZ=" + z} // children inherit it: rolling kinds with a 1 h retention far from UTC
				}
				specs = append(specs, s)
			}
			d.RunWorkers(specs, 16)
		},
	})
}
