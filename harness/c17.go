package main

// C17 — the config-expression parser is total and flattens well-formed input exactly.
// Totality: hostile inputs under a resource monitor (live-heap budget, process survival, journaled inputs).
// Mapping: grammar-generated expressions against a reference flattener computed from the AST.

import (
	"encoding/base64"
	"encoding/json"
	"fmt"
	"math/rand/v2"
	"os"
	"runtime/metrics"
	"sort"
	"strings"
	"sync"
	"sync/atomic"
	"time"

	log "github.com/go-spring/log"
	"github.com/go-spring/log/expr"
)

const c17HeapBudget = 4 << 30 // live heap bytes a single Parse call on <= 64 KiB may hold

type c17mon struct {
	inCall  atomic.Bool
	peak    atomic.Uint64
	overrun atomic.Bool
}

func (m *c17mon) run(w *W, cur *atomic.Value) {
	s := []metrics.Sample{{Name: "/memory/classes/heap/objects:bytes"}}
	for {
		time.Sleep(3 * time.Millisecond)
		metrics.Read(s)
		v := s[0].Value.Uint64()
		if m.inCall.Load() {
			if v > m.peak.Load() {
				m.peak.Store(v)
			}
			if v > c17HeapBudget {
				in, _ := cur.Load().(string)
				w.Violate("C17:live-heap-budget", fmt.Sprintf("Parse holds %d MiB of live heap on a %d-byte input (budget %d MiB): memory exhaustion is how this call ends in practice", v>>20, len(in), c17HeapBudget>>20),
					map[string]any{"b64": base64.StdEncoding.EncodeToString([]byte(in)), "mode": "hostile"})
				w.CountMax("max_live_heap_mib", int64(v>>20))
				w.flush()
				os.Exit(0)
			}
		}
	}
}

// ---- AST generator for well-formed expressions ----

type c17field struct {
	path   []string // tokens of the field access: ident, ".", ident, "[", int, "]"
	kind   int      // 0 ident 1 string 2 int 3 float 4 nested
	text   string   // token text as written (string: quoted form)
	value  string   // expected value (string: unquoted)
	nested *c17node
}
type c17node struct {
	typ      string
	fields   []c17field
	trailing bool
}

var c17idents = []string{"a", "b", "c", "name", "level", "type", "Layout", "fileName", "x1", "_p", "A_b9", "appenderRef", "ref", "T", "e1", "E", "x"}

func c17ident(r *rand.Rand) string {
	if r.IntN(5) == 0 {
		n := 1 + r.IntN(8)
		b := make([]byte, n)
		for i := range b {
			if i == 0 {
				b[i] = "abcxyzABCXYZ_"[r.IntN(13)]
			} else {
				b[i] = "abcxyzABCXYZ_0189"[r.IntN(17)]
			}
		}
		return string(b)
	}
	return c17idents[r.IntN(len(c17idents))]
}

func c17int(r *rand.Rand) string {
	switch r.IntN(6) {
	case 0:
		return "0x" + []string{"0", "1F", "ff", "DEADbeef", "0a9"}[r.IntN(5)]
	case 1:
		return "-" + fmt.Sprint(r.IntN(100000))
	case 2:
		return "+" + fmt.Sprint(r.IntN(1000))
	case 3:
		return []string{"0", "00", "007", "9223372036854775807", "18446744073709551616"}[r.IntN(5)]
	}
	return fmt.Sprint(r.IntN(1 << 20))
}

func c17float(r *rand.Rand) string {
	sign := []string{"", "", "+", "-"}[r.IntN(4)]
	var body string
	switch r.IntN(4) {
	case 0:
		body = fmt.Sprintf("%d.%d", r.IntN(1000), r.IntN(1000))
	case 1:
		body = fmt.Sprintf(".%d", r.IntN(1000))
	case 2:
		body = fmt.Sprintf("%d", r.IntN(1000)) // needs exponent to be a FLOAT, still fine as INTEGER otherwise
	default:
		body = fmt.Sprintf("%d.%03d", r.IntN(10), r.IntN(1000))
	}
	if r.IntN(2) == 0 || !strings.Contains(body, ".") {
		body += []string{"e", "E"}[r.IntN(2)] + []string{"", "+", "-"}[r.IntN(3)] + fmt.Sprint(r.IntN(40))
	}
	return sign + body
}

func c17string(r *rand.Rand) (quoted, value string) {
	var q, v strings.Builder
	q.WriteByte('"')
	n := r.IntN(12)
	for i := 0; i < n; i++ {
		switch r.IntN(12) {
		case 0:
			esc := `"\/bfnrt`[r.IntN(8)]
			q.WriteByte('\\')
			q.WriteByte(esc)
			v.WriteByte(map[byte]byte{'"': '"', '\\': '\\', '/': '/', 'b': '\b', 'f': '\f', 'n': '\n', 'r': '\r', 't': '\t'}[esc])
		case 1:
			c := []rune{'\n', '\t', '\r', ' ', 0x01, 0x7f, 0xA0, 0x2028, 0x1F600, 'é', '中'}[r.IntN(11)]
			q.WriteRune(c)
			v.WriteRune(c)
		case 2:
			c := "{}=,.[]'#$%:;/"[r.IntN(14)]
			q.WriteByte(c)
			v.WriteByte(c)
		default:
			c := byte(0x20 + r.IntN(0x5f))
			if c == '"' || c == '\\' {
				c = 'q'
			}
			q.WriteByte(c)
			v.WriteByte(c)
		}
	}
	q.WriteByte('"')
	return q.String(), v.String()
}

func c17gen(r *rand.Rand, depth int) *c17node {
	n := &c17node{typ: c17ident(r)}
	nf := r.IntN(5)
	if depth == 0 && r.IntN(3) > 0 {
		nf = 1 + r.IntN(6)
	}
	for i := 0; i < nf; i++ {
		var f c17field
		f.path = []string{c17ident(r)}
		for k := r.IntN(3); k > 0; k-- {
			if r.IntN(3) == 0 {
				f.path = append(f.path, "[", c17int(r), "]")
			} else {
				f.path = append(f.path, ".", c17ident(r))
			}
		}
		f.kind = r.IntN(5)
		if f.kind == 4 && depth >= 6 {
			f.kind = r.IntN(4)
		}
		switch f.kind {
		case 0:
			f.text = c17ident(r)
			f.value = f.text
		case 1:
			f.text, f.value = c17string(r)
		case 2:
			f.text = c17int(r)
			f.value = f.text
		case 3:
			f.text = c17float(r)
			f.value = f.text
		case 4:
			f.nested = c17gen(r, depth+1)
		}
		n.fields = append(n.fields, f)
	}
	if nf > 0 && r.IntN(4) == 0 {
		// a deliberate collision ACROSS nesting levels: a sibling assigns, through a dotted path, a key that a nested block
		// also assigns (one of its fields, or its type). Whichever assignment comes later in the source wins.
		for idx, f := range n.fields {
			if f.nested == nil {
				continue
			}
			sub := []string{"type"}
			if len(f.nested.fields) > 0 && r.IntN(3) > 0 {
				sub = f.nested.fields[r.IntN(len(f.nested.fields))].path
			}
			g := c17field{path: append(append(append([]string{}, f.path...), "."), sub...)}
			g.text = c17ident(r)
			g.value = g.text
			pos := r.IntN(len(n.fields) + 1) // before or after the block
			_ = idx
			n.fields = append(n.fields[:pos], append([]c17field{g}, n.fields[pos:]...)...)
			break
		}
	}
	n.trailing = nf > 0 && r.IntN(3) == 0
	return n
}

func c17ws(r *rand.Rand, sb *strings.Builder, mode int) {
	switch mode {
	case 0: // none
	case 1:
		sb.WriteByte(' ')
	default:
		for k := r.IntN(4); k > 0; k-- {
			sb.WriteByte(" \t\r\n"[r.IntN(4)])
		}
	}
}

func c17render(r *rand.Rand, n *c17node, sb *strings.Builder, mode int) {
	c17ws(r, sb, mode)
	sb.WriteString(n.typ)
	c17ws(r, sb, mode)
	sb.WriteByte('{')
	for i, f := range n.fields {
		if i > 0 {
			c17ws(r, sb, mode)
			sb.WriteByte(',')
		}
		for _, t := range f.path {
			c17ws(r, sb, mode)
			sb.WriteString(t)
		}
		c17ws(r, sb, mode)
		sb.WriteByte('=')
		if f.nested != nil {
			c17render(r, f.nested, sb, mode)
		} else {
			c17ws(r, sb, mode)
			sb.WriteString(f.text)
		}
	}
	if n.trailing {
		c17ws(r, sb, mode)
		sb.WriteByte(',')
	}
	c17ws(r, sb, mode)
	sb.WriteByte('}')
	c17ws(r, sb, mode)
}

// c17flatten is the reference flattener (statement semantics, source order, later wins).
func c17flatten(n *c17node, key string, out map[string]string) {
	tk := "type"
	if key != "" {
		tk = key + ".type"
	}
	out[tk] = n.typ
	for _, f := range n.fields {
		fk := strings.Join(f.path, "")
		if key != "" {
			fk = key + "." + fk
		}
		if f.nested != nil {
			c17flatten(f.nested, fk, out)
		} else {
			out[fk] = f.value
		}
	}
}

func c17features(n *c17node, fs map[string]bool, depth int) {
	if depth > 0 {
		fs[fmt.Sprintf("nest%d", depth)] = true
	}
	if n.trailing {
		fs["trailcomma"] = true
	}
	if len(n.fields) == 0 {
		fs["empty"] = true
	}
	seen := map[string]bool{}
	for _, f := range n.fields {
		k := strings.Join(f.path, "")
		if seen[k] {
			fs["repeatkey"] = true
		}
		seen[k] = true
		if len(f.path) > 1 {
			if strings.Contains(k, "[") {
				fs["index"] = true
			}
			if strings.Contains(k, ".") {
				fs["dotted"] = true
			}
		}
		switch f.kind {
		case 0:
			fs["ident"] = true
		case 1:
			fs["string"] = true
			if strings.Contains(f.text, `\/`) {
				fs["esc-slash"] = true
			}
			if strings.Contains(f.text, `\`) {
				fs["escape"] = true
			}
			if strings.ContainsAny(f.text, "\n\r") {
				fs["raw-linebreak"] = true
			}
			if strings.ContainsAny(f.text, "\x01\x7f\t") {
				fs["raw-control"] = true
			}
			for _, c := range f.text {
				if c > 0x7f {
					fs["non-ascii"] = true
				}
			}
		case 2:
			fs["int"] = true
			if strings.HasPrefix(f.text, "0x") {
				fs["hex"] = true
			}
			if f.text[0] == '+' || f.text[0] == '-' {
				fs["signed"] = true
			}
		case 3:
			fs["float"] = true
		case 4:
			c17features(f.nested, fs, depth+1)
		}
	}
}

func c17featKey(fs map[string]bool) string {
	var ks []string
	for k := range fs {
		ks = append(ks, k)
	}
	sort.Strings(ks)
	return strings.Join(ks, "+")
}

// ---- hostile generators ----

var c17tokens = []string{"{", "}", "=", ",", ".", "[", "]", "\"", "\\", "a", "Type", "1", "-1", "0x1F", "1.5e3", "\"str\"", "\"a\\/b\"", " ", "\n", "\t", "0x", "+", "-", "e", "'", "\"unterminated", "\\u0041", "#", "é", "\x00", "\xff"}

func c17hostile(r *rand.Rand, quick bool) (string, string) {
	size := func() int {
		switch x := r.IntN(100); {
		case x < 50:
			return r.IntN(200)
		case x < 85:
			return r.IntN(2048)
		case x < 97:
			return 2048 + r.IntN(6144)
		default:
			return 8192 + r.IntN(65536-8192)
		}
	}
	switch mode := r.IntN(8); mode {
	case 0: // random bytes
		b := make([]byte, size())
		for i := range b {
			b[i] = byte(r.IntN(256))
		}
		return string(b), "random-bytes"
	case 1: // token soup
		n := size()
		var sb strings.Builder
		for sb.Len() < n {
			sb.WriteString(c17tokens[r.IntN(len(c17tokens))])
		}
		return sb.String(), "token-soup"
	case 2, 3, 4: // mutated valid expression
		var sb strings.Builder
		c17render(r, c17gen(r, 0), &sb, r.IntN(3))
		s := []byte(sb.String())
		for k := 1 + r.IntN(4); k > 0 && len(s) > 0; k-- {
			p := r.IntN(len(s))
			switch r.IntN(6) {
			case 0:
				s = append(s[:p], s[p+1:]...)
			case 1:
				s = append(s[:p], append([]byte{s[p]}, s[p:]...)...)
			case 2:
				q := r.IntN(len(s))
				s[p], s[q] = s[q], s[p]
			case 3:
				s = s[:p]
			case 4:
				s[p] = "{}=,.[]\"\\ "[r.IntN(10)]
			case 5:
				s = append(s[:p], append([]byte(c17tokens[r.IntN(len(c17tokens))]), s[p:]...)...)
			}
		}
		return string(s), "mutated-valid"
	case 5: // deep nesting, unclosed or over-closed (depth bounded: error recovery is quadratic in depth)
		maxd := 400
		if !quick {
			maxd = 1500
		}
		d := 1 + r.IntN(maxd)
		s := "A{" + strings.Repeat("a=A{", d)
		switch r.IntN(3) {
		case 0:
		case 1:
			s += strings.Repeat("}", d/2)
		case 2:
			s += strings.Repeat("}", d+3+r.IntN(50))
		}
		return s, "deep-unbalanced"
	case 6: // valid deep nesting / very long flat input
		if r.IntN(2) == 0 {
			d := 1 + r.IntN(3000)
			return "A{" + strings.Repeat("a=A{", d) + strings.Repeat("}", d+1), "deep-valid"
		}
		n := size() / 8
		var sb strings.Builder
		sb.WriteString("T{")
		for i := 0; i < n; i++ {
			fmt.Fprintf(&sb, "k%d=%d,", i, i)
		}
		sb.WriteString("}")
		return sb.String(), "long-flat"
	default: // repeated single offending token
		tok := []string{"=", "{", "}", "\"", "\\", ",", "[", "1", "a ", "\x00", "é", "\"\\x\"", "0x"}[r.IntN(13)]
		return strings.Repeat(tok, 1+size()/len(tok)), "repeated-token"
	}
}

func c17Worker(w *W) {
	mon := &c17mon{}
	var cur atomic.Value
	cur.Store("")
	go mon.run(w, &cur)
	r := w.Rng()

	call := func(in string) (m map[string]string, err error, pv any) {
		cur.Store(in)
		w.Journal("b64:%s", base64.StdEncoding.EncodeToString([]byte(in)))
		mon.inCall.Store(true)
		pv, _ = catch(func() { m, err = expr.Parse(in) })
		mon.inCall.Store(false)
		return
	}
	totality := func(in, class string) bool {
		m, err, pv := call(in)
		cs := map[string]any{"b64": base64.StdEncoding.EncodeToString([]byte(trunc(in, 70000))), "mode": "hostile", "class": class}
		if pv != nil {
			w.Violate("C17:panic-escapes", fmt.Sprintf("Parse panicked on a %d-byte %s input: %v", len(in), class, pv), cs)
			return false
		}
		blank := strings.TrimSpace(in) == ""
		switch {
		case blank:
			if m != nil || err != nil {
				w.Violate("C17:blank-input", fmt.Sprintf("blank input returned map=%v err=%v (documented: nil, nil)", m, err), cs)
				return false
			}
		case (m != nil) == (err != nil):
			w.Violate("C17:map-xor-error", fmt.Sprintf("Parse returned map!=nil:%v and err!=nil:%v for %q", m != nil, err != nil, trunc(in, 200)), cs)
			return false
		}
		return true
	}
	// a result the caller still holds: it must not change when Parse is called again (with another text, or a failing one)
	var heldM, heldRef map[string]string
	var heldText string
	mapping := func(n *c17node, text string) {
		ref := map[string]string{}
		c17flatten(n, "", ref)
		fs := map[string]bool{}
		c17features(n, fs, 0)
		fk := c17featKey(fs)
		m, err, pv := call(text)
		if heldM != nil {
			same := len(heldM) == len(heldRef)
			for k, v := range heldRef {
				if same && heldM[k] != v {
					same = false
				}
			}
			if !same {
				w.Violate("C17:map-mismatch:held-result-changed", fmt.Sprintf("the map returned for %q was correct when Parse returned; after a later Parse call (of %q) the caller's map reads %v, expected %v", trunc(heldText, 200), trunc(text, 200), heldM, heldRef),
					map[string]any{"b64": base64.StdEncoding.EncodeToString([]byte(heldText)), "mode": "wellformed", "then_b64": base64.StdEncoding.EncodeToString([]byte(trunc(text, 4000)))})
			} else {
				w.Count("held_results_rechecked_after_a_later_parse", 1)
			}
			heldM = nil
		}
		edited := false
		cs := map[string]any{"b64": base64.StdEncoding.EncodeToString([]byte(text)), "mode": "wellformed"}
		// smallest distinguishing feature for the key: prefer the rare ones
		cls := "other"
		for _, k := range []string{"esc-slash", "raw-linebreak", "raw-control", "non-ascii", "escape", "hex", "signed", "float", "index", "repeatkey", "trailcomma", "empty"} {
			if fs[k] {
				cls = k
				break
			}
		}
		if pv != nil {
			w.Violate("C17:panic-escapes", fmt.Sprintf("Parse panicked on well-formed %q: %v", trunc(text, 300), pv), cs)
			return
		}
		if err != nil || m == nil {
			w.Violate("C17:wellformed-rejected:"+cls, fmt.Sprintf("well-formed expression rejected: %q → err=%v", trunc(text, 300), trunc(fmt.Sprint(err), 300)), cs)
			return
		}
		if len(m) != len(ref) {
			w.Violate("C17:map-mismatch:"+cls, fmt.Sprintf("expression %q: got %d keys %v, expected %d keys %v", trunc(text, 300), len(m), m, len(ref), ref), cs)
			return
		}
		for k, v := range ref {
			if gv, ok := m[k]; !ok || gv != v {
				w.Violate("C17:map-mismatch:"+cls, fmt.Sprintf("expression %q: key %q = %q (present=%v), expected %q", trunc(text, 300), k, gv, ok, v), cs)
				return
			}
		}
		if len(text) < 2000 && (len(m)+len(text))%5 == 0 {
			// the returned map belongs to the caller: an application that edits it (takes 'type' out, adds defaults) must not
			// change what a later Parse of the same text returns
			edited = true
			delete(m, "type")
			m["added.by.caller"] = "x"
			for k := range m {
				m[k] = "overwritten"
				break
			}
			m2, err2, pv2 := call(text)
			same := pv2 == nil && err2 == nil && len(m2) == len(ref)
			for k, v := range ref {
				if same && m2[k] != v {
					same = false
				}
			}
			if !same {
				w.Violate("C17:map-mismatch:after-caller-edit", fmt.Sprintf("expression %q: after the caller edited the map returned by the first Parse, a second Parse returned %v (err=%v), expected %v", trunc(text, 300), m2, err2, ref), cs)
				return
			}
			w.Count("reparsed_after_the_caller_edited_the_first_result", 1)
		}
		if !edited && heldM == nil && len(text) < 4000 {
			heldM, heldRef, heldText = m, ref, text
		}
		w.Distinct("wf:" + fk)
	}

	if w.Spec.Replay != nil {
		var c struct {
			B64  string `json:"b64"`
			Mode string `json:"mode"`
		}
		_ = json.Unmarshal(w.Spec.Replay, &c)
		b, _ := base64.StdEncoding.DecodeString(c.B64)
		if totality(string(b), "replay") && c.Mode == "wellformed" {
			if m, err, _ := call(string(b)); err != nil {
				w.Violate("C17:wellformed-rejected:replay", fmt.Sprintf("rejected: %v", err), nil)
			} else {
				w.Note(fmt.Sprintf("replayed input parses to %v (compare with the expected map in the replay file's description)", m))
			}
		}
		w.Eval(1)
		return
	}

	if w.Spec.Kind == "inline" {
		c17Inline(w)
		return
	}
	n := int(w.Spec.N)
	switch w.Spec.Kind {
	case "hostile":
		quick := w.Spec.Tier != "thorough"
		for i := 0; i < n; i++ {
			in, class := c17hostile(r, quick)
			if len(in) > 65536 {
				in = in[:65536]
			}
			t0 := time.Now()
			ok := totality(in, class)
			el := time.Since(t0)
			w.CountMax("max_single_call_ms", el.Milliseconds())
			if ok {
				sz := "s"
				switch {
				case len(in) > 8192:
					sz = "xl"
				case len(in) > 2048:
					sz = "l"
				case len(in) > 200:
					sz = "m"
				}
				w.Distinct("hostile:" + class + ":" + sz)
			}
			if i < 1 {
				w.Sample(map[string]any{"hostile_class": class, "len": len(in), "head": fmt.Sprintf("%q", trunc(in, 60))})
			}
		}
		w.Eval(int64(n))
		w.Count("hostile_inputs", int64(n))
	case "big":
		// a few inputs at the 64 KiB bound of each hostile family
		cases := map[string]string{}
		b := make([]byte, 65536)
		for i := range b {
			b[i] = byte(r.IntN(256))
		}
		cases["random-bytes-64k"] = string(b)
		var sb strings.Builder
		for sb.Len() < 65536 {
			sb.WriteString(c17tokens[r.IntN(len(c17tokens))])
		}
		cases["token-soup-64k"] = sb.String()[:65536]
		cases["repeated-eq-64k"] = strings.Repeat("=", 65536)
		cases["repeated-quote-64k"] = strings.Repeat("\"", 65535)
		cases["repeated-badchar-64k"] = strings.Repeat("#", 65536)
		cases["deep-valid-13000"] = "A{" + strings.Repeat("a=A{", 13000) + strings.Repeat("}", 13001)
		if w.Spec.Tier == "thorough" {
			cases["deep-unclosed-16000"] = "A{" + strings.Repeat("a=A{", 16000)
		} else {
			cases["deep-unclosed-3000"] = "A{" + strings.Repeat("a=A{", 3000)
		}
		names := make([]string, 0, len(cases))
		for k := range cases {
			names = append(names, k)
		}
		sort.Strings(names)
		for i, k := range names {
			if i%w.Spec.NShards != w.Spec.Shard {
				continue
			}
			t0 := time.Now()
			if totality(cases[k], k) {
				w.Distinct("big:" + k)
			}
			w.CountMax("max_single_call_ms", time.Since(t0).Milliseconds())
			w.Eval(1)
			w.Count("hostile_inputs", 1)
		}
	case "conc":
		// state shared between Parse calls (pooled listeners/parsers, caches) would show when calls overlap or when a call
		// follows a failed one: G goroutines parse well-formed expressions and small malformed inputs in random order; every
		// well-formed result must equal its reference map
		type wf struct {
			text string
			ref  map[string]string
		}
		var wfs []wf
		var bad []string
		for i := 0; i < n; i++ {
			ast := c17gen(r, 0)
			var sb strings.Builder
			c17render(r, ast, &sb, r.IntN(3))
			ref := map[string]string{}
			c17flatten(ast, "", ref)
			wfs = append(wfs, wf{sb.String(), ref})
			if i%2 == 0 {
				if h, _ := c17hostile(r, true); len(h) < 1500 {
					bad = append(bad, h)
				}
			}
		}
		// hand-written malformed inputs that fail inside nested expressions / after partial results
		bad = append(bad, "A{b=B{c}}", "A{b=B{c=1,d}}", "A{a=1,b=B{x=2,", "L{x=M{y=N{z}}}", "A{b=B{c=}}", "A{b=B{=1}}", "A{a=1}}", "A{a.b[0]=C{d}", "= {}", "1")
		G := w.ArgInt("g", 8)
		var wg sync.WaitGroup
		var nbad atomic.Int64
		for g := 0; g < G; g++ {
			wg.Add(1)
			go func(g int) {
				defer wg.Done()
				gr := newRng(w.Spec.Seed, uint64(w.Spec.Shard)*257+uint64(g)+1717)
				for rep := 0; rep < 3*len(wfs) && nbad.Load() == 0; rep++ {
					if gr.IntN(3) == 0 && len(bad) > 0 {
						in := bad[gr.IntN(len(bad))]
						var m map[string]string
						var err error
						if pv, _ := catch(func() { m, err = expr.Parse(in) }); pv != nil {
							nbad.Add(1)
							w.Violate("C17:panic-escapes", fmt.Sprintf("Parse panicked under concurrency on %q: %v", trunc(in, 200), pv), map[string]any{"b64": base64.StdEncoding.EncodeToString([]byte(in)), "mode": "hostile"})
						} else if strings.TrimSpace(in) != "" && (m != nil) == (err != nil) {
							nbad.Add(1)
							w.Violate("C17:map-xor-error", fmt.Sprintf("concurrent Parse returned map!=nil:%v and err!=nil:%v for %q", m != nil, err != nil, trunc(in, 200)), map[string]any{"b64": base64.StdEncoding.EncodeToString([]byte(in)), "mode": "hostile"})
						}
						continue
					}
					x := wfs[gr.IntN(len(wfs))]
					var m map[string]string
					var err error
					pv, _ := catch(func() { m, err = expr.Parse(x.text) })
					same := pv == nil && err == nil && len(m) == len(x.ref)
					if same {
						for k, v := range x.ref {
							if gv, ok := m[k]; !ok || gv != v {
								same = false
								break
							}
						}
					}
					if !same && nbad.Add(1) == 1 {
						w.Violate("C17:map-mismatch:concurrent", fmt.Sprintf("%d goroutines parsing at once (well-formed and malformed inputs mixed): expression %q gave %v (err=%v panic=%v), expected %v", G, trunc(x.text, 300), m, err, pv, x.ref),
							map[string]any{"b64": base64.StdEncoding.EncodeToString([]byte(x.text)), "mode": "wellformed"})
					}
				}
			}(g)
		}
		wg.Wait()
		// hot phase: a handful of very short expressions, so that calls overlap thousands of times per millisecond (whatever
		// one call leaves behind for the next - a memo of the last input, a pooled result - is hit by a different input at once)
		hot := []wf{
			{"A{a=1}", map[string]string{"type": "A", "a": "1"}}, {"B{b=2}", map[string]string{"type": "B", "b": "2"}},
			{"C{c=x,d=\"y\"}", map[string]string{"type": "C", "c": "x", "d": "y"}}, {"D{e=E{f=1}}", map[string]string{"type": "D", "e.type": "E", "e.f": "1"}},
			{"A{a=2}", map[string]string{"type": "A", "a": "2"}}, {"A{b=1}", map[string]string{"type": "A", "b": "1"}},
			{"Z{}", map[string]string{"type": "Z"}}, {"A{a=1,}", map[string]string{"type": "A", "a": "1"}},
		}
		hotN := 12 * n
		if w.Spec.Flavour == "race" {
			hotN = 4 * n
		}
		for g := 0; g < G && nbad.Load() == 0; g++ {
			wg.Add(1)
			go func(g int) {
				defer wg.Done()
				for rep := 0; rep < hotN && nbad.Load() == 0; rep++ {
					x := hot[(rep*7+g*3)%len(hot)]
					m, err := expr.Parse(x.text)
					same := err == nil && len(m) == len(x.ref)
					if same {
						for k, v := range x.ref {
							if m[k] != v {
								same = false
							}
						}
					}
					if !same && nbad.Add(1) == 1 {
						w.Violate("C17:map-mismatch:concurrent", fmt.Sprintf("%d goroutines parsing 8 short expressions at once: %q gave %v (err=%v), expected %v", G, x.text, m, err, x.ref),
							map[string]any{"b64": base64.StdEncoding.EncodeToString([]byte(x.text)), "mode": "wellformed"})
					}
				}
			}(g)
		}
		wg.Wait()
		w.Count("concurrent_parses_of_short_expressions", int64(hotN*G))
		w.Eval(int64(3 * len(wfs) * G))
		w.Count("concurrent_parses", int64(3*len(wfs)*G))
		if nbad.Load() == 0 {
			w.Distinct(fmt.Sprintf("concurrent|G=%d|%s", G, w.Spec.Flavour))
		}
		w.Sample(map[string]any{"kind": "concurrent", "goroutines": G, "wellformed": len(wfs), "malformed": len(bad)})
	case "wellformed":
		for i := 0; i < n; i++ {
			if i%4 == 1 {
				// a failed parse right before a well-formed one (state carried over from a failed call)
				if h, cls := c17hostile(r, true); len(h) < 1500 && i%8 != 1 {
					totality(h, cls)
				} else {
					totality([]string{"A{b=B{c}}", "A{a=1,b=B{x=2,", "L{x=M{y=N{z}}}", "A{a.b[0]=C{d}", "\"Console\"{}", "1{}", "}", "=", "1.5{a=1}", "A{b=\"T\"{}}"}[(i/4)%10], "nested-incomplete")
				}
			}
			ast := c17gen(r, 0)
			var sb strings.Builder
			c17render(r, ast, &sb, r.IntN(3))
			text := sb.String()
			if i < 1 {
				ref := map[string]string{}
				c17flatten(ast, "", ref)
				w.Sample(map[string]any{"wellformed_expression": trunc(text, 300), "expected_map_size": len(ref)})
			}
			if i%16 == 7 {
				// the library's own user of the parser saw this very text first: Refresh expands 'name!' entries through Parse
				// (the configuration below is rejected right afterwards - it has no appender section - so nothing is started).
				// What Parse returns for the same text afterwards is still the plain flattening.
				if pv, _ := catch(func() { _ = log.Refresh(map[string]string{"logger.x!": text}); log.Destroy() }); pv != nil {
					w.Violate("C17:panic-escapes", fmt.Sprintf("Refresh with an inline expression panicked: %v", pv), map[string]any{"b64": base64.StdEncoding.EncodeToString([]byte(text)), "mode": "wellformed"})
				}
				w.Count("expressions_first_seen_through_refresh", 1)
			}
			mapping(ast, text)
		}
		w.Eval(int64(n))
		w.Count("wellformed_expressions", int64(n))
	}
	w.CountMax("max_live_heap_mib", int64(mon.peak.Load()>>20))
}

func init() {
	register(&Prop{
		ID: "C17", Level: "exploration", MinDistinct: 30,
		Rule: "totality: seeded hostile inputs of 0..64 KiB in 8 families (random bytes, token soup over the grammar's alphabet, 1-4 token-level mutations of valid expressions, deep unbalanced nesting, deep valid nesting, long flat inputs, one offending token repeated) plus fixed inputs at the 64 KiB bound; " +
			"each input is journaled before the call, the call runs under a live-heap monitor (budget 4 GiB) in a child process; verdict = returns, no panic, exactly one of (map, error) non-nil (blank: both nil). " +
			"mapping: expressions generated from the grammar (nesting <= 6, dotted/indexed paths, idents, strings over every admitted character and all 8 escapes, signed/hex integers, floats with exponents, repeated keys, optional trailing comma, three spacing modes incl. none) compared with a reference map computed from the AST. " +
			"Every fourth well-formed case is preceded by a failed parse in the same process, every sixteenth is first seen by Refresh as an inline 'name!' expression, and a concurrent kind has 4-16 goroutines (one worker under the race detector) parse well-formed and small malformed inputs in random order, every well-formed result compared with its reference map. " +
			"distinct_nontrivial = distinct (hostile family, size class) pairs + distinct feature combinations of well-formed expressions whose map matched.",
		Assumptions: []string{
			"termination is judged by 'the call returned' inside a generously timed child (a watchdog expiry is inconclusive, never a violation); memory exhaustion is judged by a 4 GiB live-heap budget sampled every 3 ms",
			"invalid UTF-8 inside string literals is not generated (ANTLR's rune conversion is outside the statement)",
			"deep-nesting inputs are bounded in depth in the quick tier because ANTLR's error recovery is quadratic in nesting depth (measured: 16 000 unclosed levels = 89 s)",
		},
		Worker: c17Worker,
		Run: func(d *D) {
			var specs []Spec
			for i := 0; i < 12; i++ {
				s := d.NewSpec("hostile", fmt.Sprintf("hostile-%d", i), i, 12)
				s.N = d.Pick(1700, 20000)
				s.TimeoutS = int(d.Pick(400, 7200))
				specs = append(specs, s)
			}
			for i := 0; i < 4; i++ {
				s := d.NewSpec("big", fmt.Sprintf("big-%d", i), i, 4)
				s.TimeoutS = int(d.Pick(400, 3600))
				specs = append(specs, s)
			}
			for i := 0; i < 8; i++ {
				s := d.NewSpec("wellformed", fmt.Sprintf("wf-%d", i), i, 8)
				s.N = d.Pick(2500, 120000)
				specs = append(specs, s)
			}
			{
				in := d.NewSpec("inline", "inline", 60, 8)
				in.N = d.Pick(240, 3000)
				specs = append(specs, in)
			}
			for i := 0; i < 3; i++ {
				s := d.NewSpec("conc", fmt.Sprintf("conc-%d", i), 40+i, 8)
				s.N = d.Pick(600, 8000)
				s.Args["g"] = fmt.Sprint([]int{8, 16, 4}[i])
				if i == 2 {
					s.Flavour = "race"
					s.N = d.Pick(150, 2000)
				}
				specs = append(specs, s)
			}
			outs := d.RunWorkers(specs, 16)
			d.raceVerdict(outs)
			if !d.Quick() {
				d.runFuzz("FuzzC17Parse", 1_500_000, "C17:fuzz")
			}
		},
	})
}
