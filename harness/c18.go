package main

// C18 — tag names: exactly the documented language is accepted; idempotent registry.
// Oracle: the regular language of the statement + set bookkeeping of what was accepted.

import (
	"encoding/json"
	"fmt"
	"regexp"
	"sort"
	"strings"

	log "github.com/go-spring/log"
)

var c18re = regexp.MustCompile(`^_?[a-z0-9]+(_[a-z0-9]+){0,3}$`)

func c18valid(s string) bool { return len(s) >= 3 && len(s) <= 36 && c18re.MatchString(s) }

func c18reason(s string) string {
	switch {
	case len(s) < 3:
		return "len<3"
	case len(s) > 36:
		return "len>36"
	}
	for i := 0; i < len(s); i++ {
		c := s[i]
		if !(c >= 'a' && c <= 'z') && !(c >= '0' && c <= '9') && c != '_' {
			return "charset"
		}
	}
	t := strings.TrimPrefix(s, "_")
	ss := strings.Split(t, "_")
	for _, x := range ss {
		if x == "" {
			return "empty-segment"
		}
	}
	if len(ss) > 4 {
		return "segments>4"
	}
	return "valid"
}

type c18st struct {
	w        *W
	accepted map[string]*log.Tag
	nAcc     int64
	nRej     int64
	live     bool
}

// try registers s (twice when accepted) and compares with the oracle.
func (st *c18st) try(s string, how string, reg func() *log.Tag) {
	w := st.w
	var tag *log.Tag
	pv, _ := catch(func() { tag = reg() })
	want := c18valid(s)
	cs := map[string]any{"name": s, "hex": fmt.Sprintf("%x", s), "via": how}
	switch {
	case pv != nil && want:
		w.Violate("C18:rejects-valid:"+how, fmt.Sprintf("%s(%q) panicked (%v) but the name is in the documented language", how, s, pv), cs)
		return
	case pv == nil && !want:
		w.Violate("C18:accepts-invalid:"+c18reason(s)+":"+how, fmt.Sprintf("%s(%q) was accepted but the name is not in the documented language (%s)", how, s, c18reason(s)), cs)
		return
	}
	if pv != nil {
		st.nRej++
		return
	}
	st.nAcc++
	if tag == nil {
		w.Violate("C18:nil-tag", fmt.Sprintf("%s(%q) returned nil", how, s), cs)
		return
	}
	if prev, ok := st.accepted[s]; ok && prev != tag {
		w.Violate("C18:not-idempotent", fmt.Sprintf("%s(%q) returned a different tag than the first registration", how, s), cs)
	}
	st.accepted[s] = tag
	// second registration through the plain entry point must give the same tag
	var tag2 *log.Tag
	if pv2, _ := catch(func() { tag2 = log.RegisterTag(s) }); pv2 != nil || tag2 != tag {
		w.Violate("C18:not-idempotent", fmt.Sprintf("second RegisterTag(%q) gave panic=%v same=%v", s, pv2, tag2 == tag), cs)
	}
}

func (st *c18st) checkAll(base []string, when string) {
	w := st.w
	var got []string
	if pv, _ := catch(func() { got = log.GetAllTags() }); pv != nil {
		w.Violate("C18:getalltags-panic", fmt.Sprintf("GetAllTags panicked: %v", pv), nil)
		return
	}
	exp := make([]string, 0, len(st.accepted)+len(base))
	seen := map[string]bool{}
	for _, b := range base {
		if !seen[b] {
			seen[b] = true
			exp = append(exp, b)
		}
	}
	for k := range st.accepted {
		if !seen[k] {
			seen[k] = true
			exp = append(exp, k)
		}
	}
	sort.Strings(exp)
	// tags handed out earlier must still be THE tags of their names (the registry has grown since)
	n := 0
	for name, first := range st.accepted {
		if st.live { // registration is refused while a configuration is live (C16): no re-registration then
			break
		}
		if n++; n > 3000 {
			break
		}
		var again *log.Tag
		if pv, _ := catch(func() { again = log.RegisterTag(name) }); pv != nil || again != first {
			w.Violate("C18:not-idempotent", fmt.Sprintf("%s: RegisterTag(%q) no longer returns the tag it returned when the name was first registered (registry holds %d names)", when, name, len(got)), map[string]any{"name": name})
			break
		}
	}
	w.Count("getalltags_comparisons", 1)
	w.CountMax("max_registry_size_compared", int64(len(exp)))
	if len(got) != len(exp) {
		// find a witness
		gs := map[string]bool{}
		for _, g := range got {
			gs[g] = true
		}
		wit := ""
		for _, e := range exp {
			if !gs[e] {
				wit = "missing " + fmt.Sprintf("%q", e)
				break
			}
		}
		if wit == "" {
			for _, g := range got {
				if !seen[g] {
					wit = "unexpected " + fmt.Sprintf("%q", g)
					break
				}
			}
		}
		w.Violate("C18:getalltags-mismatch", fmt.Sprintf("%s: GetAllTags has %d names, expected %d (%s)", when, len(got), len(exp), wit), map[string]any{"witness": wit})
		return
	}
	if !sort.StringsAreSorted(got) {
		w.Violate("C18:getalltags-unsorted", when+": GetAllTags is not sorted", nil)
	}
	for i := range got {
		if got[i] != exp[i] {
			w.Violate("C18:getalltags-mismatch", fmt.Sprintf("%s: GetAllTags[%d]=%q expected %q", when, i, got[i], exp[i]), map[string]any{"witness": got[i]})
			return
		}
	}
	// the caller owns the returned list: scribbling over it must not influence what the next call reports
	for i := range got {
		got[i] = ""
	}
	if len(got) > 0 {
		if again := log.GetAllTags(); len(again) != len(exp) || again[0] != exp[0] || again[len(again)-1] != exp[len(exp)-1] {
			w.Violate("C18:getalltags-mismatch", when+": GetAllTags changed after the caller modified the previously returned list", map[string]any{"witness": "returned slice is shared"})
		}
	}
}

var c18alpha = []byte{'a', 'z', '0', '9', '_', 'A', '-', ' ', '.', 0x80}

func c18Worker(w *W) {
	st := &c18st{w: w, accepted: map[string]*log.Tag{}}
	base := log.GetAllTags()
	for _, b := range base {
		if !c18valid(b) {
			w.Violate("C18:preregistered-invalid", fmt.Sprintf("pre-registered tag %q is not in the documented language", b), nil)
		}
	}
	plain := func(s string) { st.try(s, "RegisterTag", func() *log.Tag { return log.RegisterTag(s) }) }
	if w.Spec.Replay != nil {
		var c struct {
			Hex string `json:"hex"`
		}
		_ = json.Unmarshal(w.Spec.Replay, &c)
		var s []byte
		fmt.Sscanf(c.Hex, "%x", &s)
		plain(string(s))
		st.checkAll(base, "replay")
		w.Eval(1)
		return
	}
	switch w.Spec.Kind {
	case "lifecycle":
		// the registry across Refresh/Destroy cycles: names registered before the first Refresh, between cycles and after a
		// failed Refresh must all be listed (exactly once, sorted), whatever Refresh/Destroy do with the registered tags
		registerMonitorPlugins()
		r := w.Rng()
		segs := []string{"ab", "cd", "svc", "x1", "req", "in", "z9", "q"}
		gen := func() string {
			k := 1 + r.IntN(4)
			var parts []string
			for i := 0; i < k; i++ {
				parts = append(parts, segs[r.IntN(len(segs))]+fmt.Sprint(r.IntN(40)))
			}
			t := strings.Join(parts, "_")
			if r.IntN(2) == 0 {
				t = "_" + t
			}
			switch r.IntN(12) {
			case 0:
				t += "_" // invalid
			case 1:
				t = strings.ToUpper(t[:1]) + t[1:]
			}
			return t
		}
		for round := 0; round < int(w.Spec.N); round++ {
			for i := 1 + r.IntN(6); i > 0; i-- {
				plain(gen())
			}
			st.checkAll(base, fmt.Sprintf("round %d before Refresh", round))
			cfg := map[string]string{"appender.d.type": "Discard", "logger.root.type": "Logger", "logger.root.appenderRef.ref": "d"}
			switch round % 6 {
			case 1:
				cfg["logger.l1.type"], cfg["logger.l1.tags"], cfg["logger.l1.appenderRef.ref"] = "Logger", "_ab1_*,svc2", "d"
			case 2:
				cfg["logger.l1.type"] = "NoSuchLoggerType" // a Refresh that fails early
			case 3:
				cfg["logger.l1.type"], cfg["logger.l1.tags"], cfg["logger.l1.appenderRef.ref"] = "AsyncLogger", "cd3_*", "d"
			case 4:
				// a Refresh that fails LATE (after the tags were bound to their loggers): after the Destroy that follows,
				// registration works as ever
				cfg["logger.l1.type"], cfg["logger.l1.tags"], cfg["logger.l1.appenderRef.ref"] = "Logger", "_ab1_*,svc2", "d"
				cfg["bufferCap"] = "plenty"
			case 5:
				cfg["logger.l1.type"], cfg["logger.l1.tags"], cfg["logger.l1.appenderRef.ref"] = "AsyncLogger", "cd3_*", "d"
				cfg["enableCaller"] = "perhaps"
			}
			pv, _ := catch(func() { _ = log.Refresh(cfg) })
			if pv != nil {
				w.Violate("C18:refresh-panic", fmt.Sprintf("Refresh panicked: %v", pv), cfg)
			}
			st.live = true
			st.checkAll(base, fmt.Sprintf("round %d after Refresh", round))
			catch(log.Destroy)
			st.live = false
			st.checkAll(base, fmt.Sprintf("round %d after Destroy", round))
			w.Count("registry_checks_across_lifecycle", 3)
		}
		w.Sample(map[string]any{"kind": "lifecycle", "rounds": w.Spec.N, "accepted": st.nAcc, "rejected": st.nRej})
	case "enum":
		L := int(w.Spec.N)
		n := 0
		var rec func(p []byte)
		rec = func(p []byte) {
			if len(p) > 0 {
				plain(string(p))
				n++
			}
			if len(p) == L {
				return
			}
			for i, c := range c18alpha {
				if len(p) == 0 && i%w.Spec.NShards != w.Spec.Shard {
					continue
				}
				rec(append(p, c))
			}
		}
		rec(make([]byte, 0, L))
		w.Sample(map[string]any{"space": fmt.Sprintf("all strings of length 1..%d over %q starting with symbol #%d", L, c18alpha, w.Spec.Shard), "accepted": st.nAcc, "rejected": st.nRej})
	case "comp":
		// all segment-length compositions: total length L, k segments, ± leading underscore,
		// ± trailing underscore, ± one doubled underscore
		lo, hi := w.ArgInt("lo", 2), w.ArgInt("hi", 38)
		letters := "abcdefghijklmnopqrstuvwxyz0123456789"
		for L := lo; L <= hi; L++ {
			if L%w.Spec.NShards != w.Spec.Shard {
				continue
			}
			for k := 1; k <= 5; k++ {
				for lead := 0; lead <= 1; lead++ {
					for variant := 0; variant < 3; variant++ { // 0 plain, 1 trailing '_', 2 doubled '_' after first segment
						extra := 0
						if variant > 0 {
							extra = 1
						}
						body := L - lead - (k - 1) - extra
						if body < k {
							continue
						}
						if variant == 2 && k < 2 {
							continue
						}
						parts := make([]int, k)
						var gen func(i, rest int)
						gen = func(i, rest int) {
							if i == k-1 {
								parts[i] = rest
								var sb strings.Builder
								if lead == 1 {
									sb.WriteByte('_')
								}
								li := 0
								for pi, pl := range parts {
									if pi > 0 {
										sb.WriteByte('_')
										if variant == 2 && pi == 1 {
											sb.WriteByte('_')
										}
									}
									for x := 0; x < pl; x++ {
										sb.WriteByte(letters[(li+pi*7+L)%len(letters)])
										li++
									}
								}
								if variant == 1 {
									sb.WriteByte('_')
								}
								plain(sb.String())
								return
							}
							for v := 1; v <= rest-(k-1-i); v++ {
								parts[i] = v
								gen(i+1, rest-v)
							}
						}
						gen(0, body)
					}
				}
			}
		}
		w.Sample(map[string]any{"space": fmt.Sprintf("all segment-length compositions, total length %d..%d (≡ %d mod %d), 1-5 segments, ±leading/trailing/doubled underscore", lo, hi, w.Spec.Shard, w.Spec.NShards), "accepted": st.nAcc, "rejected": st.nRej})
	case "random":
		r := w.Rng()
		n := int(w.Spec.N)
		for i := 0; i < n; i++ {
			var s []byte
			switch r.IntN(5) {
			case 0: // raw bytes
				s = make([]byte, r.IntN(45))
				for k := range s {
					s[k] = byte(r.IntN(256))
				}
			case 1: // near-valid: valid charset with rare foreign byte
				s = make([]byte, 1+r.IntN(42))
				for k := range s {
					switch x := r.IntN(30); {
					case x < 5:
						s[k] = '_'
					case x == 5:
						s[k] = byte(r.IntN(256))
					default:
						s[k] = "abcxyz0189"[r.IntN(10)]
					}
				}
			case 2: // valid UTF-8 letters and digits outside ASCII: not in the documented language
				uni := []string{"é", "ß", "ñ", "λ", "я", "ā", "٣", "５", "ǆ", "ｚ"}
				var sb strings.Builder
				if r.IntN(2) == 0 {
					sb.WriteByte('_')
				}
				for j := 0; j <= r.IntN(3); j++ {
					if j > 0 {
						sb.WriteByte('_')
					}
					for x := 0; x <= r.IntN(5); x++ {
						if r.IntN(3) == 0 {
							sb.WriteString(uni[r.IntN(len(uni))])
						} else {
							sb.WriteByte("abcxyz019"[r.IntN(9)])
						}
					}
				}
				s = []byte(sb.String())
			default: // structurally generated then mutated
				k := 1 + r.IntN(5)
				var sb strings.Builder
				if r.IntN(2) == 0 {
					sb.WriteByte('_')
				}
				for j := 0; j < k; j++ {
					if j > 0 {
						sb.WriteByte('_')
					}
					for x := 0; x <= r.IntN(10); x++ {
						sb.WriteByte("abcdefxyz0123789"[r.IntN(16)])
					}
				}
				s = []byte(sb.String())
				if r.IntN(3) == 0 && len(s) > 0 {
					p := r.IntN(len(s))
					switch r.IntN(4) {
					case 0:
						s[p] = "AZ- .\x80\x00/"[r.IntN(8)]
					case 1:
						s = append(s[:p], append([]byte{'_'}, s[p:]...)...)
					case 2:
						s = append(s, '_')
					case 3:
						s = s[:p]
					}
				}
			}
			plain(string(s))
			if i < 2 {
				w.Sample(map[string]any{"random_name": fmt.Sprintf("%q", s), "valid": c18valid(string(s))})
			}
		}
	case "helpers":
		r := w.Rng()
		n := int(w.Spec.N)
		seg := func(max int) string {
			l := 1 + r.IntN(max)
			b := make([]byte, l)
			for i := range b {
				b[i] = "abcdefghijklmnopqrstuvwxyz0123456789"[r.IntN(36)]
			}
			return string(b)
		}
		for i := 0; i < n; i++ {
			var sub, act string
			mode := r.IntN(10)
			switch {
			case mode < 6: // valid parts
				sub = seg(14)
				if r.IntN(2) == 0 {
					act = seg(14)
				}
			case mode == 6: // boundary lengths
				sub = strings.Repeat("s", 1+r.IntN(32))
				act = strings.Repeat("a", r.IntN(32))
			case mode == 7: // parts with inner underscore (extra segments)
				sub = seg(5) + "_" + seg(5)
				act = seg(5)
				if r.IntN(2) == 0 {
					act += "_" + seg(3)
				}
			case mode == 8: // foreign characters
				sub = seg(5) + string("A- .*"[r.IntN(5)])
				act = seg(4)
			default:
				sub = ""
				act = seg(4)
			}
			which := r.IntN(3)
			main := []string{"app", "biz", "rpc"}[which]
			composed := "_" + main + "_" + sub
			if act != "" {
				composed += "_" + act
			}
			how := []string{"RegisterAppTag", "RegisterBizTag", "RegisterRPCTag"}[which]
			st.try(composed, how, func() *log.Tag {
				switch which {
				case 0:
					return log.RegisterAppTag(sub, act)
				case 1:
					return log.RegisterBizTag(sub, act)
				}
				return log.RegisterRPCTag(sub, act)
			})
			if pv, _ := catch(func() {
				if got := log.BuildTag(main, sub, act); got != composed && sub != "" {
					w.Violate("C18:buildtag", fmt.Sprintf("BuildTag(%q,%q,%q)=%q expected %q", main, sub, act, got, composed), nil)
				}
			}); pv != nil && sub != "" {
				w.Violate("C18:buildtag-panic", fmt.Sprintf("BuildTag(%q,%q,%q) panicked: %v", main, sub, act, pv), nil)
			}
			if i < 2 {
				w.Sample(map[string]any{"helper": how, "subType": sub, "action": act, "valid": c18valid(composed)})
			}
			if i%2000 == 0 {
				st.checkAll(base, "helpers")
			}
		}
	}
	st.checkAll(base, "end of "+w.Spec.Kind)
	w.Eval(st.nAcc + st.nRej)
	w.Count("names_accepted", st.nAcc)
	w.Count("names_rejected_by_panic", st.nRej)
	// distinct non-trivial = distinct names that the library accepted (each one exercised accept,
	// idempotence and registry bookkeeping) – names within one worker are distinct map keys
	w.Res.DistinctCount = int64(len(st.accepted))
}

func init() {
	register(&Prop{
		ID: "C18", Level: "exploration", MinDistinct: 100,
		Rule: "names: (a) every string of length 1..5 (quick) / 1..7 (thorough) over the 10-symbol alphabet {a z 0 9 _ A - space . 0x80}, exhaustively; (b) every composition of segment lengths for 1-5 segments, " +
			"± leading underscore, ± trailing underscore, ± doubled underscore at total lengths 2..8 and 33..38 (quick) / 2..38 (thorough); (c) seeded random names (raw bytes, near-valid, mutated valid); " +
			"(d) the app/biz/rpc helpers with valid and invalid parts; (e) registrations interleaved with successful and failing Refresh/Destroy cycles (the list is compared before Refresh, while live and after Destroy). Each name is registered (twice when accepted) in a fresh worker process; oracle = ^_?[a-z0-9]+(_[a-z0-9]+){0,3}$ with 3<=len<=36, and GetAllTags() must equal " +
			"the pre-registered names plus exactly the accepted ones. distinct_nontrivial = distinct accepted names per worker summed over workers (workers enumerate disjoint spaces except (c),(d), which may overlap others: counted per worker).",
		Assumptions: []string{"tags pre-registered by the library's own init (TagAppDef, TagBizDef) are read once at worker start and treated as registered names"},
		Worker:      c18Worker,
		Run: func(d *D) {
			var specs []Spec
			L := d.Pick(5, 7)
			for i := 0; i < 10; i++ {
				s := d.NewSpec("enum", fmt.Sprintf("enum-%d", i), i, 10)
				s.N = L
				specs = append(specs, s)
			}
			if d.Quick() {
				for i := 0; i < 4; i++ {
					s := d.NewSpec("comp", fmt.Sprintf("compL-%d", i), i, 4)
					s.Args["lo"], s.Args["hi"] = "2", "8"
					specs = append(specs, s)
				}
				for i := 0; i < 6; i++ {
					s := d.NewSpec("comp", fmt.Sprintf("compH-%d", i), i, 6)
					s.Args["lo"], s.Args["hi"] = "33", "38"
					specs = append(specs, s)
				}
			} else {
				for i := 0; i < 16; i++ {
					s := d.NewSpec("comp", fmt.Sprintf("comp-%d", i), i, 16)
					specs = append(specs, s)
				}
			}
			for i := 0; i < 4; i++ {
				s := d.NewSpec("random", fmt.Sprintf("rnd-%d", i), i, 4)
				s.N = d.Pick(25000, 500000)
				specs = append(specs, s)
			}
			for i := 0; i < 2; i++ {
				s := d.NewSpec("helpers", fmt.Sprintf("help-%d", i), i, 2)
				s.N = d.Pick(10000, 100000)
				specs = append(specs, s)
			}
			for i := 0; i < 2; i++ {
				s := d.NewSpec("lifecycle", fmt.Sprintf("life-%d", i), i, 2)
				s.N = d.Pick(300, 5000)
				specs = append(specs, s)
			}
			d.RunWorkers(specs, 16)
			d.Extra["exhaustive"] = true
			d.Extra["exhaustive_spaces"] = []string{fmt.Sprintf("all strings of length 1..%d over the 10-symbol alphabet", L), "segment-length compositions at the stated total lengths"}
		},
	})
}
