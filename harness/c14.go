package main

// C14 — retention cleanup deletes only this appender's own expired files.

import (
	"bytes"
	"encoding/json"
	"fmt"
	"math"
	"math/rand/v2"
	"os"
	"path/filepath"
	"regexp"
	"sort"
	"strings"
	"syscall"
	"time"

	log "github.com/go-spring/log"
)

type c14ent struct {
	Name   string `json:"name"`
	Dir    bool   `json:"dir"`
	AgeMin int    `json:"age_min"` // age of the modification time in minutes at T0
	Class  string `json:"class"`
}

type c14case struct {
	FileName string   `json:"file_name"`
	MaxAge   int32    `json:"max_age_h"`
	Sibling  bool     `json:"sibling"` // also run the cleanup of a '<name>.wf' sibling appender
	Ents     []c14ent `json:"entries"`
}

func c14ts(r *rand.Rand) string {
	return fmt.Sprintf("20%02d%02d%02d%02d%02d%02d", 10+r.IntN(16), 1+r.IntN(12), 1+r.IntN(28), r.IntN(24), r.IntN(60), r.IntN(60))
}

func c14gen(r *rand.Rand) *c14case {
	c := &c14case{FileName: []string{"app.log", "svc", "a.b.c", "x-1_y", "app.log", "gw-2006.n1", "Jan_02.15", "app[1].log", "a*b", "q?.log"}[r.IntN(10)]}
	switch r.IntN(5) {
	case 0:
		c.MaxAge = int32(1 + r.IntN(3))
	case 1:
		c.MaxAge = int32(590 + r.IntN(131)) // up to 720
	case 2:
		c.MaxAge = []int32{24, 168, 720, 596, 597, 600}[r.IntN(6)]
	default:
		c.MaxAge = int32(1 + r.IntN(720))
	}
	if r.IntN(12) == 0 {
		// "keep practically for ever": any positive number of hours the attribute's type (int32) can hold
		c.MaxAge = []int32{876000, 999999, 2562047, 2562048, 5000000, 1 << 30, math.MaxInt32}[r.IntN(7)]
	}
	c.Sibling = r.IntN(3) == 0
	maxMin := int(c.MaxAge) * 60
	age := func() int {
		if c.MaxAge > 800000 {
			// nothing can be that old: every file is younger than the maximum age (minutes: now, 10 h, 70 days, 9.5 years)
			return []int{0, 600, 100000, 5000000}[r.IntN(4)]
		}
		switch r.IntN(9) {
		case 8:
			// modification times in the future (a clock that was wrong once, files restored from elsewhere): one hour, a year,
			// 250 and 400 years ahead - all younger than any maximum age
			return -[]int{60, 60 * 24 * 365, 60 * 24 * 365 * 250, 60 * 24 * 365 * 400}[r.IntN(4)]
		case 0:
			return 0
		case 1:
			return maxMin - 11
		case 2:
			return maxMin + 11
		case 3:
			return maxMin - 60
		case 4:
			return maxMin + 60
		case 5:
			return maxMin + 60*24*(1+r.IntN(60))
		case 6:
			return r.IntN(maxMin - 10)
		default:
			return maxMin + 11 + r.IntN(100000)
		}
	}
	n := c.FileName
	add := func(name, class string, dir bool) {
		for _, e := range c.Ents {
			if e.Name == name {
				return
			}
		}
		c.Ents = append(c.Ents, c14ent{Name: name, Dir: dir, AgeMin: age(), Class: class})
	}
	for k := 3 + r.IntN(8); k > 0; k-- {
		add(n+"."+c14ts(r), "own", false)
	}
	// own files whose NAME carries a recent (or even future) local time although the file is old, and
	// the other way round: the modification time decides, not the name
	for k := 1 + r.IntN(3); k > 0; k-- {
		off := r.IntN(70) - 24 // hours; never within two hours of now: that would be the name of the appender's current file
		if off >= -1 {
			off += 3
		}
		t := time.Now().Add(time.Duration(off) * time.Hour)
		add(n+"."+t.Format("20060102150405"), "own-recent-name", false)
	}
	for k := 2 + r.IntN(4); k > 0; k-- {
		add(n+".wf."+c14ts(r), "sibling-wf", false)
	}
	foreign := []func() string{
		func() string { return n + ".audit." + c14ts(r) },
		func() string { return n + ".bak" },
		func() string { return n + ".1.gz" },
		func() string { return n + "." + c14ts(r)[:13] },
		func() string { return n + "." + c14ts(r) + "5" },
		func() string { return n + "." + c14ts(r) + ".gz" },
		func() string { return n + "." },
		func() string { return n },
		func() string { return n + "x." + c14ts(r) },
		func() string { return n + "-" + c14ts(r) },
		func() string { return n + "_" + c14ts(r) },
		func() string { return n + c14ts(r) },
		func() string { return n + ".." + c14ts(r) },
		func() string { return "x" + n + "." + c14ts(r) },
		func() string { return n + "." + c14ts(r)[:7] + "a" + c14ts(r)[8:] },
		func() string { return n + ".-" + c14ts(r)[1:] },
		func() string { return strings.ToUpper(n) + "." + c14ts(r) },
		func() string { return n + ".old." + c14ts(r) + ".1" },
		// 14 BYTES after the dot that are decimal digits to Unicode but not the ASCII digits a rotation timestamp consists of
		func() string { return n + "." + strings.Repeat("\u0663", 7) },            // seven Arabic-Indic digits (2 bytes each)
		func() string { return n + "." + c14ts(r)[:12] + "\u0661" },               // 12 ASCII digits + one 2-byte digit
		func() string { return n + "." + c14ts(r)[:4] + "\uff11" + c14ts(r)[:7] }, // 11 ASCII digits + one full-width digit (3 bytes)
		func() string { return n + "." + c14ts(r)[:13] + "\u00b2" },               // 13 digits and a superscript two: 15 bytes, 14 characters
		func() string { return n + "." + strings.Repeat("\u0967", 14) },           // 14 Devanagari digits: 14 characters, 42 bytes
		func() string { return "unrelated.txt" },
		func() string { return "README" },
		func() string { return c14ts(r) },
	}
	for k := 4 + r.IntN(8); k > 0; k-- {
		add(foreign[r.IntN(len(foreign))](), "foreign", false)
	}
	add("subdir", "dir", true)
	add(n+"."+c14ts(r), "dir-named-like-own", true)
	if r.IntN(2) == 0 {
		add(n+".wf."+c14ts(r), "dir", true)
	}
	return c
}

func c14populate(dir string, c *c14case, t0 time.Time) error {
	for _, e := range c.Ents {
		p := filepath.Join(dir, e.Name)
		if e.Dir {
			if err := os.MkdirAll(p, 0755); err != nil {
				return err
			}
			if e.AgeMin%2 == 0 { // every other directory stays empty (an empty directory can be removed like a file)
				_ = os.WriteFile(filepath.Join(p, "inner."+"20200101000000"), []byte("x"), 0644)
			}
		} else if err := os.WriteFile(p, []byte("content of "+e.Name+"\n"), 0644); err != nil {
			return err
		}
		// (seconds arithmetic and utimensat directly: time.Duration and os.Chtimes cannot express dates beyond the year 2262)
		ts := syscall.Timespec{Sec: t0.Unix() - int64(e.AgeMin)*60}
		if err := syscall.UtimesNano(p, []syscall.Timespec{ts, ts}); err != nil {
			return err
		}
	}
	return nil
}

func c14listing(dir string) map[string]bool {
	m := map[string]bool{}
	ents, _ := os.ReadDir(dir)
	for _, e := range ents {
		m[e.Name()] = e.IsDir()
	}
	return m
}

// c14judge compares the directory after the cleanup with the survivor oracle.
func c14judge(w *W, c *c14case, before, after map[string]bool, names []string, cs any, how string) bool {
	ok := true
	pats := []*regexp.Regexp{}
	for _, n := range names {
		pats = append(pats, regexp.MustCompile(`^`+regexp.QuoteMeta(n)+`\.\d{14}$`))
	}
	maxMin := int(c.MaxAge) * 60
	byName := map[string]c14ent{}
	for _, e := range c.Ents {
		byName[e.Name] = e
	}
	var keys []string
	for k := range before {
		keys = append(keys, k)
	}
	sort.Strings(keys)
	for _, name := range keys {
		e, generated := byName[name]
		_, still := after[name]
		own := false
		for _, p := range pats {
			if p.MatchString(name) {
				own = true
			}
		}
		mustGo := generated && !e.Dir && own && e.AgeMin > maxMin
		switch {
		case !generated:
			// created by the appender itself (its current file): must survive
			if !still {
				ok = false
				w.Violate("C14:deleted-current-file", fmt.Sprintf("[%s] the file being written (%s) was deleted (maxAge=%dh)", how, name, c.MaxAge), cs)
			}
		case mustGo && still:
			ok = false
			w.Violate("C14:expired-own-file-survives", fmt.Sprintf("[%s] %s is an own rotated file, %d min old with maxAge=%dh, but was not deleted", how, name, e.AgeMin, c.MaxAge), cs)
		case !mustGo && !still:
			ok = false
			reason := e.Class
			if own && !e.Dir {
				reason = fmt.Sprintf("own-but-young(%dmin<=%dmin)", e.AgeMin, maxMin)
			}
			cls := "foreign"
			switch {
			case e.Dir:
				cls = "directory"
			case own:
				cls = "young-own"
			case e.Class == "sibling-wf":
				cls = "sibling"
			}
			w.Violate("C14:wrongly-deleted:"+cls, fmt.Sprintf("[%s] %s was deleted but must be kept (%s; maxAge=%dh, appender name(s) %v)", how, name, reason, c.MaxAge, names), cs)
		}
	}
	for name := range after {
		if _, was := before[name]; !was && !strings.HasPrefix(name, c.FileName+".") {
			ok = false
			w.Violate("C14:stray-created", "cleanup created "+name, cs)
		}
	}
	return ok
}

// c14zone builds a zone whose UTC offset changes by one hour at the given instant (forward: +0 -> +1, else +1 -> +0).
func c14zone(at time.Time, forward bool) (*time.Location, error) {
	var b []byte
	be32 := func(v int32) { b = append(b, byte(v>>24), byte(v>>16), byte(v>>8), byte(v)) }
	b = append(b, "TZif"...)
	b = append(b, 0)
	b = append(b, make([]byte, 15)...)
	for _, c := range []int32{0, 0, 0, 2, 2, 8} { // isutcnt, isstdcnt, leapcnt, timecnt, typecnt, charcnt
		be32(c)
	}
	be32(1_000_000_000) // transition 0: long ago
	be32(int32(at.Unix()))
	first, second := byte(0), byte(1) // type 0 = +1h (summer), type 1 = +0 (standard)
	if forward {
		first, second = 1, 0
	}
	b = append(b, first, second)
	be32(3600)
	b = append(b, 1, 0)
	be32(0)
	b = append(b, 0, 4)
	b = append(b, "SUM\x00STD\x00"...)
	return time.LoadLocationFromTZData("synthetic-dst", b)
}

// c14failedRotation: the appender has been silent for longer than maxAge (its current file is old), and the rotation that the
// next write triggers cannot create its file (directories already sit under the upcoming names). The write goes to the file the
// appender already has - which is the file currently being written and must not be deleted, however old it is.
func c14failedRotation(w *W, dir string, k int) {
	_ = os.RemoveAll(dir)
	_ = os.MkdirAll(dir, 0755)
	defer os.RemoveAll(dir)
	name := []string{"app.log", "svc", "q?.log"}[k%3]
	ap := &log.RollingFileAppender{AppenderBase: log.AppenderBase{Name: "fr"}, Layout: &log.TextLayout{}, FileDir: dir, FileName: name, Rotation: log.TimeRotation{Interval: time.Second}, MaxAge: int32(1 + k%3)}
	cs := map[string]any{"scenario": "silent for longer than maxAge, then a rotation whose file cannot be created", "file_name": name, "max_age_h": ap.MaxAge}
	if err := ap.Start(); err != nil {
		w.Note("failed-rotation scenario: start failed: " + err.Error())
		return
	}
	defer ap.Stop()
	ap.Write([]byte("id-fr" + fmt.Sprint(k) + "-1 before the silence\n"))
	var cur string
	for n := range c14listing(dir) {
		cur = n
	}
	old := time.Now().Add(-time.Duration(ap.MaxAge)*time.Hour - 3*time.Hour)
	_ = os.Chtimes(filepath.Join(dir, cur), old, old)
	// an expired own file as well: whether or not it gets deleted on this path is not judged
	exp := filepath.Join(dir, name+".20200101000000")
	_ = os.WriteFile(exp, []byte("x"), 0644)
	_ = os.Chtimes(exp, old, old)
	now := time.Now()
	for s := 1; s <= 4; s++ {
		_ = os.MkdirAll(filepath.Join(dir, name+"."+now.Add(time.Duration(s)*time.Second).Format("20060102150405")), 0755)
	}
	time.Sleep(now.Truncate(time.Second).Add(time.Second + 5*time.Millisecond).Sub(now))
	if pv, st := catch(func() { ap.Write([]byte("id-fr" + fmt.Sprint(k) + "-2 after the silence\n")) }); pv != nil {
		w.Violate("C14:cleanup-panic", fmt.Sprintf("write after a failed rotation panicked: %v\n%s", pv, trunc(st, 600)), cs)
		return
	}
	time.Sleep(100 * time.Millisecond)
	w.Eval(1)
	b, err := os.ReadFile(filepath.Join(dir, cur))
	switch {
	case err != nil:
		w.Violate("C14:deleted-current-file", fmt.Sprintf("the file being written (%s, last modified %d h ago, maxAge %d h) was deleted when the rotation could not create the next file", cur, ap.MaxAge+3, ap.MaxAge), cs)
	case !bytes.Contains(b, []byte("after the silence")):
		w.Violate("C14:deleted-current-file", fmt.Sprintf("the write after the failed rotation is not in the file the appender already had (%s)", cur), cs)
	default:
		w.Distinct(fmt.Sprintf("failed-rotation|%s|maxage=%d", name, ap.MaxAge))
	}
}

// c14siblingCurrent: a rolling-file LOGGER with separate=true owns two appenders, 'name' and 'name.wf'. Nothing at WARN or
// above has been logged for longer than maxAge, so the current .wf file is old. An INFO event then rotates the normal
// appender only; its retention scan must remove its own expired file (the marker) and leave the sibling's files - above all
// the file the .wf appender is currently writing - alone.
func c14siblingCurrent(w *W, dir string, k int) {
	_ = os.RemoveAll(dir)
	_ = os.MkdirAll(dir, 0755)
	defer os.RemoveAll(dir)
	name := []string{"app.log", "svc"}[k%2]
	all := log.LevelRange{MinLevel: log.NoneLevel, MaxLevel: log.MaxLevel}
	rl := &log.RollingFileLogger{LoggerBase: log.LoggerBase{Name: "lg", Level: all}, FileDir: dir, FileName: name, Separate: true, Rotation: log.TimeRotation{Interval: time.Second}, MaxAge: 1}
	cs := map[string]any{"scenario": "separate=true; the .wf file is older than maxAge; an INFO event rotates the normal appender only", "file_name": name}
	if err := rl.Start(); err != nil {
		w.Note("sibling-current scenario: start failed: " + err.Error())
		return
	}
	defer rl.Stop()
	appendEvent(rl, log.InfoLevel, fmt.Sprintf("id-sc%d-1", k))
	appendEvent(rl, log.ErrorLevel, fmt.Sprintf("id-sc%d-2", k))
	var wfCur string
	for n := range c14listing(dir) {
		if strings.HasPrefix(n, name+".wf.") {
			wfCur = n
		}
	}
	if wfCur == "" {
		w.Note("sibling-current scenario: no .wf file after an ERROR event")
		return
	}
	old := time.Now().Add(-3 * time.Hour)
	_ = os.Chtimes(filepath.Join(dir, wfCur), old, old)
	marker := filepath.Join(dir, name+".20200101000000")
	_ = os.WriteFile(marker, []byte("x"), 0644)
	_ = os.Chtimes(marker, old, old)
	oldWf := filepath.Join(dir, name+".wf.20200101000000") // an expired .wf file: whether it goes is up to the .wf appender's own scans
	_ = os.WriteFile(oldWf, []byte("x"), 0644)
	_ = os.Chtimes(oldWf, old, old)
	now := time.Now()
	time.Sleep(now.Truncate(time.Second).Add(time.Second + 5*time.Millisecond).Sub(now))
	appendEvent(rl, log.InfoLevel, fmt.Sprintf("id-sc%d-3", k))
	for t0 := time.Now(); time.Since(t0) < 15*time.Second; time.Sleep(10 * time.Millisecond) {
		if _, err := os.Stat(marker); err != nil {
			break
		}
	}
	time.Sleep(100 * time.Millisecond)
	w.Eval(1)
	if _, err := os.Stat(marker); err == nil {
		w.Violate("C14:expired-own-file-survives", "[separate=true, rotation of the normal appender] its expired file "+filepath.Base(marker)+" was not deleted within 15 s", cs)
		return
	}
	if _, err := os.Stat(filepath.Join(dir, wfCur)); err != nil {
		w.Violate("C14:deleted-current-file", fmt.Sprintf("[separate=true] the rotation of the normal appender deleted %s, the file the .wf appender is currently writing (another appender's file)", wfCur), cs)
		return
	}
	appendEvent(rl, log.ErrorLevel, fmt.Sprintf("id-sc%d-4", k))
	w.Distinct("sibling-current|" + name)
}

func c14Worker(w *W) {
	if z := w.Arg("synthdst", ""); z != "" {
		var dir string
		var hours int
		if i := strings.IndexByte(z, ':'); i > 0 {
			dir = z[:i]
			fmt.Sscanf(z[i+1:], "%d", &hours)
		}
		loc, err := c14zone(time.Now().Add(-time.Duration(hours)*time.Hour).Add(-7*time.Minute), dir == "fwd")
		if err != nil {
			w.Inconclusive("synthetic zone: " + err.Error())
			return
		}
		time.Local = loc
	}
	base := filepath.Join(w.Spec.Dir, w.Spec.Name+".d")
	defer os.RemoveAll(base)
	n := int(w.Spec.N)
	only := -1
	if w.Spec.Replay != nil {
		var rc struct {
			Index int `json:"index"`
		}
		_ = json.Unmarshal(w.Spec.Replay, &rc)
		only = rc.Index
		n = only + 1
	}
	for ci := 0; ci < n; ci++ {
		r := newRng(w.Spec.Seed, uint64(w.Spec.Shard)*1_000_003+uint64(ci)+14)
		c := c14gen(r)
		if only >= 0 && ci != only {
			continue
		}
		// legal directory names, some of which would mean something else to a pattern matcher; next to such a directory lives
		// another program's directory (the name a pattern would also match) holding old files named exactly like our rotated
		// ones: they are outside the log directory and must never be touched
		dirName, decoyName := fmt.Sprintf("c%d", ci), ""
		switch ci % 6 {
		case 1:
			dirName, decoyName = fmt.Sprintf("c%d[z]", ci), fmt.Sprintf("c%dz", ci)
		case 3:
			dirName, decoyName = fmt.Sprintf("c%d?", ci), fmt.Sprintf("c%dq", ci)
		case 4:
			dirName, decoyName = fmt.Sprintf("c%d*", ci), fmt.Sprintf("c%d-more", ci)
		case 5:
			dirName, decoyName = fmt.Sprintf("c%d\\z", ci), fmt.Sprintf("c%dz", ci)
		}
		dir := filepath.Join(base, dirName)
		_ = os.RemoveAll(dir)
		_ = os.MkdirAll(dir, 0755)
		decoy := ""
		var decoyBefore map[string]bool
		if decoyName != "" {
			decoy = filepath.Join(base, decoyName)
			_ = os.RemoveAll(decoy)
			_ = os.MkdirAll(decoy, 0755)
			old := time.Now().Add(-time.Duration(c.MaxAge)*time.Hour - 500*time.Hour)
			for k := 0; k < 3; k++ {
				for _, nm := range []string{c.FileName, c.FileName + ".wf"} {
					p := filepath.Join(decoy, nm+"."+c14ts(r))
					_ = os.WriteFile(p, []byte("another program's file\n"), 0644)
					_ = os.Chtimes(p, old, old)
				}
			}
			decoyBefore = c14listing(decoy)
			w.Count("neighbour_directories_watched", 1)
		}
		cs := map[string]any{"index": ci, "case": c, "dir": dirName}
		w.Journal("C14 case %d %+v", ci, c)
		if w.Spec.Kind == "e2e" && c.Sibling {
			// two more appenders share the directory and cross the boundary at the same moment (four retention scans start
			// together): each must still clean its own expired files
			for _, sfx := range []string{".a2", ".a3"} {
				nm := c.FileName + sfx
				for k := 0; k < 3; k++ {
					age := int(c.MaxAge)*60 + 600 + k
					if c.MaxAge > 800000 {
						age = 100000 + k // "for ever" retentions: nothing can be older than the maximum age (see c14gen)
					}
					c.Ents = append(c.Ents, c14ent{Name: nm + "." + c14ts(r), AgeMin: age, Class: "own"})
				}
				c.Ents = append(c.Ents, c14ent{Name: nm + "." + c14ts(r), AgeMin: 0, Class: "own"})
			}
		}
		t0 := time.Now()
		if err := c14populate(dir, c, t0); err != nil {
			w.Note("populate failed: " + err.Error())
			continue
		}
		e2e := w.Spec.Kind == "e2e"
		// the rotation period has no say in the retention rule (user-registered periods need not divide maxAge)
		interval := []time.Duration{time.Hour, 24 * time.Hour, 7 * time.Hour, 90 * time.Minute, 10 * time.Minute, 168 * time.Hour}[ci%6]
		if e2e {
			interval = time.Second
		}
		mk := func(name string) *log.RollingFileAppender {
			return &log.RollingFileAppender{AppenderBase: log.AppenderBase{Name: name}, Layout: &log.TextLayout{}, FileDir: dir, FileName: name, Rotation: log.TimeRotation{Interval: interval}, MaxAge: c.MaxAge}
		}
		aps := []*log.RollingFileAppender{mk(c.FileName)}
		names := []string{c.FileName}
		if c.Sibling {
			aps = append(aps, mk(c.FileName+".wf"))
			names = append(names, c.FileName+".wf")
		}
		started := true
		var viaLogger *log.RollingFileLogger
		if c.Sibling && ci%2 == 1 {
			// the pair 'name' / 'name.wf' as the rolling-file LOGGER creates it (separate=true): whatever the two
			// appenders share, each must still clean its own expired files
			viaLogger = &log.RollingFileLogger{LoggerBase: log.LoggerBase{Name: "lg"}, FileDir: dir, FileName: c.FileName, Separate: true,
				Rotation: log.TimeRotation{Interval: interval}, MaxAge: c.MaxAge}
			aps = aps[:0]
			if err := viaLogger.Start(); err != nil {
				started = false
			} else {
				_, refs := viaLogger.VerifInner()
				for _, rf := range refs {
					if a, ok := rf.Appender.(*log.RollingFileAppender); ok {
						aps = append(aps, a)
					}
				}
				if len(aps) != 2 {
					w.Note(fmt.Sprintf("rolling logger with separate=true has %d rolling appenders", len(aps)))
					started = false
				}
				w.Count("pairs_created_by_the_rolling_logger", 1)
			}
		} else {
			for _, a := range aps {
				if err := a.Start(); err != nil {
					started = false
				}
			}
		}
		if started && e2e && c.Sibling {
			for _, sfx := range []string{".a2", ".a3"} {
				a := mk(c.FileName + sfx)
				if err := a.Start(); err != nil {
					started = false
				}
				aps = append(aps, a)
				names = append(names, c.FileName+sfx)
			}
			w.Count("cases_with_four_appenders_crossing_together", 1)
		}
		if !started {
			w.Note("appender start failed")
			continue
		}
		for _, a := range aps {
			a.Write([]byte("current\n"))
		}
		if ci%4 == 1 {
			// the directory is unreadable for one scan (moved away for a moment); the scans that follow must work as ever
			away := dir + ".away"
			if err := os.Rename(dir, away); err == nil {
				for _, a := range aps {
					if pv, st := catch(a.VerifClearExpiredFiles); pv != nil {
						w.Violate("C14:cleanup-panic", fmt.Sprintf("retention scan of a vanished directory panicked: %v\n%s", pv, trunc(st, 800)), cs)
					}
				}
				if err := os.Rename(away, dir); err != nil {
					w.Inconclusive("could not restore the log directory: " + err.Error())
					return
				}
				w.Count("scans_of_a_vanished_directory", int64(len(aps)))
			}
		}
		before := c14listing(dir)
		how := "synchronous scan"
		if !e2e {
			for _, a := range aps {
				if pv, st := catch(a.VerifClearExpiredFiles); pv != nil {
					w.Violate("C14:cleanup-panic", fmt.Sprintf("retention scan panicked: %v\n%s", pv, trunc(st, 800)), cs)
				}
			}
		} else {
			how = "scan triggered by a real rotation"
			// cross one real boundary; the rotation starts the scan asynchronously
			now := time.Now()
			nextB := now.Truncate(time.Second).Add(time.Second)
			if ci%2 == 0 && c.MaxAge <= 1000 {
				// the rotating write comes 600 ms INTO the new period, and one own file reaches the maximum age 300 ms after
				// the boundary: when the rotation's scan runs it is older than the configured maximum age and goes
				justExpired := c.FileName + ".20010203040506"
				p := filepath.Join(dir, justExpired)
				if _, exists := before[justExpired]; !exists && os.WriteFile(p, []byte("x\n"), 0644) == nil {
					mt := nextB.Add(300 * time.Millisecond).Add(-time.Duration(c.MaxAge) * time.Hour)
					tsp := syscall.NsecToTimespec(mt.UnixNano())
					if syscall.UtimesNano(p, []syscall.Timespec{tsp, tsp}) == nil {
						c.Ents = append(c.Ents, c14ent{Name: justExpired, AgeMin: int(c.MaxAge)*60 + 1, Class: "own-expired-between-boundary-and-rotating-write"})
						before[justExpired] = false
						w.Count("own_files_expiring_between_boundary_and_rotating_write", 1)
					} else {
						_ = os.Remove(p)
					}
				}
				time.Sleep(time.Until(nextB.Add(600 * time.Millisecond)))
			} else {
				time.Sleep(time.Until(nextB.Add(5 * time.Millisecond)))
			}
			for _, a := range aps {
				a.Write([]byte("after boundary\n"))
			}
			// poll (bounded, generous) until every entry the oracle expects to go has gone, then a little
			// longer so that wrong deletions still in progress are seen too
			var expectGone []string
			for _, e := range c.Ents {
				own := false
				for _, n := range names {
					if regexp.MustCompile(`^` + regexp.QuoteMeta(n) + `\.\d{14}$`).MatchString(e.Name) {
						own = true
					}
				}
				if !e.Dir && own && e.AgeMin > int(c.MaxAge)*60 {
					expectGone = append(expectGone, e.Name)
				}
			}
			deadline := time.Now().Add(15 * time.Second)
			for time.Now().Before(deadline) {
				left := 0
				for _, n := range expectGone {
					if _, err := os.Stat(filepath.Join(dir, n)); err == nil {
						left++
					}
				}
				if left == 0 {
					break
				}
				time.Sleep(10 * time.Millisecond)
			}
			time.Sleep(150 * time.Millisecond)
			// files created by the rotation itself are the appender's own young files
			for name, isDir := range c14listing(dir) {
				if _, ok := before[name]; !ok {
					before[name] = isDir
				}
			}
		}
		after := c14listing(dir)
		ok := c14judge(w, c, before, after, names, cs, how)
		if decoy != "" {
			for name := range decoyBefore {
				if _, still := c14listing(decoy)[name]; !still {
					ok = false
					w.Violate("C14:wrongly-deleted:outside-directory", fmt.Sprintf("[%s] %s in the neighbouring directory %q was deleted; the log directory is %q", how, name, decoyName, dirName), cs)
					break
				}
			}
		}
		if ok && !e2e && ci%3 == 0 {
			// the same appender scans again later: meanwhile some surviving own files were written to (their
			// modification time is now) and the retention was shortened to one hour. The decision must follow
			// the files' current state, not anything remembered from the first scan.
			c2 := &c14case{FileName: c.FileName, MaxAge: 1, Sibling: c.Sibling}
			now := time.Now()
			for _, e := range c.Ents {
				if _, still := after[e.Name]; !still {
					continue
				}
				e2 := e
				inBand := e.AgeMin >= 40 && e.AgeMin <= 80 // too close to the new one-hour cut-off: made young instead
				if (!e.Dir && (e.Class == "own" || e.Class == "own-recent-name" || e.Class == "sibling-wf") && r.IntN(2) == 0) || inBand {
					p := filepath.Join(dir, e.Name)
					_ = os.Chtimes(p, now, now)
					e2.AgeMin = 0
				}
				c2.Ents = append(c2.Ents, e2)
			}
			for _, a := range aps {
				a.MaxAge = 1
				a.VerifClearExpiredFiles()
			}
			before2 := after
			after2 := c14listing(dir)
			cs2 := map[string]any{"index": ci, "case": c2, "second_scan": true}
			if !c14judge(w, c2, before2, after2, names, cs2, "second scan of the same appender after touching files, maxAge lowered to 1h") {
				ok = false
			}
			w.Count("second_scans", 1)
		}
		if viaLogger != nil {
			viaLogger.Stop()
		}
		for _, a := range aps {
			a.Stop() // (a second Stop of the logger's own appenders is harmless)
		}
		if time.Since(t0) > 9*time.Minute {
			w.Inconclusive("case took longer than the 10-minute margin around the cut-off")
		}
		w.Eval(1)
		w.Count("directory_entries_judged", int64(len(before)))
		if ok {
			band := "mid"
			switch {
			case c.MaxAge <= 3:
				band = "small"
			case c.MaxAge >= 597:
				band = ">=597h"
			}
			del := 0
			for k := range before {
				if _, s := after[k]; !s {
					del++
				}
			}
			w.Distinct(fmt.Sprintf("%s|name=%s|maxage=%s|sibling=%v|deleted=%v", w.Spec.Kind, c.FileName, band, c.Sibling, del > 0))
			if ci == 0 {
				w.Sample(map[string]any{"case": c, "deleted": del})
			}
		}
		_ = os.RemoveAll(dir)
		if decoy != "" {
			_ = os.RemoveAll(decoy)
		}
	}
	if w.Spec.Kind == "e2e" && only < 0 {
		for k := 0; k < 2; k++ {
			c14failedRotation(w, filepath.Join(base, fmt.Sprintf("fr%d", k)), w.Spec.Shard*2+k)
		}
		c14siblingCurrent(w, filepath.Join(base, "sc"), w.Spec.Shard)
	}
}

func init() {
	register(&Prop{
		ID: "C14", Level: "exploration", MinDistinct: 20, Worker: c14Worker,
		Rule: "directory states generated per case: 3-10 own rotated files '<name>.<14 digits>', 2-5 sibling '<name>.wf.<ts>' files, 4-11 foreign prefix-sharing or unrelated files from 26 shapes (non-ASCII decimal digits making up 14 bytes or 14 characters after the dot, name.audit.<ts>, name.bak, name.1.gz, 13/15-digit suffixes, name.<ts>.gz, 'name.', 'name', namex.<ts>, upper-case, letters/sign inside the digits, ...), sub-directories incl. one named exactly like an own file; " +
			"modification times set to T0-age with ages -400 years .. -1 h (future), 0, maxAge∓11 min, ∓1 h, far expired, uniformly young; names in {app.log, svc, a.b.c, x-1_y, gw-2006.n1, Jan_02.15, app[1].log, a*b, q?.log}; log directories named c<i>, c<i>[z], c<i>?, c<i>*, c<i>\\z, each of the odd ones next to another program's directory (c<i>z, c<i>q, c<i>-more) holding old files named like our rotated ones, which must survive; in every fourth case the directory is moved away during one scan and restored before the judged scan; 1-3 own files whose name carries a recent or future local time while the file itself is old (and vice versa); workers run in six time zones (TZ) and in six synthetic zones whose UTC offset jumps by one hour 5, 30 or 200 hours ago (forwards or backwards); maxAge over 1..720 h with emphasis on 1-3 and 590-720; optionally a sibling '<name>.wf' appender cleaning the same directory. The appender is started (current file exists) and the scan runs through the guarded synchronous entry; a second worker kind lets a real 1 s rotation trigger the asynchronous scan and polls the directory. " +
			"Oracle: survivors = everything except regular files matching ^<name>\\.\\d{14}$ older than maxAge hours (no file lies within 10 min of the cut-off). In every third case the same appender scans a second time after half of the surviving own files were touched (modification time = now) and maxAge was lowered to 1 h. Non-trivial/distinct = distinct (trigger, name, maxAge band, sibling, something deleted) classes that matched.",
		Assumptions: []string{"files within 10 minutes of the cut-off are never generated; a case taking longer than that is inconclusive", "modification times are set with os.Chtimes"},
		Run: func(d *D) {
			var specs []Spec
			zones := []string{"", "Asia/Tokyo", "America/Los_Angeles", "Pacific/Kiritimati", "UTC", "Asia/Kolkata"}
			for i := 0; i < 12; i++ {
				s := d.NewSpec("sync", fmt.Sprintf("sync-%d", i), i, 16)
				s.N = d.Pick(400, 4000)
				if z := zones[i%len(zones)]; z != "" {
					s.Env = []string{"TZ=" + z} // rotated file names are written in local time
				}
				specs = append(specs, s)
			}
			// a daylight-saving switch inside the retention window (synthetic zones, so the check does not depend on today's date):
			// "older than maxAge hours" is elapsed time, not wall-clock arithmetic
			for i, z := range []string{"back:5", "fwd:5", "back:30", "fwd:30", "fwd:200", "back:200"} {
				s := d.NewSpec("sync", fmt.Sprintf("sync-dst-%d", i), 30+i, 16)
				s.N = d.Pick(150, 2000)
				s.Args["synthdst"] = z
				specs = append(specs, s)
			}
			for i := 0; i < 4; i++ {
				s := d.NewSpec("e2e", fmt.Sprintf("e2e-%d", i), 50+i, 16)
				s.N = d.Pick(4, 25)
				specs = append(specs, s)
			}
			d.RunWorkers(specs, 16)
		},
	})
}
