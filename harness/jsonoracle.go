package main

// Strict RFC 8259 parser used as oracle (order- and duplicate-preserving, numbers kept as text,
// raw invalid UTF-8 rejected — encoding/json would silently repair it).

import (
	"fmt"
	"unicode/utf8"
)

type jNumber string

type jObject struct {
	Keys    []string
	Vals    []any
	RawKeys []string // raw key tokens without the surrounding quotes
	RawVals []string // raw value tokens
}

func (o *jObject) String() string { return fmt.Sprintf("%q=%v", o.Keys, o.Vals) }

type jparser struct {
	b     []byte
	i     int
	depth int
}

func strictJSONParse(b []byte) (any, error) {
	p := &jparser{b: b}
	v, err := p.value()
	if err != nil {
		return nil, err
	}
	if p.i != len(b) {
		return nil, fmt.Errorf("trailing bytes at offset %d: %q", p.i, trunc(string(b[p.i:]), 40))
	}
	return v, nil
}

func (p *jparser) ws() {
	for p.i < len(p.b) {
		switch p.b[p.i] {
		case ' ', '\t', '\n', '\r':
			p.i++
		default:
			return
		}
	}
}

func (p *jparser) value() (any, error) {
	if p.i >= len(p.b) {
		return nil, fmt.Errorf("unexpected end at %d", p.i)
	}
	p.depth++
	defer func() { p.depth-- }()
	if p.depth > 10000 {
		return nil, fmt.Errorf("too deep")
	}
	switch c := p.b[p.i]; {
	case c == '{':
		p.i++
		o := &jObject{}
		if p.i < len(p.b) && p.b[p.i] == '}' {
			p.i++
			return o, nil
		}
		for {
			if p.i >= len(p.b) || p.b[p.i] != '"' {
				return nil, fmt.Errorf("expected object key at %d", p.i)
			}
			ks := p.i
			k, err := p.str()
			if err != nil {
				return nil, err
			}
			rawk := string(p.b[ks+1 : p.i-1])
			if p.i >= len(p.b) || p.b[p.i] != ':' {
				return nil, fmt.Errorf("expected ':' at %d", p.i)
			}
			p.i++
			vs := p.i
			v, err := p.value()
			if err != nil {
				return nil, err
			}
			o.Keys = append(o.Keys, k)
			o.Vals = append(o.Vals, v)
			o.RawKeys = append(o.RawKeys, rawk)
			o.RawVals = append(o.RawVals, string(p.b[vs:p.i]))
			if p.i >= len(p.b) {
				return nil, fmt.Errorf("unterminated object")
			}
			if p.b[p.i] == ',' {
				p.i++
				continue
			}
			if p.b[p.i] == '}' {
				p.i++
				return o, nil
			}
			return nil, fmt.Errorf("expected ',' or '}' at %d, got %q", p.i, p.b[p.i])
		}
	case c == '[':
		p.i++
		arr := []any{}
		if p.i < len(p.b) && p.b[p.i] == ']' {
			p.i++
			return arr, nil
		}
		for {
			v, err := p.value()
			if err != nil {
				return nil, err
			}
			arr = append(arr, v)
			if p.i >= len(p.b) {
				return nil, fmt.Errorf("unterminated array")
			}
			if p.b[p.i] == ',' {
				p.i++
				continue
			}
			if p.b[p.i] == ']' {
				p.i++
				return arr, nil
			}
			return nil, fmt.Errorf("expected ',' or ']' at %d, got %q", p.i, p.b[p.i])
		}
	case c == '"':
		return p.str()
	case c == 't':
		return p.lit("true", true)
	case c == 'f':
		return p.lit("false", false)
	case c == 'n':
		return p.lit("null", nil)
	case c == '-' || (c >= '0' && c <= '9'):
		return p.num()
	default:
		return nil, fmt.Errorf("unexpected byte %q at %d", c, p.i)
	}
}

func (p *jparser) lit(s string, v any) (any, error) {
	if p.i+len(s) <= len(p.b) && string(p.b[p.i:p.i+len(s)]) == s {
		p.i += len(s)
		return v, nil
	}
	return nil, fmt.Errorf("bad literal at %d", p.i)
}

func (p *jparser) num() (any, error) {
	s := p.i
	if p.b[p.i] == '-' {
		p.i++
	}
	if p.i >= len(p.b) {
		return nil, fmt.Errorf("bad number at %d", s)
	}
	if p.b[p.i] == '0' {
		p.i++
	} else if p.b[p.i] >= '1' && p.b[p.i] <= '9' {
		for p.i < len(p.b) && p.b[p.i] >= '0' && p.b[p.i] <= '9' {
			p.i++
		}
	} else {
		return nil, fmt.Errorf("bad number at %d", s)
	}
	if p.i < len(p.b) && p.b[p.i] == '.' {
		p.i++
		n := 0
		for p.i < len(p.b) && p.b[p.i] >= '0' && p.b[p.i] <= '9' {
			p.i++
			n++
		}
		if n == 0 {
			return nil, fmt.Errorf("bad fraction at %d", s)
		}
	}
	if p.i < len(p.b) && (p.b[p.i] == 'e' || p.b[p.i] == 'E') {
		p.i++
		if p.i < len(p.b) && (p.b[p.i] == '+' || p.b[p.i] == '-') {
			p.i++
		}
		n := 0
		for p.i < len(p.b) && p.b[p.i] >= '0' && p.b[p.i] <= '9' {
			p.i++
			n++
		}
		if n == 0 {
			return nil, fmt.Errorf("bad exponent at %d", s)
		}
	}
	return jNumber(p.b[s:p.i]), nil
}

func (p *jparser) str() (string, error) {
	// p.b[p.i] == '"'
	s := p.i + 1
	j := s
	for j < len(p.b) {
		c := p.b[j]
		if c == '\\' {
			j += 2
			continue
		}
		if c == '"' {
			break
		}
		if c >= utf8.RuneSelf {
			_, size := utf8.DecodeRune(p.b[j:])
			j += size
			continue
		}
		j++
	}
	if j >= len(p.b) {
		return "", fmt.Errorf("unterminated string starting at %d", p.i)
	}
	dec, why := strictStringBody(nil, p.b[s:j])
	if why != "" {
		return "", fmt.Errorf("string at %d: %s", p.i, why)
	}
	p.i = j + 1
	return string(dec), nil
}
