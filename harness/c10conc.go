package main

// C10, second worker kind "conc": the hooks stay installed while G goroutines log concurrently through three
// loggers (sync, async/Block, configured root) whose level ranges change from round to round. Every call carries its
// own counters in its context, so "exactly once iff emitted, with the caller's context" is decided per call although
// thousands of calls overlap; the emitted record must carry that call's hook results. Runs under the race detector too.

import (
	"context"
	"fmt"
	"strings"
	"sync"
	"sync/atomic"
	"time"

	log "github.com/go-spring/log"
)

type c10call struct {
	id                          string
	self                        context.Context
	t                           time.Time
	cs, cf                      string
	timeN, strN, fieldsN, lazyN atomic.Int32
	ctxBad                      atomic.Bool
	entry                       string
	level                       log.Level
	tagIdx                      int
	enabled                     bool
}

type c10callKey struct{}

func c10from(ctx context.Context) *c10call {
	if ctx == nil {
		return nil
	}
	c, _ := ctx.Value(c10callKey{}).(*c10call)
	return c
}

func c10ConcWorker(w *W) {
	c01init()
	registerMonitorPlugins()
	tags := []*log.Tag{log.RegisterTag("c10ca"), log.RegisterTag("c10cb"), log.RegisterTag("c10cc")}
	sink := &chunkSink{}
	log.Stdout = sink
	var orphan atomic.Int64 // hook invocations whose context carries no call record
	log.TimeNow = func(ctx context.Context) time.Time {
		c := c10from(ctx)
		if c == nil {
			orphan.Add(1)
			return time.Unix(0, 0)
		}
		c.timeN.Add(1)
		if ctx != c.self {
			c.ctxBad.Store(true)
		}
		return c.t
	}
	log.StringFromContext = func(ctx context.Context) string {
		c := c10from(ctx)
		if c == nil {
			orphan.Add(1)
			return ""
		}
		c.strN.Add(1)
		if ctx != c.self {
			c.ctxBad.Store(true)
		}
		return c.cs
	}
	log.FieldsFromContext = func(ctx context.Context) []log.Field {
		c := c10from(ctx)
		if c == nil {
			orphan.Add(1)
			return nil
		}
		c.fieldsN.Add(1)
		if ctx != c.self {
			c.ctxBad.Store(true)
		}
		return []log.Field{log.String("ctxk1", c.cf), log.Int("ctxk2", 7)}
	}
	defer func() { log.TimeNow, log.StringFromContext, log.FieldsFromContext = nil, nil, nil }()

	ranges := []string{"", "INFO", "WARN~FATAL", "TRACE~DEBUG", "DEBUG", "ERROR~ERROR", "NONE~TRACE", "PANIC", "DEBUG~PANIC", "NOTICE~L998", "TRACE", "ERROR~INFO", "MAX~NONE"}
	entries := []struct {
		name  string
		level log.Level
	}{
		{"Trace", log.TraceLevel}, {"Tracef", log.TraceLevel}, {"Debug", log.DebugLevel}, {"Debugf", log.DebugLevel},
		{"Info", log.InfoLevel}, {"Infof", log.InfoLevel}, {"Warn", log.WarnLevel}, {"Warnf", log.WarnLevel},
		{"Error", log.ErrorLevel}, {"Errorf", log.ErrorLevel}, {"Panic", log.PanicLevel}, {"Panicf", log.PanicLevel},
		{"Fatal", log.FatalLevel}, {"Fatalf", log.FatalLevel},
		{"Record", log.TraceLevel}, {"Record", log.InfoLevel}, {"Record", log.FatalLevel}, {"Record", c01byName["NOTICE"].l}, {"Record", c01byName["L998"].l}, {"Record", log.NoneLevel},
	}
	rounds := int(w.Spec.N)
	G := w.ArgInt("g", 8)
	M := w.ArgInt("m", 150)
	r := w.Rng()
	type base struct{}
	root := context.WithValue(context.Background(), base{}, "b")
	for round := 0; round < rounds; round++ {
		rs := []string{ranges[r.IntN(len(ranges))], ranges[r.IntN(len(ranges))], ranges[r.IntN(len(ranges))]}
		caller, fast := []string{"true", "false"}[r.IntN(2)], []string{"true", "false"}[r.IntN(2)]
		cfg := map[string]string{
			"appender.r1.type": "VRec", "appender.r2.type": "VRec", "appender.r3.type": "VRec",
			"logger.la.type": "Logger", "logger.la.tags": "c10ca", "logger.la.level": rs[0], "logger.la.appenderRef.ref": "r1",
			"logger.lb.type": "AsyncLogger", "logger.lb.tags": "c10cb", "logger.lb.level": rs[1], "logger.lb.appenderRef.ref": "r2", "logger.lb.bufferFullPolicy": "Block", "logger.lb.bufferSize": "128",
			"logger.root.type": "Logger", "logger.root.level": rs[2], "logger.root.appenderRef.ref": "r3",
			"enableCaller": caller, "fastCaller": fast,
		}
		w.Journal("C10 conc round %d %v", round, cfg)
		if err := log.Refresh(cfg); err != nil {
			w.Violate("C10:refresh-failed", "Refresh of a plain configuration failed: "+err.Error(), cfg)
			log.Destroy()
			continue
		}
		var lrs [3]rng
		for i := range rs {
			lrs[i], _ = parseRangeModel(rs[i])
		}
		calls := make([][]*c10call, G)
		for g := 0; g < G; g++ {
			for i := 0; i < M; i++ {
				en := entries[r.IntN(len(entries))]
				ti := r.IntN(3)
				n := round*1_000_000 + g*10_000 + i
				c := &c10call{id: fmt.Sprintf("id-conc%dx%d-%d", w.Spec.Shard, round, g*10_000+i), entry: en.name, level: en.level, tagIdx: ti,
					t:  time.Unix(978_307_200+int64(n/2)*86_461, int64(n%1000)*1e6).In(c10zones[n%len(c10zones)]),
					cs: fmt.Sprintf("cs-%d", n), cf: fmt.Sprintf("cf-%d", n), enabled: lrs[ti].has(en.level.Code())}
				if n%7 == 3 {
					c.cs = ""
				}
				c.self = context.WithValue(root, c10callKey{}, c)
				calls[g] = append(calls[g], c)
			}
		}
		var wg sync.WaitGroup
		var panics atomic.Int64
		start := make(chan struct{})
		for g := 0; g < G; g++ {
			wg.Add(1)
			go func(g int) {
				defer wg.Done()
				<-start
				for _, c := range calls[g] {
					c := c
					ctx, tag, id := c.self, tags[c.tagIdx], c.id
					lazy := func() []log.Field { c.lazyN.Add(1); return []log.Field{log.Msg(id), log.Int("own", 1)} }
					pv, st := catch(func() {
						switch c.entry {
						case "Trace":
							log.Trace(ctx, tag, lazy)
						case "Debug":
							log.Debug(ctx, tag, lazy)
						case "Tracef":
							log.Tracef(ctx, tag, "%s", id)
						case "Debugf":
							log.Debugf(ctx, tag, "%s", id)
						case "Info":
							log.Info(ctx, tag, log.Msg(id), log.Int("own", 1))
						case "Infof":
							log.Infof(ctx, tag, "%s", id)
						case "Warn":
							log.Warn(ctx, tag, log.Msg(id), log.Int("own", 1))
						case "Warnf":
							log.Warnf(ctx, tag, "%s", id)
						case "Error":
							log.Error(ctx, tag, log.Msg(id), log.Int("own", 1))
						case "Errorf":
							log.Errorf(ctx, tag, "%s", id)
						case "Panic":
							log.Panic(ctx, tag, log.Msg(id), log.Int("own", 1))
						case "Panicf":
							log.Panicf(ctx, tag, "%s", id)
						case "Fatal":
							log.Fatal(ctx, tag, log.Msg(id), log.Int("own", 1))
						case "Fatalf":
							log.Fatalf(ctx, tag, "%s", id)
						case "Record":
							log.Record(ctx, c.level, tag, 1, log.Msg(id), log.Int("own", 1))
						}
					})
					if pv != nil {
						panics.Add(1)
						w.Violate("C10:log-call-panic", fmt.Sprintf("%s panicked under concurrency: %v\n%s", c.entry, pv, trunc(st, 1000)), map[string]any{"entry": c.entry, "round": round})
					}
				}
			}(g)
		}
		close(start)
		wg.Wait()
		log.Destroy()
		records := map[string][]recItem{}
		for _, it := range rec.take() {
			id := idOf(it.JSON)
			records[id] = append(records[id], it)
		}
		good := 0
		for g := range calls {
			for _, c := range calls[g] {
				w.Eval(1)
				cs := map[string]any{"scenario": "concurrent", "goroutines": G, "entry": c.entry, "level": c.level.Name(), "logger": []string{"sync", "async", "root"}[c.tagIdx], "range": rs[c.tagIdx], "enabled": c.enabled}
				want, onoff := int32(0), "disabled"
				if c.enabled {
					want, onoff = 1, "enabled"
				}
				bad := false
				for _, h := range []struct {
					name string
					n    int32
				}{{"TimeNow", c.timeN.Load()}, {"StringFromContext", c.strN.Load()}, {"FieldsFromContext", c.fieldsN.Load()}} {
					if h.n != want {
						bad = true
						w.Violate("C10:hook-count:"+h.name+":"+onoff, fmt.Sprintf("concurrent logging: %s hook ran %d times for one %s call at a %s level (expected %d)", h.name, h.n, c.entry, onoff, want), cs)
					}
				}
				if (c.entry == "Trace" || c.entry == "Debug") && c.lazyN.Load() != want {
					bad = true
					w.Violate("C10:lazy-count:"+onoff, fmt.Sprintf("concurrent logging: lazy generator of %s ran %d times at a %s level (expected %d)", c.entry, c.lazyN.Load(), onoff, want), cs)
				}
				if c.ctxBad.Load() {
					bad = true
					w.Violate("C10:wrong-context", fmt.Sprintf("concurrent logging: a hook of %s was invoked with a context other than the caller's", c.entry), cs)
				}
				its := records[c.id]
				switch {
				case !c.enabled && len(its) > 0:
					bad = true
					w.Violate("C10:emitted-when-disabled", fmt.Sprintf("concurrent logging: %s at disabled level %s was emitted", c.entry, c.level.Name()), cs)
				case c.enabled && len(its) == 0:
					bad = true
					w.Violate("C10:not-emitted", fmt.Sprintf("concurrent logging: %s at enabled level %s produced no record", c.entry, c.level.Name()), cs)
				case c.enabled && len(its) > 1:
					bad = true
					w.Violate("C10:duplicate-record", "concurrent logging: one call produced two records for "+c.id, cs)
				case c.enabled:
					it := its[0]
					s := string(it.JSON)
					w.Count("records_checked", 1)
					if ts := c.t.Format("2006-01-02T15:04:05.000"); !strings.Contains(s, `"time":"`+ts+`"`) {
						bad = true
						w.Violate("C10:record-time", fmt.Sprintf("concurrent logging: the formatted record does not show the hook's time %s: %s", ts, trunc(s, 200)), cs)
					}
					if !it.Time.Equal(c.t) {
						bad = true
						w.Violate("C10:record-time", fmt.Sprintf("concurrent logging: record carries time %v, the TimeNow hook returned %v for this call", it.Time, c.t), cs)
					}
					if it.CtxString != c.cs {
						bad = true
						w.Violate("C10:record-ctxstring", fmt.Sprintf("concurrent logging: record carries context string %q, the hook returned %q for this call", it.CtxString, c.cs), cs)
					}
					pK1, pK2, pMsg := strings.Index(s, `"ctxk1":"`+c.cf+`"`), strings.Index(s, `"ctxk2":7`), strings.Index(s, `"msg":"`+c.id+`"`)
					if pK1 < 0 || pK2 < 0 || pMsg < 0 || !(pK1 < pK2 && pK2 < pMsg) {
						bad = true
						w.Violate("C10:field-order", fmt.Sprintf("concurrent logging: context fields of this call must precede its own fields (positions ctxk1=%d ctxk2=%d msg=%d): %s", pK1, pK2, pMsg, trunc(s, 300)), cs)
					}
					if it.Recycled {
						bad = true
						w.Violate("C10:event-recycled", "concurrent logging: the event changed identity while the appender was using it", cs)
					}
				}
				if !bad {
					good++
					w.Distinct(fmt.Sprintf("conc|%s|%s|%s|%s", []string{"sync", "async", "root"}[c.tagIdx], c.entry+":"+c.level.Name(), onoff, w.Spec.Flavour))
				}
			}
		}
		w.Count("concurrent_calls_judged", int64(good))
	}
	if n := orphan.Load(); n > 0 {
		w.Violate("C10:wrong-context", fmt.Sprintf("%d hook invocations received a context that does not carry the caller's values", n), nil)
	}
	for _, ch := range sink.take() {
		if id := idOf(ch); strings.HasPrefix(id, "id-conc") {
			w.Violate("C10:not-emitted", "concurrent logging: a record went to the console instead of its configured logger: "+trunc(string(ch), 200), nil)
			break
		}
	}
	w.Sample(map[string]any{"scenario": "concurrent", "goroutines": G, "calls_per_goroutine_and_round": M, "rounds": rounds, "loggers": "sync(c10ca) / async Block cap 128 (c10cb) / configured root (c10cc), level ranges redrawn per round"})
}
