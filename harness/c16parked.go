package main

// C16, worker kind "parked": a log call is already parked on the full queue of an asynchronous logger (Block policy,
// appender stalled) when Destroy starts. The call began while the configuration was live; it must return without a
// panic once the appender moves on, Destroy must return, and afterwards logging goes to the console again.
// (Destroy is only started after a goroutine dump shows the producer parked on the channel send, so the order of the
// two sends is fixed: Go wakes blocked senders first-in-first-out.)

import (
	"context"
	"fmt"
	"strings"
	"time"

	log "github.com/go-spring/log"
)

//go:noinline
func c16parkedProducer(f func()) { f() }

func c16Parked(w *W) {
	registerMonitorPlugins()
	tag := log.RegisterTag("c16park")
	h := log.GetLogger("lgp")
	sink := &chunkSink{}
	log.Stdout = sink
	ctx := context.Background()
	for ci := 0; ci < int(w.Spec.N); ci++ {
		viaHandle := ci%2 == 1
		cfg := map[string]string{"appender.g.type": "VGate", "logger.lgp.type": "AsyncLogger", "logger.lgp.tags": "c16park", "logger.lgp.bufferSize": "100",
			"logger.lgp.bufferFullPolicy": "Block", "logger.lgp.appenderRef.ref": "g"}
		w.Journal("C16 parked case %d handle=%v", ci, viaHandle)
		rec.take()
		if err := log.Refresh(cfg); err != nil {
			w.Violate("C16:valid-refresh-rejected", err.Error(), cfg)
			log.Destroy()
			continue
		}
		g := gateFor("g")
		g.Open.Store(false)
		for len(g.Entered) > 0 {
			<-g.Entered
		}
		for len(g.Gate) > 0 {
			<-g.Gate
		}
		// one item parks the worker in the appender, 100 fill the queue
		for i := 0; i <= 100; i++ {
			log.Info(ctx, tag, log.Msg(fmt.Sprintf("id-pk%dx%d-%d", w.Spec.Shard, ci, i)))
		}
		prodDone := make(chan any, 1)
		go func() {
			defer func() { prodDone <- recover() }()
			c16parkedProducer(func() {
				if viaHandle {
					_, _ = h.Write([]byte(fmt.Sprintf("raw id-pk%dx%d-101\n", w.Spec.Shard, ci)))
				} else {
					log.Warn(ctx, tag, log.Msg(fmt.Sprintf("id-pk%dx%d-101", w.Spec.Shard, ci)))
				}
			})
		}()
		parked := false
		for t := 0; t < 200 && !parked; t++ {
			time.Sleep(10 * time.Millisecond)
			for _, gr := range strings.Split(goroutineDump(), "\n\n") {
				hdr, _, _ := strings.Cut(gr, "\n")
				if strings.Contains(gr, "c16parkedProducer") && strings.Contains(hdr, "chan send") {
					parked = true
				}
			}
		}
		cs := map[string]any{"scenario": "log call parked on a full Block queue when Destroy starts", "via_handle": viaHandle}
		if !parked {
			w.Note("parked scenario: the producer was not seen parked; case skipped")
			g.Open.Store(true)
			for i := 0; i < 8; i++ {
				g.Gate <- struct{}{}
			}
			<-prodDone
			log.Destroy()
			continue
		}
		destroyDone := make(chan any, 1)
		go func() {
			defer func() { destroyDone <- recover() }()
			watchdogMarker(log.Destroy)
		}()
		time.Sleep(30 * time.Millisecond) // Destroy is now waiting behind the parked producer
		g.Open.Store(true)
		for i := 0; i < 8; i++ {
			g.Gate <- struct{}{}
		}
		w.Eval(1)
		ok := true
		select {
		case pv := <-prodDone:
			if pv != nil {
				ok = false
				w.Violate("C16:log-panic:during-destroy", fmt.Sprintf("a log call that was parked on the full queue when Destroy started panicked: %v", pv), cs)
			}
		case <-time.After(60 * time.Second):
			ok = false
			if b, gr := blockedInLibrary(goroutineDump(), "c16parkedProducer"); b {
				w.Violate("C16:log-blocks:during-destroy", "the parked log call never returned although the appender is free:\n"+trunc(gr, 1200), cs)
			} else {
				w.Inconclusive("parked scenario: producer did not return")
			}
			w.flush()
			return
		}
		select {
		case pv := <-destroyDone:
			if pv != nil {
				ok = false
				w.Violate("C16:destroy-panic", fmt.Sprintf("Destroy panicked: %v", pv), cs)
			}
		case <-time.After(60 * time.Second):
			ok = false
			if b, gr := blockedInLibrary(goroutineDump(), "watchdogMarker"); b {
				w.Violate("C16:destroy-hangs", "Destroy did not return after the appender moved on:\n"+trunc(gr, 1200), cs)
			} else {
				w.Inconclusive("parked scenario: Destroy did not return")
			}
			w.flush()
			return
		}
		// everything accepted before Destroy (incl. the parked item, which was ahead of the stop marker) was delivered
		seen := map[string]bool{}
		for _, it := range rec.take() {
			seen[idOf(it.JSON)] = true
		}
		for i := 0; i <= 101; i++ {
			if id := fmt.Sprintf("id-pk%dx%d-%d", w.Spec.Shard, ci, i); !seen[id] {
				ok = false
				w.Violate("C16:lost-around-destroy", fmt.Sprintf("%s (submitted before Destroy started) was never delivered", id), cs)
				break
			}
		}
		// and the state afterwards is "no live configuration"
		sink.take()
		pv, _ := catch(func() { log.Info(ctx, tag, log.Msg(fmt.Sprintf("id-pkafter%d-%d", w.Spec.Shard, ci))) })
		if pv != nil {
			ok = false
			w.Violate("C16:log-panic:none", fmt.Sprintf("logging after Destroy panicked: %v", pv), cs)
		} else if got := sink.take(); len(got) != 1 {
			ok = false
			w.Violate("C16:not-on-console", fmt.Sprintf("after Destroy a log call produced %d console chunks", len(got)), cs)
		}
		if ok {
			w.Distinct(fmt.Sprintf("parked|handle=%v", viaHandle))
		}
	}
	w.Sample(map[string]any{"kind": "parked", "what": "101 items behind a stalled appender, a 102nd call parked on the channel, then Destroy, then the appender is released"})
}
