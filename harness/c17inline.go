package main

// C17, worker kind "inline": the expression parser as the library itself uses it - a 'name!' entry of the configuration map
// handed to Refresh. The expressions name the library's OWN plugin types (File, Console, TextLayout, JSONLayout), are spelled
// with white space in every place the grammar allows it (also INSIDE dotted and indexed paths), with nested and dotted forms
// of the same attribute, trailing commas, and string literals that contain raw line breaks, tabs and escapes. The oracle is
// the generator's own knowledge of what it wrote: after Refresh the appender built from the expression has exactly these
// attribute values, and an event logged through it lands in exactly that file, in that layout.

import (
	"context"
	"fmt"
	"os"
	"path/filepath"
	"strings"

	log "github.com/go-spring/log"
)

func c17Inline(w *W) {
	tag := log.RegisterTag("c17in")
	r := w.Rng()
	base := filepath.Join(w.Spec.Dir, w.Spec.Name+".in")
	_ = os.RemoveAll(base)
	_ = os.MkdirAll(base, 0o755)
	defer os.RemoveAll(base)
	ws := func(mode int) string {
		switch mode {
		case 0:
			return ""
		case 1:
			return " "
		}
		s := ""
		for k := r.IntN(4); k > 0; k-- {
			s += string(" \t\r\n"[r.IntN(4)])
		}
		return s
	}
	quote := func(v string, esc bool) string {
		// a string literal for v: raw characters where the lexer admits them, escapes otherwise (or always, if esc)
		var sb strings.Builder
		sb.WriteByte('"')
		for _, c := range []byte(v) {
			switch {
			case c == '"' || c == '\\':
				sb.WriteByte('\\')
				sb.WriteByte(c)
			case c == '\n' && esc:
				sb.WriteString(`\n`)
			case c == '\t' && esc:
				sb.WriteString(`\t`)
			default:
				sb.WriteByte(c)
			}
		}
		sb.WriteByte('"')
		return sb.String()
	}
	n := int(w.Spec.N)
	for i := 0; i < n; i++ {
		mode := i % 3
		dir := filepath.Join(base, fmt.Sprintf("d%d", i))
		_ = os.MkdirAll(dir, 0o755)
		name := []string{"plain.log", "with space.log", "two\nlines.log", "tab\there.log", "q\"uote.log", "back\\slash.log", "ünï.log", "a  b\n   c.log"}[r.IntN(8)]
		layout := []string{"TextLayout", "JSONLayout"}[r.IntN(2)]
		width := []int{0, 7, 48, 200}[r.IntN(4)]
		dot := func(a, b string) string { return a + ws(mode) + "." + ws(mode) + b }
		var fields []string
		fields = append(fields, "fileDir"+ws(mode)+"="+ws(mode)+quote(dir, false))
		fields = append(fields, "fileName"+ws(mode)+"="+ws(mode)+quote(name, r.IntN(2) == 0))
		switch r.IntN(3) {
		case 0: // dotted paths
			fields = append(fields, dot("layout", "type")+ws(mode)+"="+ws(mode)+layout)
			fields = append(fields, dot("layout", "fileLineLength")+ws(mode)+"="+ws(mode)+fmt.Sprint(width))
		case 1: // nested block
			fields = append(fields, "layout"+ws(mode)+"="+ws(mode)+layout+ws(mode)+"{"+ws(mode)+"fileLineLength"+ws(mode)+"="+ws(mode)+fmt.Sprint(width)+ws(mode)+"}")
		default: // nested block, then a dotted assignment that overrides the width (later assignments win)
			fields = append(fields, "layout"+ws(mode)+"="+ws(mode)+layout+ws(mode)+"{"+ws(mode)+"fileLineLength"+ws(mode)+"="+ws(mode)+"3"+ws(mode)+"}")
			fields = append(fields, dot("layout", "fileLineLength")+ws(mode)+"="+ws(mode)+fmt.Sprint(width))
		}
		r.Shuffle(2, func(a, b int) { fields[a], fields[b] = fields[b], fields[a] })
		text := ws(mode) + "File" + ws(mode) + "{" + ws(mode) + strings.Join(fields, ws(mode)+","+ws(mode)) + ws(mode)
		if r.IntN(3) == 0 {
			text += "," + ws(mode)
		}
		text += "}" + ws(mode)
		cfg := map[string]string{"appender.x!": text, "logger.lg.type": "Logger", "logger.lg.tags": "c17in", "logger.lg.appenderRef.ref": "x"}
		cs := map[string]any{"expression": text, "mode": "inline", "expected": map[string]any{"fileDir": dir, "fileName": name, "layout": layout, "fileLineLength": width}}
		w.Journal("inline %q", text)
		w.Eval(1)
		var err error
		if pv, _ := catch(func() { err = log.Refresh(cfg) }); pv != nil {
			w.Violate("C17:panic-escapes", fmt.Sprintf("Refresh with the inline expression %q panicked: %v", trunc(text, 300), pv), cs)
			log.Destroy()
			continue
		}
		if err != nil {
			w.Violate("C17:wellformed-rejected:inline", fmt.Sprintf("Refresh refused a well-formed inline expression %q: %v", trunc(text, 300), trunc(err.Error(), 300)), cs)
			log.Destroy()
			continue
		}
		var fa *log.FileAppender
		_, aps := log.VerifGlobals()
		for _, a := range aps {
			if x, ok := a.(*log.FileAppender); ok {
				fa = x
			}
		}
		id := fmt.Sprintf("id-in%d-%d", w.Spec.Shard, i)
		log.Info(context.Background(), tag, log.Msg(id))
		log.Destroy()
		bad := ""
		switch {
		case fa == nil:
			bad = "no File appender was built from the expression"
		case fa.FileDir != dir || fa.FileName != name:
			bad = fmt.Sprintf("the appender has fileDir=%q fileName=%q", fa.FileDir, fa.FileName)
		default:
			gotLayout, gotWidth := "?", -1
			switch l := fa.Layout.(type) {
			case *log.TextLayout:
				gotLayout, gotWidth = "TextLayout", l.FileLineLength
			case *log.JSONLayout:
				gotLayout, gotWidth = "JSONLayout", l.FileLineLength
			}
			if gotLayout != layout || gotWidth != width {
				bad = fmt.Sprintf("the appender's layout is %s with fileLineLength=%d", gotLayout, gotWidth)
			}
		}
		if bad == "" {
			data, rerr := os.ReadFile(filepath.Join(dir, name))
			if rerr != nil || !strings.Contains(string(data), id) || (layout == "JSONLayout") != strings.HasPrefix(string(data), "{") {
				bad = fmt.Sprintf("the event logged through it is not in %q in the %s format (read error: %v, content %q)", filepath.Join(dir, name), layout, rerr, trunc(string(data), 200))
			}
		}
		_ = os.RemoveAll(dir)
		if bad != "" {
			w.Violate("C17:map-mismatch:inline", fmt.Sprintf("inline expression %q (expected fileDir=%q fileName=%q layout=%s fileLineLength=%d): %s", trunc(text, 400), dir, name, layout, width, bad), cs)
			continue
		}
		w.Distinct(fmt.Sprintf("inline|ws=%d|%s|w%d|name=%d", mode, layout, width, len(name)))
	}
	w.Count("inline_expressions_through_refresh", int64(n))
}
