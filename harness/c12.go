package main

// C12 — raw Write reaches every appender of the named logger verbatim.

import (
	"bytes"
	"fmt"
	"hash/crc32"
	"math/rand/v2"
	"os"
	"path/filepath"
	"strconv"
	"strings"
	"sync"

	log "github.com/go-spring/log"
)

type c12lg struct {
	Kind   string   `json:"kind"` // sync, async, console, file, rolling, rolling-async, rolling-sep
	Sinks  []string `json:"sinks"`
	Levels []string `json:"ref_levels"`
	Slow   bool     `json:"slow"`
	Buf    int      `json:"buf"`
}

type c12snap struct {
	n   int
	crc uint32
}

func c12payload(r *rand.Rand, id string, buf []byte) []byte {
	var body int
	switch x := r.IntN(100); {
	case x < 10:
		body = 0
	case x < 25:
		body = 1
	case x < 80:
		body = r.IntN(300)
	case x < 98:
		body = 1000 + r.IntN(20000)
	default:
		body = 1 << 20
	}
	if r.IntN(8) == 0 {
		// whole payload lengths around powers of two (64 B .. 128 KiB, +-9): chunk, page and pipe-buffer sizes
		total := (1 << (6 + r.IntN(12))) + r.IntN(19) - 9
		body = total - len(id) - 3
		for k := 0; k < 3 && body > 0; k++ {
			body = total - len(fmt.Sprintf("%s|%d|", id, body))
		}
		if body < 0 {
			body = 0
		}
	}
	hdr := fmt.Sprintf("%s|%d|", id, body)
	buf = append(buf[:0], hdr...)
	mode := r.IntN(3)
	for i := 0; i < body; i++ {
		switch mode {
		case 0:
			buf = append(buf, byte(r.IntN(256))) // binary incl. NUL and newlines
		case 1:
			buf = append(buf, "line\n"[i%5])
		default:
			buf = append(buf, byte('a'+i%26))
		}
	}
	if body > 0 {
		buf[len(buf)-1] = '\n'
	}
	return buf
}

// parsePayloads splits a byte stream made of payloads "id|len|body" back into items (id -> snapshot list in order).
func parsePayloads(b []byte) ([]string, map[string][]c12snap, string) {
	var order []string
	m := map[string][]c12snap{}
	for len(b) > 0 {
		if !bytes.HasPrefix(b, []byte("id-")) {
			return order, m, fmt.Sprintf("stream desynchronised at %q", trunc(string(b), 60))
		}
		i := bytes.IndexByte(b, '|')
		if i < 0 {
			return order, m, "truncated header"
		}
		j := bytes.IndexByte(b[i+1:], '|')
		if j < 0 {
			return order, m, "truncated header"
		}
		n, err := strconv.Atoi(string(b[i+1 : i+1+j]))
		if err != nil {
			return order, m, "bad length in header"
		}
		end := i + 1 + j + 1 + n
		if end > len(b) {
			return order, m, "truncated payload body"
		}
		id := string(b[:i])
		order = append(order, id)
		m[id] = append(m[id], c12snap{end, crc32.ChecksumIEEE(b[:end])})
		b = b[end:]
	}
	return order, m, ""
}

func c12Worker(w *W) {
	registerMonitorPlugins()
	console := &chunkSink{}
	log.Stdout = console
	if w.Spec.Kind == "overflow" {
		c12OverflowWorker(w)
		return
	}
	if w.Spec.Kind == "builtinfile" {
		asyncBuiltinFile(w, "C12")
		return
	}
	if w.Spec.Kind == "missing" {
		// a requested name that no configuration defines: Refresh must fail
		// (other workers of this kind ask for names that are paths INSIDE a configured logger - "other.tags",
		// "root.appenderRef", "other.type": a key below a logger is not a logger)
		missing := w.Arg("name", "nosuchlogger")
		h := log.GetLogger(missing)
		_ = h
		for i, cfg := range []map[string]string{
			{"appender.a.type": "VRec", "logger.other.type": "Logger", "logger.other.tags": "c12unused", "logger.other.appenderRef.ref": "a"},
			{"appender.a.type": "VRec"},
			{"appender.a.type": "Console", "logger.root.type": "Logger", "logger.root.appenderRef.ref": "a"},
		} {
			var err error
			pv, _ := catch(func() { err = log.Refresh(cfg) })
			w.Eval(1)
			if pv != nil {
				w.Violate("C12:missing-name-panic", fmt.Sprintf("Refresh panicked: %v", pv), cfg)
			} else if err == nil {
				w.Violate("C12:missing-name-accepted", "Refresh succeeded although the requested logger name '"+missing+"' is not configured", cfg)
			} else {
				w.Distinct(fmt.Sprintf("missing-name|%s|cfg%d", missing, i))
			}
			log.Destroy()
		}
		// and before any successful Refresh the handle must still be usable (built-in logger)
		if pv, _ := catch(func() { _, _ = h.Write([]byte("id-m0x0-1|0|")) }); pv != nil {
			w.Violate("C12:unbound-handle-panic", fmt.Sprintf("unbound handle panicked: %v", pv), nil)
		}
		w.Sample(map[string]any{"case": "handle '" + missing + "' requested, three configurations without it"})
		return
	}
	names := []string{"w1", "w2", "w3", "root"}
	handles := map[string]*log.LoggerWrapper{}
	for _, n := range names {
		h1, h2 := log.GetLogger(n), log.GetLogger(n)
		if h1 != h2 || h1 == nil {
			w.Violate("C12:handle-not-same", "GetLogger("+n+") twice returned different handles", nil)
		}
		handles[n] = h1
	}
	dir := filepath.Join(w.Spec.Dir, w.Spec.Name+".d")
	defer os.RemoveAll(dir)
	n := int(w.Spec.N)
	race := w.Spec.Flavour == "race"
	for ci := 0; ci < n; ci++ {
		r := newRng(w.Spec.Seed, uint64(w.Spec.Shard)*1_000_003+uint64(ci)+12)
		_ = os.RemoveAll(dir)
		_ = os.MkdirAll(dir, 0755)
		cfg := map[string]string{"appender.unused.type": "Discard"}
		lgs := map[string]*c12lg{}
		for _, name := range names {
			if name == "root" && r.IntN(2) == 0 {
				lgs[name] = &c12lg{Kind: "builtin-console", Sinks: []string{"console"}}
				continue
			}
			lg := &c12lg{Kind: []string{"sync", "sync", "async", "async", "console", "file", "rolling", "rolling-async", "rolling-sep"}[r.IntN(9)]}
			p := "logger." + name + "."
			if name != "root" {
				cfg[p+"tags"] = "c12unused" + name
			}
			switch lg.Kind {
			case "sync", "async":
				cfg[p+"type"] = "Logger"
				if lg.Kind == "async" {
					cfg[p+"type"] = "AsyncLogger"
					cfg[p+"bufferFullPolicy"] = "Block"
					lg.Buf = []int{100, 1000}[r.IntN(2)]
					cfg[p+"bufferSize"] = fmt.Sprint(lg.Buf)
					lg.Slow = r.IntN(2) == 0
				}
				if r.IntN(4) == 0 {
					cfg[p+"layout.type"] = "JSONLayout" // irrelevant for raw writes
				}
				k := 1 + r.IntN(3)
				for i := 0; i < k; i++ {
					s := fmt.Sprintf("s%s%d", name, i)
					lg.Sinks = append(lg.Sinks, s)
					lv := []string{"", "ERROR", "INFO~WARN", "fatal", "", "MAX", "warn~warn", "ERROR~INFO"}[r.IntN(8)]
					lg.Levels = append(lg.Levels, lv)
					cfg["appender."+s+".type"] = "VRec"
					if r.IntN(4) == 0 {
						cfg["appender."+s+".type"] = "VTap" // a user appender that embeds the library's DiscardAppender and overrides Write
					}
					if lg.Slow && i == 0 {
						cfg["appender."+s+".type"] = "VSlow"
						cfg["appender."+s+".delayUs"] = "40"
					}
					cfg[p+fmt.Sprintf("appenderRef[%d].ref", i)] = s
					cfg[p+fmt.Sprintf("appenderRef[%d].level", i)] = lv
				}
			case "console":
				cfg[p+"type"] = "Console"
				lg.Sinks = []string{"console"}
			case "file":
				cfg[p+"type"], cfg[p+"fileDir"], cfg[p+"fileName"] = "File", dir, name+".log"
				lg.Sinks = []string{"file:" + name + ".log"}
			case "rolling", "rolling-async", "rolling-sep":
				cfg[p+"type"], cfg[p+"fileDir"], cfg[p+"fileName"], cfg[p+"rotation"] = "RollingFile", dir, name+".log", "h"
				lg.Sinks = []string{"roll:" + name + ".log."}
				if lg.Kind == "rolling-async" {
					cfg[p+"async"], cfg[p+"bufferFullPolicy"] = "true", "Block"
				}
				if lg.Kind == "rolling-sep" {
					cfg[p+"separate"] = "true"
					lg.Sinks = append(lg.Sinks, "roll:"+name+".log.wf.")
				}
			}
			lgs[name] = lg
		}
		cs := map[string]any{"index": ci, "loggers": lgs, "config": cfg}
		w.Journal("C12 case %d %v", ci, cfg)
		rec.take()
		console.take()
		if err := log.Refresh(cfg); err != nil {
			w.Violate("C12:refresh-failed", "Refresh of a well-formed configuration failed: "+trunc(err.Error(), 400), cs)
			log.Destroy()
			continue
		}
		// writers
		W := []int{1, 2, 4, 8}[r.IntN(4)]
		per := 60 + r.IntN(200)
		if race {
			per = 30 + r.IntN(60)
		}
		type sent struct {
			name string
			id   string
			snap c12snap
		}
		sents := make([][]sent, W)
		var wg sync.WaitGroup
		var retBad sync.Map
		var zeroMu sync.Mutex
		zeroSent := map[string]int{} // handle name -> zero-length writes
		for wi := 0; wi < W; wi++ {
			wg.Add(1)
			wr := newRng(w.Spec.Seed, uint64(w.Spec.Shard)*7_000_003+uint64(ci)*97+uint64(wi))
			go func(wi int) {
				defer wg.Done()
				buf := make([]byte, 0, 4096) // ONE buffer per writer, overwritten right after every Write returns
				big := 0
				for i := 0; i < per; i++ {
					name := names[wr.IntN(len(names))]
					if i%17 == 5 {
						// a zero-length payload (nil or empty, e.g. what fmt.Fprint(w) produces): one more write like any other -
						// reported as (0, nil) and handed to every appender of the logger once
						var zb []byte
						if i%2 == 0 {
							zb = buf[:0]
						}
						nn, err := handles[name].Write(zb)
						if nn != 0 || err != nil {
							retBad.Store(fmt.Sprintf("zero-length write %d of writer %d", i, wi), fmt.Sprintf("Write returned (%d,%v) for 0 bytes", nn, err))
						}
						zeroMu.Lock()
						zeroSent[name]++
						zeroMu.Unlock()
					}
					id := fmt.Sprintf("id-w%dx%d-%d", wi, ci, i)
					buf = c12payload(wr, id, buf)
					if len(buf) > 1<<19 {
						big++
						if big > 1 {
							buf = buf[:len(id)+3]
							copy(buf, id+"|0|")
						}
					}
					snap := c12snap{len(buf), crc32.ChecksumIEEE(buf)}
					nn, err := handles[name].Write(buf)
					if nn != len(buf) || err != nil {
						retBad.Store(id, fmt.Sprintf("Write returned (%d,%v) for %d bytes", nn, err, len(buf)))
					}
					sents[wi] = append(sents[wi], sent{name, id, snap})
					// the io.Writer contract lets the caller reuse the buffer now
					for k := range buf {
						buf[k] = 'Z'
					}
				}
			}(wi)
		}
		wg.Wait()
		if pv, st := catch(log.Destroy); pv != nil {
			w.Violate("C12:destroy-panic", fmt.Sprintf("Destroy panicked: %v\n%s", pv, trunc(st, 800)), cs)
			continue
		}
		bad := false
		retBad.Range(func(k, v any) bool {
			bad = true
			w.Violate("C12:write-result", fmt.Sprintf("%v: %v", k, v), cs)
			return false
		})
		// observed per sink: ordered ids + snapshots
		type sinkObs struct {
			order []string
			snaps map[string][]c12snap
		}
		obs := map[string]*sinkObs{}
		get := func(s string) *sinkObs {
			o := obs[s]
			if o == nil {
				o = &sinkObs{snaps: map[string][]c12snap{}}
				obs[s] = o
			}
			return o
		}
		for _, it := range rec.take() {
			o := get(it.Sink)
			id := idOf(it.JSON)
			o.order = append(o.order, id)
			o.snaps[id] = append(o.snaps[id], c12snap{len(it.JSON), crc32.ChecksumIEEE(it.JSON)})
		}
		for _, ch := range console.take() {
			o := get("console")
			id := idOf(ch)
			o.order = append(o.order, id)
			o.snaps[id] = append(o.snaps[id], c12snap{len(ch), crc32.ChecksumIEEE(ch)})
		}
		ents, _ := os.ReadDir(dir)
		for _, e := range ents {
			b, _ := os.ReadFile(filepath.Join(dir, e.Name()))
			key := "file:" + e.Name()
			if i := strings.LastIndex(e.Name(), "."); i > 0 && len(e.Name())-i-1 == 14 {
				key = "roll:" + e.Name()[:i+1]
			}
			o := get(key)
			order, snaps, perr := parsePayloads(b)
			if perr != "" {
				bad = true
				w.Violate("C12:altered:file", fmt.Sprintf("file %s: %s", e.Name(), perr), cs)
			}
			o.order = append(o.order, order...)
			for k, v := range snaps {
				o.snaps[k] = append(o.snaps[k], v...)
			}
		}
		// expectations per sink
		expected := map[string]map[string]c12snap{} // sink -> id -> snapshot
		expOrder := map[string]map[int][]string{}   // sink -> writer -> ids in call order
		for wi := range sents {
			for _, s := range sents[wi] {
				for _, sk := range lgs[s.name].Sinks {
					if expected[sk] == nil {
						expected[sk] = map[string]c12snap{}
						expOrder[sk] = map[int][]string{}
					}
					expected[sk][s.id] = s.snap
					expOrder[sk][wi] = append(expOrder[sk][wi], s.id)
				}
			}
		}
		for sk, exp := range expected {
			o := get(sk)
			kindOf := "recording-appender"
			if strings.Contains(sk, ":") || sk == "console" {
				kindOf = strings.SplitN(sk, ":", 2)[0]
			}
			for id, snap := range exp {
				g := o.snaps[id]
				switch {
				case len(g) == 0:
					bad = true
					lvl := ""
					for nm, lg := range lgs {
						for i, s := range lg.Sinks {
							if s == sk && i < len(lg.Levels) {
								lvl = fmt.Sprintf(" (logger %s, reference level %q)", nm, lg.Levels[i])
							}
						}
					}
					w.Violate("C12:missing:"+kindOf, fmt.Sprintf("payload %s never reached appender %s%s", id, sk, lvl), cs)
				case len(g) > 1:
					bad = true
					w.Violate("C12:duplicate:"+kindOf, fmt.Sprintf("payload %s reached %s %d times", id, sk, len(g)), cs)
				case g[0] != snap:
					bad = true
					w.Violate("C12:altered:"+kindOf, fmt.Sprintf("payload %s at %s has %d bytes crc %08x, at call time it had %d bytes crc %08x (bytes must be those present at the time of the call)", id, sk, g[0].n, g[0].crc, snap.n, snap.crc), cs)
				}
				if bad {
					break
				}
			}
			for id := range o.snaps {
				if _, ok := exp[id]; !ok && id != "" {
					bad = true
					w.Violate("C12:unexpected:"+kindOf, fmt.Sprintf("payload %s reached %s, which does not belong to the logger it was written to", id, sk), cs)
					break
				}
			}
			// per-writer call order
			posIn := map[string]int{}
			for i, id := range o.order {
				posIn[id] = i
			}
			for wi, ids := range expOrder[sk] {
				last := -1
				for _, id := range ids {
					if p, ok := posIn[id]; ok {
						if p < last {
							bad = true
							w.Violate("C12:order:"+kindOf, fmt.Sprintf("writer %d: payload %s was delivered to %s before an earlier write", wi, id, sk), cs)
							break
						}
						last = p
					}
				}
			}
			if kindOf == "recording-appender" {
				zExp := 0
				for nm, lg := range lgs {
					for _, s2 := range lg.Sinks {
						if s2 == sk {
							zExp += zeroSent[nm]
						}
					}
				}
				zGot := 0
				for _, sn := range o.snaps[""] {
					if sn.n == 0 {
						zGot++
					}
				}
				if zGot != zExp && !bad {
					bad = true
					w.Violate("C12:zero-length:"+kindOf, fmt.Sprintf("%d zero-length payloads were written to the logger(s) of appender %s, the appender received %d zero-length Write calls", zExp, sk, zGot), cs)
				}
				w.Count("zero_length_deliveries_checked", int64(zExp))
			}
			w.Count("payload_deliveries_checked", int64(len(exp)))
		}
		w.Eval(1)
		if !bad {
			var ks []string
			for _, nme := range names {
				ks = append(ks, lgs[nme].Kind+fmt.Sprint(len(lgs[nme].Sinks)))
			}
			w.Distinct(fmt.Sprintf("%s|W%d", strings.Join(ks, ","), W))
			if ci == 0 {
				w.Sample(map[string]any{"loggers": lgs, "writers": W, "writes_per_writer": per})
			}
		}
	}
}

func init() {
	register(&Prop{
		ID: "C12", Level: "exploration", MinDistinct: 20, Worker: c12Worker,
		Rule: "four named handles (obtained twice each before any Refresh) are bound by generated configurations to sync loggers, async loggers (Block, buffer 100/1000, optionally behind a slow appender) with 1-3 recording appenders whose references carry level settings \"\", ERROR, INFO~WARN, fatal, MAX, warn~warn (empty), ERROR~INFO (inverted), to Console/File/RollingFile logger kinds (sync, async, separate) or to the built-in root; " +
			"1-8 concurrent writers each own ONE buffer, fill it with a self-describing payload (empty body, 1 B, binary with NUL/newlines, multi-line, whole lengths within 9 bytes of every power of two from 64 B to 128 KiB, up to 1 MiB), snapshot length+CRC, call Write and overwrite the buffer with 'Z' immediately after Write returns. Oracle after Destroy: every appender of the addressed logger holds every payload exactly once with the snapshot taken at call time, per-writer call order preserved, Write returned (len,nil); nothing arrives elsewhere. " +
			"A separate process checks that Refresh fails when a requested name is not configured. The race build repeats the runs (harness overwrite vs library read is a library race). Non-trivial/distinct = distinct (logger kinds and sink counts of the four handles, writers) tuples that matched.",
		Assumptions: []string{"payload streams in files are parsed by their self-describing headers (each raw write is one O_APPEND write)"},
		Run: func(d *D) {
			var specs []Spec
			for i := 0; i < 10; i++ {
				s := d.NewSpec("write", fmt.Sprintf("wr-%d", i), i, 16)
				s.N = d.Pick(20, 400)
				s.TimeoutS = int(d.Pick(300, 1200))
				specs = append(specs, s)
			}
			for i := 0; i < 4; i++ {
				s := d.NewSpec("write", fmt.Sprintf("wr-race-%d", i), 50+i, 16)
				s.N = d.Pick(8, 120)
				s.Flavour = "race"
				s.TimeoutS = int(d.Pick(300, 1200))
				specs = append(specs, s)
			}
			specs = append(specs, d.NewSpec("missing", "missing", 0, 1))
			specs = append(specs, d.NewSpec("builtinfile", "builtinfile", 90, 16))
			for i, nm := range []string{"other.tags", "root.appenderRef", "other.type", "other.appenderRef.ref", "Other", "root.", "appender.a"} {
				ms := d.NewSpec("missing", fmt.Sprintf("missing-%d", i), 0, 1)
				ms.Args["name"] = nm
				specs = append(specs, ms)
			}
			// discard policies: whatever is delivered after a queue overflow is still verbatim, at most once, in call order
			for i := 0; i < int(d.Pick(3, 8)); i++ {
				s := d.NewSpec("overflow", fmt.Sprintf("ovf-%d", i), 70+i, 16)
				s.N = d.Pick(2, 10)
				if i == 2 {
					s.Flavour = "race"
				}
				s.TimeoutS = int(d.Pick(300, 1200))
				specs = append(specs, s)
			}
			specs = d.WithRuntimeVariants(specs, int(d.Pick(3, 1)), func(s Spec) bool { return s.Kind == "write" })
			outs := d.RunWorkers(specs, 16)
			d.raceVerdict(outs)
		},
	})
}
