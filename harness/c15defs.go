package main

// C15, third worker kind "defs": element shapes and plugin definitions that the built-in plugins do not have
// (explicitly typed single/list elements, interface-typed single elements, list written in single form, nullable
// elements, definitions whose tags are incomplete or whose field types the injector does not support), plus the
// global properties (bufferCap, enableCaller, fastCaller). Found with cover.sh: these branches of plugin.go /
// plugin_layout.go were reached by no workload.
//
// Judged: configurations over well-formed definitions resolve as declared (values read back from the instance that
// Start published) or are rejected with an error when they carry a classified error; configurations that instantiate
// an ill-defined plugin type can only be rejected, never panic. Plugin types registered under an element type whose
// Go type does not fit the consuming field (a mis-registration, not a configuration) are not generated.

import (
	"fmt"
	"math/rand/v2"
	"regexp"
	"strconv"
	"strings"

	log "github.com/go-spring/log"
)

type DItf interface{ dItem() }

type DItem struct {
	V int    `PluginAttribute:"v,default=1"`
	S string `PluginAttribute:"s,default=item"`
}

func (*DItem) dItem() {}

type DItemB struct {
	W int16 `PluginAttribute:"w,default=2"`
}

func (*DItemB) dItem() {}

type dBase struct{ log.AppenderBase }

func (a *dBase) Stop()               {}
func (a *dBase) Append(e *log.Event) {}
func (a *dBase) Write(b []byte)      {}

// well-formed: an interface-typed single element (nullable / with default), a list with default, a nullable list
type DElems struct {
	dBase
	One  DItf     `PluginElement:"DThing?"`
	Def  DItf     `PluginElement:"DThing2,default=DItemB"`
	Many []*DItem `PluginElement:"DList?"`
	Dfl  []*DItem `PluginElement:"DList2,default=DItem; DItem ;;DItem"`
}

var dPublished *DElems

func (a *DElems) Start() error { dPublished = a; return nil }

// ill-defined plugin types (each can only be rejected)
type DNoAttrName struct {
	dBase
	X string `PluginAttribute:""`
}
type DAttrSlice struct {
	dBase
	X []string `PluginAttribute:"x,default=a"`
}
type DAttrChan struct {
	dBase
	X chan int `PluginAttribute:"x,default=1"`
}
type DAttrStruct struct {
	dBase
	X struct{ A int } `PluginAttribute:"x,default=1"`
}
type DAttrPtr struct {
	dBase
	X *int `PluginAttribute:"x,default=1"`
}
type DAttrComplex struct {
	dBase
	X complex128 `PluginAttribute:"x,default=1"`
}
type DNoElemName struct {
	dBase
	L log.Layout `PluginElement:""`
}
type DElemMap struct {
	dBase
	L map[string]log.Layout `PluginElement:"Layout,default=TextLayout"`
}
type DElemPtr struct {
	dBase
	L *DItem `PluginElement:"DList?"`
}
type DElemInt struct {
	dBase
	L int `PluginElement:"DList,default=DItem"`
}
type DEmptyDefault struct {
	dBase
	Items []*DItem `PluginElement:"DList,default= ; "`
}
type DGhostElem struct {
	dBase
	G log.Layout `PluginElement:"Ghost,default=Nobody"`
}
type DGhostList struct {
	dBase
	G []*DItem `PluginElement:"Ghost,default=Nobody;Nobody"`
}

func (a *DNoAttrName) Start() error   { return nil }
func (a *DAttrSlice) Start() error    { return nil }
func (a *DAttrChan) Start() error     { return nil }
func (a *DAttrStruct) Start() error   { return nil }
func (a *DAttrPtr) Start() error      { return nil }
func (a *DAttrComplex) Start() error  { return nil }
func (a *DNoElemName) Start() error   { return nil }
func (a *DElemMap) Start() error      { return nil }
func (a *DElemPtr) Start() error      { return nil }
func (a *DElemInt) Start() error      { return nil }
func (a *DEmptyDefault) Start() error { return nil }
func (a *DGhostElem) Start() error    { return nil }
func (a *DGhostList) Start() error    { return nil }

var c15illDefined = []string{"DNoAttrName", "DAttrSlice", "DAttrChan", "DAttrStruct", "DAttrPtr", "DAttrComplex", "DNoElemName", "DElemMap", "DElemPtr", "DElemInt", "DEmptyDefault", "DGhostElem", "DGhostList"}

var c15defsOnce bool

func c15defsRegister() {
	if c15defsOnce {
		return
	}
	c15defsOnce = true
	log.RegisterPlugin[DItem]("DItem", log.PluginType("dThing"))
	log.RegisterPlugin[DItemB]("DItemB", log.PluginType("dThing"))
	log.RegisterPlugin[DItem]("DItem", log.PluginType("dThing2"))
	log.RegisterPlugin[DItemB]("DItemB", log.PluginType("dThing2"))
	log.RegisterPlugin[DItem]("DItem", log.PluginType("dList"))
	log.RegisterPlugin[DItem]("DList", log.PluginType("dList")) // the element type's own name: used when an entry carries no type
	log.RegisterPlugin[DItem]("DItem", log.PluginType("dList2"))
	log.RegisterPlugin[DItem]("DList2", log.PluginType("dList2"))
	log.RegisterPlugin[DElems]("DElems", log.PluginTypeAppender)
	log.RegisterPlugin[DNoAttrName]("DNoAttrName", log.PluginTypeAppender)
	log.RegisterPlugin[DAttrSlice]("DAttrSlice", log.PluginTypeAppender)
	log.RegisterPlugin[DAttrChan]("DAttrChan", log.PluginTypeAppender)
	log.RegisterPlugin[DAttrStruct]("DAttrStruct", log.PluginTypeAppender)
	log.RegisterPlugin[DAttrPtr]("DAttrPtr", log.PluginTypeAppender)
	log.RegisterPlugin[DAttrComplex]("DAttrComplex", log.PluginTypeAppender)
	log.RegisterPlugin[DNoElemName]("DNoElemName", log.PluginTypeAppender)
	log.RegisterPlugin[DElemMap]("DElemMap", log.PluginTypeAppender)
	log.RegisterPlugin[DElemPtr]("DElemPtr", log.PluginTypeAppender)
	log.RegisterPlugin[DElemInt]("DElemInt", log.PluginTypeAppender)
	log.RegisterPlugin[DEmptyDefault]("DEmptyDefault", log.PluginTypeAppender)
	log.RegisterPlugin[DGhostElem]("DGhostElem", log.PluginTypeAppender)
	log.RegisterPlugin[DGhostList]("DGhostList", log.PluginTypeAppender)
}

// expected shape of a DElems instance
type dExp struct {
	one  string // "", "DItem:<v>:<s>", "DItemB:<w>"
	def  string
	many []string
	dfl  []string
}

func dDescribe(x DItf) string {
	switch t := x.(type) {
	case nil:
		return ""
	case *DItem:
		if t == nil {
			return ""
		}
		return fmt.Sprintf("DItem:%d:%s", t.V, t.S)
	case *DItemB:
		if t == nil {
			return ""
		}
		return fmt.Sprintf("DItemB:%d", t.W)
	}
	return fmt.Sprintf("?%T", x)
}

var c15sizeRe = regexp.MustCompile(`^(\d+)\s*([A-Za-z]*)$`)

// c15defsWorker runs N generated cases.
func c15defsWorker(w *W) {
	c15register()
	c15defsRegister()
	sink := &chunkSink{}
	log.Stdout = sink
	n := int(w.Spec.N)
	for ci := 0; ci < n; ci++ {
		r := newRng(w.Spec.Seed, uint64(w.Spec.Shard)*1_000_003+uint64(ci)+1515)
		m := map[string]string{"logger.root.type": "Logger", "logger.root.appenderRef.ref": "a"}
		// one spelling per element name and case (conflicting duplicate spellings of one key are not generated)
		spelled := map[string]string{}
		sp := func(k string) string {
			if _, ok := spelled[k]; !ok {
				spelled[k] = c15spell(r, k)
			}
			return spelled[k]
		}
		class := ""  // "" = must be accepted
		detail := "" // what was generated
		exp := dExp{def: "DItemB:2", dfl: []string{"DItem:1:item", "DItem:1:item", "DItem:1:item"}}
		propKey, propVal := "", ""
		switch k := r.IntN(10); {
		case k < 5:
			// well-formed definitions: every element shape, optionally one classified error
			m["appender.a.type"] = "DElems"
			errAt := -1
			if r.IntN(3) == 0 {
				errAt = r.IntN(4)
			}
			// One: nullable interface-typed single element; needs an explicit type when present
			switch r.IntN(4) {
			case 0:
			case 1:
				v := r.IntN(1000)
				m["appender.a."+sp("dThing")+".type"] = "DItem"
				m["appender.a."+sp("dThing")+".v"] = strconv.Itoa(v)
				exp.one = fmt.Sprintf("DItem:%d:item", v)
			case 2:
				v := r.IntN(1000) - 500
				m["appender.a."+sp("dThing")+".type"] = "DItemB"
				m["appender.a."+sp("dThing")+".w"] = strconv.Itoa(v)
				exp.one = fmt.Sprintf("DItemB:%d", v)
			case 3:
				if errAt == 0 {
					m["appender.a."+sp("dThing")+".type"] = []string{"Nope", "DElems", "DList", "TextLayout"}[r.IntN(4)]
					class, detail = "unknown-plugin", "single element with an unknown type"
				}
			}
			// Def: single element with a declared default type
			switch r.IntN(3) {
			case 0:
			case 1:
				v := r.IntN(100)
				m["appender.a."+sp("dThing2")+".type"] = "DItem"
				m["appender.a."+sp("dThing2")+".s"] = "q" + strconv.Itoa(v)
				exp.def = fmt.Sprintf("DItem:1:q%d", v)
			case 2:
				// (a sub-tree that carries attributes but no type is not generated: the statement does not say
				// whether the declared default type applies to it)
				v := r.IntN(100)
				m["appender.a."+sp("dThing2")+".type"] = "DItemB"
				m["appender.a."+sp("dThing2")+".w"] = strconv.Itoa(v)
				exp.def = fmt.Sprintf("DItemB:%d", v)
				if errAt == 1 {
					m["appender.a."+sp("dThing2")+".w"] = []string{"40000", "x", "1.5", ""}[r.IntN(4)]
					class, detail = "ill-typed:int16", "element attribute out of width / not a number"
				}
			}
			// Many: nullable list, indexed or single form, entries with or without explicit type
			switch r.IntN(4) {
			case 0:
			case 1:
				cnt := 1 + r.IntN(3)
				for i := 0; i < cnt; i++ {
					v := r.IntN(1000)
					p := fmt.Sprintf("appender.a.%s[%d].", sp("dList"), i)
					m[p+"v"] = strconv.Itoa(v)
					if r.IntN(2) == 0 {
						m[p+"type"] = []string{"DItem", "DList"}[r.IntN(2)]
					}
					exp.many = append(exp.many, fmt.Sprintf("DItem:%d:item", v))
				}
				if errAt == 2 {
					m[fmt.Sprintf("appender.a.%s[%d].type", sp("dList"), r.IntN(cnt))] = []string{"Nope", "DItemB", "DList2"}[r.IntN(3)]
					class, detail = "unknown-plugin", "list entry with an unknown type"
				}
			case 2:
				v := r.IntN(1000)
				m["appender.a."+sp("dList")+".v"] = strconv.Itoa(v)
				exp.many = []string{fmt.Sprintf("DItem:%d:item", v)}
			case 3:
				m["appender.a."+sp("dList")+".type"] = "DItem"
				m["appender.a."+sp("dList")+".s"] = "single"
				exp.many = []string{"DItem:1:single"}
			}
			// Dfl: list with a three-entry default
			switch r.IntN(3) {
			case 0:
			case 1:
				v := r.IntN(1000)
				m["appender.a."+sp("dList2")+"[0].v"] = strconv.Itoa(v)
				exp.dfl = []string{fmt.Sprintf("DItem:%d:item", v)}
				if errAt == 3 {
					m["appender.a."+sp("dList2")+"[0].v"] = []string{"x", "", "1e3", "99999999999999999999"}[r.IntN(4)]
					class, detail = "ill-typed:int", "list entry attribute"
				}
			case 2:
				cnt := 2 + r.IntN(3)
				exp.dfl = nil
				for i := 0; i < cnt; i++ {
					s := "e" + strconv.Itoa(r.IntN(50))
					m[fmt.Sprintf("appender.a.%s[%d].s", sp("dList2"), i)] = s
					exp.dfl = append(exp.dfl, "DItem:1:"+s)
				}
			}
		case k < 8:
			// ill-defined plugin type: the only admissible outcome is an error
			t := c15illDefined[r.IntN(len(c15illDefined))]
			m["appender.a.type"] = t
			if r.IntN(2) == 0 {
				m["appender.a.x"] = []string{"1", "a", ""}[r.IntN(3)]
			}
			if r.IntN(3) == 0 {
				m["appender.a.layout.type"] = "TextLayout"
			}
			class, detail = "ill-defined-plugin", t
		default:
			// global properties
			m["appender.a.type"] = "Discard"
			switch r.IntN(3) {
			case 0:
				propKey = "bufferCap"
				propVal = []string{"1KB", "10KB", "64kb", "2MB", "1mb", "512B", "4096b", "100 KB", "0B", "1 B", "3Kb",
					"", " ", "KB", "abc", "-1KB", "1.5KB", "10XB", "1K", "512", "0x10KB", "1KB2", "9999999999999999999999KB", "\x00", "१KB"}[r.IntN(25)]
			case 1:
				propKey = "enableCaller"
				propVal = []string{"true", "false", "1", "0", "T", "F", "TRUE", "yes", "", "2", "tru", " true", "nil"}[r.IntN(13)]
			default:
				propKey = "fastCaller"
				propVal = []string{"true", "false", "1", "0", "t", "f", "False", "on", "", "-1", "truee", "0x1"}[r.IntN(12)]
			}
			m[sp(propKey)] = propVal
			class, detail = "property", propKey+"="+strconv.Quote(propVal)
		}
		cs := map[string]any{"index": ci, "config": m, "class": class, "detail": detail}
		w.Journal("C15 defs case %d %v", ci, m)
		dPublished = nil
		before := log.BufferCap.Load()
		var err error
		pv, st := catch(func() { err = log.Refresh(m) })
		w.Eval(1)
		switch {
		case pv != nil:
			c := class
			if c == "" {
				c = "valid"
			}
			w.Violate("C15:refresh-panic:defs:"+c, fmt.Sprintf("Refresh panicked (%s %s): %v\n%s", class, detail, pv, trunc(st, 1500)), cs)
		case class == "property":
			// totality for every value; a value of the documented form <digits><B|KB|MB> / a strconv.ParseBool word
			// that is accepted must have taken effect; a value accepted must not leave bufferCap at something else
			if propKey == "bufferCap" && err == nil {
				got := int64(log.BufferCap.Load())
				if mm := c15sizeRe.FindStringSubmatch(propVal); mm != nil {
					nn, e := strconv.ParseInt(mm[1], 10, 64)
					mult := map[string]int64{"B": 1, "KB": 1024, "MB": 1024 * 1024}[strings.ToUpper(mm[2])]
					if e == nil && mult > 0 && nn*mult < 1<<31 && got != nn*mult {
						w.Violate("C15:wrong-value:property:bufferCap", fmt.Sprintf("bufferCap=%q accepted but BufferCap is %d", propVal, got), cs)
					}
				}
			}
			if propKey == "bufferCap" && err != nil && log.BufferCap.Load() != before {
				w.Violate("C15:wrong-value:property:bufferCap", fmt.Sprintf("bufferCap=%q rejected but BufferCap changed from %d to %d", propVal, before, log.BufferCap.Load()), cs)
			}
			if _, e := strconv.ParseBool(propVal); propKey != "bufferCap" && e == nil && err != nil {
				w.Violate("C15:valid-config-rejected:property", fmt.Sprintf("%s=%q rejected: %s", propKey, propVal, trunc(err.Error(), 300)), cs)
			}
			w.Distinct(fmt.Sprintf("defs|prop|%s|%q|err=%v", propKey, propVal, err != nil))
		case class == "" && err != nil:
			w.Violate("C15:valid-config-rejected:elements", fmt.Sprintf("Refresh rejected a well-formed element configuration: %s", trunc(err.Error(), 600)), cs)
		case class != "" && err == nil:
			w.Violate("C15:error-not-reported:"+class, fmt.Sprintf("Refresh returned nil for a configuration with %s (%s)", class, detail), cs)
		case class == "":
			a := dPublished
			if a == nil {
				w.Violate("C15:not-instantiated:DElems", "Refresh returned nil but the appender was never started", cs)
				break
			}
			var many, dfl []string
			for _, x := range a.Many {
				many = append(many, dDescribe(x))
			}
			for _, x := range a.Dfl {
				dfl = append(dfl, dDescribe(x))
			}
			got := fmt.Sprintf("one=%s def=%s many=%v dfl=%v", dDescribe(a.One), dDescribe(a.Def), many, dfl)
			want := fmt.Sprintf("one=%s def=%s many=%v dfl=%v", exp.one, exp.def, exp.many, exp.dfl)
			if got != want {
				w.Violate("C15:wrong-element:defs", fmt.Sprintf("elements injected as %s, configured-else-default is %s", got, want), cs)
			}
			w.Count("plugins_value_checked", 1)
			w.Distinct(fmt.Sprintf("defs|ok|one=%v|def=%s|many=%d|dfl=%d", exp.one != "", strings.SplitN(exp.def, ":", 2)[0], len(exp.many), len(exp.dfl)))
		default:
			w.Count("erroneous_configs_rejected", 1)
			w.Distinct("defs|err|" + class + "|" + strings.SplitN(detail, " ", 2)[0])
		}
		if pv2, st2 := catch(log.Destroy); pv2 != nil {
			w.Violate("C15:destroy-panic", fmt.Sprintf("Destroy panicked: %v\n%s", pv2, trunc(st2, 1200)), cs)
		}
		log.BufferCap.Store(10 * 1024)
		if ci < 1 {
			w.Sample(map[string]any{"config": m, "class": class, "detail": detail})
		}
	}
}

func c15spell(r *rand.Rand, camel string) string {
	switch r.IntN(4) {
	case 0:
		return camel
	case 1: // kebab
		return c15sep(camel, '-')
	case 2: // snake
		return c15sep(camel, '_')
	}
	return strings.ToUpper(camel[:1]) + camel[1:]
}

func c15sep(camel string, sep byte) string {
	var sb strings.Builder
	for i := 0; i < len(camel); i++ {
		c := camel[i]
		if c >= 'A' && c <= 'Z' {
			if i > 0 {
				sb.WriteByte(sep)
			}
			sb.WriteByte(c + 32)
		} else {
			sb.WriteByte(c)
		}
	}
	return sb.String()
}
