package main

// Generator of field lists through every public constructor, together with the expected decoded
// tree (used by C07, C08 and as workload material elsewhere).

import (
	"encoding/json"
	"errors"
	"fmt"
	"math"
	"math/rand/v2"
	"sort"
	"strconv"
	"strings"
	"time"

	log "github.com/go-spring/log"
)

type xkind int

const (
	xNull xkind = iota
	xBool
	xInt   // exact decimal text in s
	xFloat // bits
	xNonFinite
	xStr
	xArr
	xObj
	xErr     // unmarshalable value: any non-empty JSON string
	xReflect // pre-parsed generic tree in raw
)

type xnode struct {
	kind    xkind
	b       bool
	s       string
	bits    uint64
	items   []*xnode
	keys    []string
	vals    []*xnode
	raw     any
	nilOK   bool // a nil slice: [] or null both fine
	strLike bool // text layout shows the token without its quotes at top level
}

type xmember struct {
	key string
	x   *xnode
}

func xs(s string) *xnode { return &xnode{kind: xStr, s: string(expectedDecode(nil, s)), strLike: true} }
func xnull() *xnode      { return &xnode{kind: xNull} }
func xint(v int64) *xnode {
	return &xnode{kind: xInt, s: strconv.FormatInt(v, 10)}
}
func xuint(v uint64) *xnode {
	return &xnode{kind: xInt, s: strconv.FormatUint(v, 10)}
}
func xfloat(v float64) *xnode {
	if math.IsNaN(v) || math.IsInf(v, 0) {
		return &xnode{kind: xNonFinite, bits: math.Float64bits(v), strLike: true}
	}
	return &xnode{kind: xFloat, bits: math.Float64bits(v)}
}

// xreflect computes the expectation for a reflected value from an independent json.Marshal.
func xreflect(v any) *xnode {
	b, err := json.Marshal(v)
	if err != nil {
		return &xnode{kind: xErr, strLike: true}
	}
	tree, perr := strictJSONParse(b)
	if perr != nil {
		panic("harness: json.Marshal produced JSON the strict parser rejects: " + perr.Error() + " " + string(b))
	}
	return &xnode{kind: xReflect, raw: tree}
}

func treeEqual(a, b any) bool {
	switch x := a.(type) {
	case nil:
		return b == nil
	case bool:
		y, ok := b.(bool)
		return ok && x == y
	case jNumber:
		y, ok := b.(jNumber)
		return ok && x == y
	case string:
		y, ok := b.(string)
		return ok && x == y
	case []any:
		y, ok := b.([]any)
		if !ok || len(x) != len(y) {
			return false
		}
		for i := range x {
			if !treeEqual(x[i], y[i]) {
				return false
			}
		}
		return true
	case *jObject:
		y, ok := b.(*jObject)
		if !ok || len(x.Keys) != len(y.Keys) {
			return false
		}
		for i := range x.Keys {
			if x.Keys[i] != y.Keys[i] || !treeEqual(x.Vals[i], y.Vals[i]) {
				return false
			}
		}
		return true
	}
	return false
}

// xcompare checks a decoded value against the expectation; "" = equal.
func xcompare(x *xnode, got any, path string) string {
	switch x.kind {
	case xNull:
		if got != nil {
			return fmt.Sprintf("%s: expected null, got %v", path, got)
		}
	case xBool:
		if g, ok := got.(bool); !ok || g != x.b {
			return fmt.Sprintf("%s: expected %v, got %v", path, x.b, got)
		}
	case xInt:
		if g, ok := got.(jNumber); !ok || string(g) != x.s {
			return fmt.Sprintf("%s: expected integer %s, got %v", path, x.s, got)
		}
	case xFloat:
		g, ok := got.(jNumber)
		if !ok {
			return fmt.Sprintf("%s: expected a number, got %T %v", path, got, got)
		}
		f, err := strconv.ParseFloat(string(g), 64)
		if err != nil || math.Float64bits(f) != x.bits {
			return fmt.Sprintf("%s: expected float bits %016x (%v), got %s", path, x.bits, math.Float64frombits(x.bits), g)
		}
	case xNonFinite:
		g, ok := got.(string)
		if !ok {
			return fmt.Sprintf("%s: non-finite float must be a JSON string, got %T %v", path, got, got)
		}
		f, err := strconv.ParseFloat(g, 64)
		want := math.Float64frombits(x.bits)
		if err != nil || !(math.IsNaN(want) && math.IsNaN(f) || want == f) {
			return fmt.Sprintf("%s: non-finite float %v described as %q", path, want, g)
		}
	case xStr:
		if g, ok := got.(string); !ok || g != x.s {
			return fmt.Sprintf("%s: expected string %q, got %T %q", path, x.s, got, got)
		}
	case xErr:
		if g, ok := got.(string); !ok || g == "" {
			return fmt.Sprintf("%s: unmarshalable value must be a non-empty JSON string, got %T %v", path, got, got)
		}
	case xReflect:
		if !treeEqual(x.raw, got) {
			return fmt.Sprintf("%s: reflected value differs: expected %v got %v", path, x.raw, got)
		}
	case xArr:
		if got == nil && x.nilOK {
			return ""
		}
		g, ok := got.([]any)
		if !ok || len(g) != len(x.items) {
			return fmt.Sprintf("%s: expected array of %d, got %T %v", path, len(x.items), got, got)
		}
		for i := range g {
			if d := xcompare(x.items[i], g[i], fmt.Sprintf("%s[%d]", path, i)); d != "" {
				return d
			}
		}
	case xObj:
		g, ok := got.(*jObject)
		if !ok || len(g.Keys) != len(x.keys) {
			return fmt.Sprintf("%s: expected object with %d members, got %T %v", path, len(x.keys), got, got)
		}
		for i := range g.Keys {
			if g.Keys[i] != x.keys[i] {
				return fmt.Sprintf("%s: member %d key %q, expected %q", path, i, g.Keys[i], x.keys[i])
			}
			if d := xcompare(x.vals[i], g.Vals[i], path+"."+x.keys[i]); d != "" {
				return d
			}
		}
	}
	return ""
}

// ---- values for Reflect ----

type rStruct struct {
	A int               `json:"a"`
	B string            `json:"b"`
	C []float64         `json:"c,omitempty"`
	D map[string]int    `json:"d,omitempty"`
	E *int              `json:"e"`
	F any               `json:"f"`
	G []byte            `json:"g,omitempty"`
	H map[string]string `json:"<h>"`
}
type rMarshaler struct{ js string }

func (m rMarshaler) MarshalJSON() ([]byte, error) { return []byte(m.js), nil }

type rBadMarshaler struct{ msg string }

func (m rBadMarshaler) MarshalJSON() ([]byte, error) {
	if m.msg == "" {
		return nil, errors.New("boom \"quoted\"\nline")
	}
	return nil, errors.New(m.msg)
}

type rNaN struct{ X float64 }

// custom ArrayValue that replays a script of encoder calls
type arrScript struct{ ops []func(enc log.Encoder) }

func (a arrScript) EncodeArray(enc log.Encoder) {
	for _, op := range a.ops {
		op(enc)
	}
}

type fgen struct {
	r      *rand.Rand
	feats  map[string]bool
	budget int
}

func (g *fgen) f(s string) { g.feats[s] = true }

var fgKeys = []string{"k", "key", "msg", "a", "b", "level", "time", "trace_id", "x.y", "", "k k", "ключ", "k\"q", "k\\b", "k\nl", "k\x00", "k\xff", "k ", "K", "a=b", "a||b", "<k>"}

func (g *fgen) key() string {
	r := g.r
	switch r.IntN(10) {
	case 0:
		g.f("key-hostile")
		return g.str()
	case 1, 2:
		k := fgKeys[r.IntN(len(fgKeys))]
		if strings.ContainsAny(k, "\"\\\n\x00\xff") {
			g.f("key-escaped")
		}
		return k
	}
	return fgKeys[r.IntN(8)] + strconv.Itoa(r.IntN(5))
}

func (g *fgen) str() string {
	r := g.r
	switch r.IntN(8) {
	case 0:
		return ""
	case 1:
		g.f("str-bytes")
		b := make([]byte, r.IntN(24))
		for i := range b {
			b[i] = byte(r.IntN(256))
		}
		return string(b)
	case 2:
		g.f("str-boundary")
		b := make([]byte, r.IntN(12))
		for i := range b {
			b[i] = c09boundary[r.IntN(16)]
		}
		return string(b)
	case 3:
		g.f("str-escapes")
		p := []string{"\"", "\\", "\n", "\r", "\t", "\b", "\f", "\x00", "\x1f", "\x7f", " ", " ", "é", "中", "😀", "�", "</script>", "&", "||", "=", "[", "{", " "}
		var sb strings.Builder
		for k := r.IntN(8); k >= 0; k-- {
			sb.WriteString(p[r.IntN(len(p))])
			if r.IntN(2) == 0 {
				sb.WriteByte(byte('a' + r.IntN(26)))
			}
		}
		return sb.String()
	case 4:
		g.f("str-long")
		if r.IntN(3) == 0 {
			// long and not ASCII: multi-byte characters at every offset modulo any block size
			unit := []string{"é", "中", "😀", "aé", "ab中", "abc😀"}[r.IntN(6)]
			return strings.Repeat("p", r.IntN(4)) + strings.Repeat(unit, (1500+r.IntN(9000))/len(unit)) + "\"end"
		}
		return strings.Repeat("x", 200+r.IntN(3000)) + "\"end"
	}
	b := make([]byte, r.IntN(20))
	for i := range b {
		b[i] = byte(0x20 + r.IntN(0x5f))
	}
	return string(b)
}

var fgInts = []int64{0, 1, -1, 127, -128, 128, 255, 256, 32767, -32768, 65535, 1<<31 - 1, -1 << 31, 1 << 31, 1<<32 - 1, 1 << 32, 1<<53 + 1, -(1<<53 + 1), math.MaxInt64, math.MinInt64, math.MaxInt64 - 1, math.MinInt64 + 1}
var fgUints = []uint64{0, 1, 255, 65535, 1<<32 - 1, 1 << 32, 1<<53 + 1, 1<<63 - 1, 1 << 63, 1<<63 + 1, math.MaxUint64, math.MaxUint64 - 1}

func (g *fgen) i64() int64 {
	if g.r.IntN(2) == 0 {
		g.f("int-boundary")
		return fgInts[g.r.IntN(len(fgInts))]
	}
	return int64(g.r.Uint64())
}
func (g *fgen) u64() uint64 {
	if g.r.IntN(2) == 0 {
		g.f("uint-boundary")
		return fgUints[g.r.IntN(len(fgUints))]
	}
	return g.r.Uint64()
}
func (g *fgen) f64() float64 {
	r := g.r
	switch r.IntN(12) {
	case 0:
		g.f("float-nan")
		return math.NaN()
	case 1:
		g.f("float-inf")
		return math.Inf(1)
	case 2:
		g.f("float-inf")
		return math.Inf(-1)
	case 3:
		g.f("float-negzero")
		return math.Copysign(0, -1)
	case 4:
		g.f("float-extreme")
		return []float64{0, math.MaxFloat64, -math.MaxFloat64, math.SmallestNonzeroFloat64, -math.SmallestNonzeroFloat64, 2.2250738585072014e-308, 2.225073858507201e-308, 1e21, 1e-7, 0.1, 1.0 / 3, 1e308, 123456789012345680000, 5e-324}[r.IntN(14)]
	case 5:
		g.f("float-integral")
		return float64(r.IntN(1000) - 500)
	case 6, 7:
		g.f("float-bits")
		v := math.Float64frombits(r.Uint64())
		if math.IsNaN(v) || math.IsInf(v, 0) {
			return 1.5
		}
		return v
	}
	return (r.Float64() - 0.5) * math.Pow(10, float64(r.IntN(40)-20))
}
func (g *fgen) f32() float32 {
	switch g.r.IntN(6) {
	case 0:
		g.f("float32-special")
		return []float32{math.MaxFloat32, math.SmallestNonzeroFloat32, float32(math.Inf(1)), float32(math.NaN()), -0.0, 0.1}[g.r.IntN(6)]
	case 1:
		v := math.Float32frombits(g.r.Uint32())
		return v
	}
	return float32(g.r.Float64()*2000 - 1000)
}

// scalarAny returns a random value of one of the types Any dispatches on, with the expectation.
func (g *fgen) anyValue() (any, *xnode) {
	r := g.r
	switch r.IntN(48) {
	case 0:
		return nil, xnull()
	case 1:
		v := r.IntN(2) == 0
		return v, &xnode{kind: xBool, b: v}
	case 2:
		if r.IntN(2) == 0 {
			return (*bool)(nil), xnull()
		}
		v := r.IntN(2) == 0
		return &v, &xnode{kind: xBool, b: v}
	case 3:
		v := []bool{true, false, true}[:r.IntN(4)]
		x := &xnode{kind: xArr}
		for _, e := range v {
			x.items = append(x.items, &xnode{kind: xBool, b: e})
		}
		return v, x
	case 4:
		v := int(g.i64())
		return v, xint(int64(v))
	case 5:
		if r.IntN(3) == 0 {
			return (*int)(nil), xnull()
		}
		v := int(g.i64())
		return &v, xint(int64(v))
	case 6:
		var v []int
		x := &xnode{kind: xArr, nilOK: true}
		for k := r.IntN(4); k > 0; k-- {
			e := int(g.i64())
			v = append(v, e)
			x.items = append(x.items, xint(int64(e)))
		}
		if v != nil {
			x.nilOK = false
		}
		return v, x
	case 7:
		v := int8(g.i64())
		return v, xint(int64(v))
	case 8:
		v := int8(g.i64())
		return &v, xint(int64(v))
	case 9:
		v := []int8{int8(g.i64()), -128, 127}
		return v, &xnode{kind: xArr, items: []*xnode{xint(int64(v[0])), xint(-128), xint(127)}}
	case 10:
		v := int16(g.i64())
		return v, xint(int64(v))
	case 11:
		v := int16(g.i64())
		return &v, xint(int64(v))
	case 12:
		v := []int16{int16(g.i64())}
		return v, &xnode{kind: xArr, items: []*xnode{xint(int64(v[0]))}}
	case 13:
		v := int32(g.i64())
		return v, xint(int64(v))
	case 14:
		if r.IntN(3) == 0 {
			return (*int32)(nil), xnull()
		}
		v := int32(g.i64())
		return &v, xint(int64(v))
	case 15:
		v := []int32{int32(g.i64()), math.MinInt32}
		return v, &xnode{kind: xArr, items: []*xnode{xint(int64(v[0])), xint(math.MinInt32)}}
	case 16:
		v := g.i64()
		return v, xint(v)
	case 17:
		if r.IntN(3) == 0 {
			return (*int64)(nil), xnull()
		}
		v := g.i64()
		return &v, xint(v)
	case 18:
		v := []int64{g.i64(), math.MinInt64, math.MaxInt64}
		return v, &xnode{kind: xArr, items: []*xnode{xint(v[0]), xint(math.MinInt64), xint(math.MaxInt64)}}
	case 19:
		v := uint(g.u64())
		return v, xuint(uint64(v))
	case 20:
		if r.IntN(3) == 0 {
			return (*uint)(nil), xnull()
		}
		v := uint(g.u64())
		return &v, xuint(uint64(v))
	case 21:
		v := []uint{uint(g.u64())}
		return v, &xnode{kind: xArr, items: []*xnode{xuint(uint64(v[0]))}}
	case 22:
		v := uint8(g.u64())
		return v, xuint(uint64(v))
	case 23:
		v := uint8(g.u64())
		return &v, xuint(uint64(v))
	case 24:
		v := []uint8{uint8(g.u64()), 0, 255}
		return v, &xnode{kind: xArr, items: []*xnode{xuint(uint64(v[0])), xuint(0), xuint(255)}}
	case 25:
		v := uint16(g.u64())
		return v, xuint(uint64(v))
	case 26:
		v := uint16(g.u64())
		return &v, xuint(uint64(v))
	case 27:
		v := []uint16{uint16(g.u64())}
		return v, &xnode{kind: xArr, items: []*xnode{xuint(uint64(v[0]))}}
	case 28:
		v := uint32(g.u64())
		return v, xuint(uint64(v))
	case 29:
		v := uint32(g.u64())
		return &v, xuint(uint64(v))
	case 30:
		v := []uint32{uint32(g.u64()), math.MaxUint32}
		return v, &xnode{kind: xArr, items: []*xnode{xuint(uint64(v[0])), xuint(math.MaxUint32)}}
	case 31:
		v := g.u64()
		return v, xuint(v)
	case 32:
		if r.IntN(3) == 0 {
			return (*uint64)(nil), xnull()
		}
		v := g.u64()
		return &v, xuint(v)
	case 33:
		v := []uint64{g.u64(), math.MaxUint64}
		return v, &xnode{kind: xArr, items: []*xnode{xuint(v[0]), xuint(math.MaxUint64)}}
	case 34:
		v := g.f32()
		return v, xfloat(float64(v))
	case 35:
		if r.IntN(3) == 0 {
			return (*float32)(nil), xnull()
		}
		v := g.f32()
		return &v, xfloat(float64(v))
	case 36:
		v := []float32{g.f32(), g.f32()}
		return v, &xnode{kind: xArr, items: []*xnode{xfloat(float64(v[0])), xfloat(float64(v[1]))}}
	case 37:
		v := g.f64()
		return v, xfloat(v)
	case 38:
		if r.IntN(3) == 0 {
			return (*float64)(nil), xnull()
		}
		v := g.f64()
		return &v, xfloat(v)
	case 39:
		var v []float64
		x := &xnode{kind: xArr, nilOK: true}
		for k := r.IntN(4); k > 0; k-- {
			e := g.f64()
			v = append(v, e)
			xe := xfloat(e)
			xe.strLike = false
			x.items = append(x.items, xe)
		}
		if v != nil {
			x.nilOK = false
		}
		return v, x
	case 40:
		v := g.str()
		return v, xs(v)
	case 41:
		if r.IntN(3) == 0 {
			return (*string)(nil), xnull()
		}
		v := g.str()
		return &v, xs(v)
	case 42:
		var v []string
		x := &xnode{kind: xArr, nilOK: true}
		for k := r.IntN(4); k > 0; k-- {
			e := g.str()
			v = append(v, e)
			x.items = append(x.items, xs(e))
		}
		if v != nil {
			x.nilOK = false
		}
		return v, x
	}
	// not dispatched: goes through Reflect
	g.f("any-reflect")
	for {
		v := g.reflectValue()
		switch v.(type) {
		case string, []byte, []string: // Any dispatches these to typed constructors
			continue
		}
		return v, xreflect(v)
	}
}

func (g *fgen) reflectValue() any {
	r := g.r
	one := 1
	switch r.IntN(21) {
	case 17:
		// an unsupported TYPE hidden behind an interface inside an ordinary container type: values of the very same Go
		// types ([]any, map[string]any, rStruct) marshal fine elsewhere in the run
		g.f("reflect-error")
		return []any{1, "x", make(chan int)}
	case 18:
		g.f("reflect-error")
		return map[string]any{"ok": true, "fn": func() {}}
	case 19:
		g.f("reflect-error")
		return rStruct{A: 1, B: "b", F: make(chan string)}
	case 0:
		g.f("reflect-struct")
		return rStruct{A: int(g.i64()), B: g.str(), C: []float64{1.5, -2e10}, D: map[string]int{"z": 1, "a": 2}, E: &one, F: []any{1, "x", nil}, G: []byte("bytes\x00"), H: map[string]string{"<": ">"}}
	case 1:
		g.f("reflect-struct")
		return &rStruct{B: "<html>&amp;", F: map[string]any{"n": nil}}
	case 2:
		g.f("reflect-map")
		return map[string]any{"b": 1, "a": []any{true, nil, "s"}, "c": map[string]any{"d": 1.25}, g.str(): g.str()}
	case 3:
		g.f("reflect-slice")
		return []any{1, "two", 3.5, nil, []int{1, 2}, map[string]int{"k": 1}}
	case 4:
		g.f("reflect-marshaler")
		return rMarshaler{js: `{"custom":[1,2,{"x":null}]}`}
	case 5:
		g.f("reflect-error")
		return make(chan int)
	case 6:
		g.f("reflect-error")
		return func() {}
	case 7:
		g.f("reflect-error")
		return rNaN{X: math.NaN()}
	case 8:
		g.f("reflect-error")
		if r.IntN(2) == 0 {
			return rBadMarshaler{msg: "bell\a vtab\v ctl\x01 hi\x80\xff del\x7f " + g.str()}
		}
		return rBadMarshaler{}
	case 9:
		g.f("reflect-error")
		return map[string]any{"ok": 1, "bad": math.Inf(1)}
	case 10:
		return time.Date(2024, 2, 29, 23, 59, 59, 999, time.UTC)
	case 11:
		return "reflected <string> & \"quotes\"\n" + g.str()
	case 12:
		return []byte(g.str())
	case 13:
		return (*rStruct)(nil)
	case 14:
		return map[string]int(nil)
	case 15:
		return []string(nil) // via Reflect: null
	case 16:
		return json.Number("12345678901234567890.5")
	}
	return struct{}{}
}

// container generators; depth counts nesting
func (g *fgen) arrayScript(depth int) (log.ArrayValue, *xnode) {
	r := g.r
	x := &xnode{kind: xArr}
	var ops []func(enc log.Encoder)
	n := r.IntN(5)
	if n == 0 {
		g.f("empty-array")
	}
	for i := 0; i < n; i++ {
		switch k := r.IntN(9); {
		case k == 0:
			v := r.IntN(2) == 0
			ops = append(ops, func(enc log.Encoder) { enc.AppendBool(v) })
			x.items = append(x.items, &xnode{kind: xBool, b: v})
		case k == 1:
			v := g.i64()
			ops = append(ops, func(enc log.Encoder) { enc.AppendInt64(v) })
			x.items = append(x.items, xint(v))
		case k == 2:
			v := g.u64()
			ops = append(ops, func(enc log.Encoder) { enc.AppendUint64(v) })
			x.items = append(x.items, xuint(v))
		case k == 3:
			v := g.f64()
			ops = append(ops, func(enc log.Encoder) { enc.AppendFloat64(v) })
			x.items = append(x.items, xfloat(v))
		case k == 4:
			v := g.str()
			ops = append(ops, func(enc log.Encoder) { enc.AppendString(v) })
			x.items = append(x.items, xs(v))
		case k == 5:
			v := g.reflectValue()
			ops = append(ops, func(enc log.Encoder) { enc.AppendReflect(v) })
			x.items = append(x.items, xreflect(v))
		case k == 6 && depth < 4:
			g.f("array-in-array")
			av, ax := g.arrayScript(depth + 1)
			ops = append(ops, func(enc log.Encoder) {
				enc.AppendArrayBegin()
				av.EncodeArray(enc)
				enc.AppendArrayEnd()
			})
			x.items = append(x.items, ax)
		case k == 7 && depth < 4:
			g.f("object-in-array")
			fs, ms := g.fields(depth+1, 3)
			ops = append(ops, func(enc log.Encoder) {
				enc.AppendObjectBegin()
				log.EncodeFields(enc, fs)
				enc.AppendObjectEnd()
			})
			x.items = append(x.items, membersToObj(ms))
		default:
			v := g.i64()
			ops = append(ops, func(enc log.Encoder) { enc.AppendInt64(v) })
			x.items = append(x.items, xint(v))
		}
	}
	return arrScript{ops: ops}, x
}

func membersToObj(ms []xmember) *xnode {
	o := &xnode{kind: xObj}
	for _, m := range ms {
		o.keys = append(o.keys, string(expectedDecode(nil, m.key)))
		o.vals = append(o.vals, m.x)
	}
	return o
}

// field generates one log.Field (which may expand to several members: FieldsFromMap).
func (g *fgen) field(depth int) (log.Field, []xmember) {
	r := g.r
	k := g.key()
	one := func(x *xnode) []xmember { return []xmember{{k, x}} }
	switch c := r.IntN(34); {
	case c == 0:
		v := r.IntN(2) == 0
		return log.Bool(k, v), one(&xnode{kind: xBool, b: v})
	case c == 1:
		if r.IntN(2) == 0 {
			g.f("nil-ptr")
			return log.BoolPtr(k, nil), one(xnull())
		}
		v := true
		return log.BoolPtr(k, &v), one(&xnode{kind: xBool, b: true})
	case c == 2:
		v := g.i64()
		return log.Int(k, v), one(xint(v))
	case c == 3:
		v := int32(g.i64())
		return log.Int(k, v), one(xint(int64(v)))
	case c == 4:
		if r.IntN(2) == 0 {
			g.f("nil-ptr")
			return log.IntPtr[int16](k, nil), one(xnull())
		}
		v := int8(g.i64())
		return log.IntPtr(k, &v), one(xint(int64(v)))
	case c == 5:
		v := g.u64()
		return log.Uint(k, v), one(xuint(v))
	case c == 6:
		v := uint16(g.u64())
		return log.Uint(k, v), one(xuint(uint64(v)))
	case c == 7:
		if r.IntN(2) == 0 {
			g.f("nil-ptr")
			return log.UintPtr[uint64](k, nil), one(xnull())
		}
		v := g.u64()
		return log.UintPtr(k, &v), one(xuint(v))
	case c == 8 || c == 9:
		v := g.f64()
		return log.Float(k, v), one(xfloat(v))
	case c == 10:
		v := g.f32()
		return log.Float(k, v), one(xfloat(float64(v)))
	case c == 11:
		if r.IntN(2) == 0 {
			g.f("nil-ptr")
			return log.FloatPtr[float64](k, nil), one(xnull())
		}
		v := g.f64()
		return log.FloatPtr(k, &v), one(xfloat(v))
	case c == 12 || c == 13:
		v := g.str()
		return log.String(k, v), one(xs(v))
	case c == 14:
		if r.IntN(2) == 0 {
			g.f("nil-ptr")
			return log.StringPtr(k, nil), one(xnull())
		}
		v := g.str()
		return log.StringPtr(k, &v), one(xs(v))
	case c == 15:
		v := g.str()
		if r.IntN(2) == 0 {
			return log.Msg(v), []xmember{{"msg", xs(v)}}
		}
		return log.Msgf("%s-%d", v, 7), []xmember{{"msg", xs(v + "-7")}}
	case c == 16:
		return log.Nil(k), one(xnull())
	case c == 17 || c == 18:
		g.f("reflect")
		v := g.reflectValue()
		return log.Reflect(k, v), one(xreflect(v))
	case c == 19:
		var v []bool
		x := &xnode{kind: xArr, nilOK: true}
		for n := r.IntN(4); n > 0; n-- {
			e := r.IntN(2) == 0
			v = append(v, e)
			x.items = append(x.items, &xnode{kind: xBool, b: e})
		}
		x.nilOK = v == nil
		if len(v) == 0 {
			g.f("empty-array")
		}
		return log.Bools(k, v), one(x)
	case c == 20:
		v := []int64{g.i64(), g.i64()}
		return log.Ints(k, v), one(&xnode{kind: xArr, items: []*xnode{xint(v[0]), xint(v[1])}})
	case c == 21:
		v := []uint64{g.u64()}
		return log.Uints(k, v), one(&xnode{kind: xArr, items: []*xnode{xuint(v[0])}})
	case c == 22:
		v := []float64{g.f64(), g.f64(), g.f64()}
		return log.Floats(k, v), one(&xnode{kind: xArr, items: []*xnode{xfloat(v[0]), xfloat(v[1]), xfloat(v[2])}})
	case c == 23:
		v := []string{g.str(), g.str()}
		if r.IntN(4) == 0 {
			v = []string{}
			g.f("empty-array")
			return log.Strings(k, v), one(&xnode{kind: xArr})
		}
		return log.Strings(k, v), one(&xnode{kind: xArr, items: []*xnode{xs(v[0]), xs(v[1])}})
	case c == 24 || c == 25:
		g.f("custom-array")
		av, ax := g.arrayScript(depth + 1)
		return log.Array(k, av), one(ax)
	case (c == 26 || c == 27 || c == 28) && depth < 4:
		g.f(fmt.Sprintf("object-depth%d", depth+1))
		fs, ms := g.fields(depth+1, 4)
		if len(fs) == 0 {
			g.f("empty-object")
		}
		return log.Object(k, fs...), one(membersToObj(ms))
	case c == 29 || c == 30:
		g.f("fields-from-map")
		m := map[string]any{}
		exp := map[string]*xnode{}
		for n := r.IntN(5); n > 0; n-- {
			mk := g.key()
			v, x := g.anyValue()
			m[mk] = v
			exp[mk] = x
		}
		keys := make([]string, 0, len(m))
		for mk := range m {
			keys = append(keys, mk)
		}
		sort.Strings(keys)
		var ms []xmember
		for _, mk := range keys {
			ms = append(ms, xmember{mk, exp[mk]})
		}
		return log.FieldsFromMap(m), ms
	default:
		g.f("any")
		v, x := g.anyValue()
		return log.Any(k, v), one(x)
	}
}

func (g *fgen) fields(depth, max int) ([]log.Field, []xmember) {
	n := g.r.IntN(max + 1)
	var fs []log.Field
	var ms []xmember
	for i := 0; i < n; i++ {
		f, m := g.field(depth)
		fs = append(fs, f)
		ms = append(ms, m...)
	}
	return fs, ms
}

// fixing strLike for nested nodes is not needed: only top-level members are consulted for the text layout.

type genEvent struct {
	Level     log.Level
	Time      time.Time
	File      string
	Line      int
	Tag       string
	CtxString string
	CtxFields []log.Field
	Fields    []log.Field
	ctxM, fM  []xmember
	feats     map[string]bool
}

// fgHostileLevels is set by the C07 worker (the text layout's header is outside C08's no-control-character clause).
var fgHostileLevels bool

var (
	fgLevelsOnce bool
	fgLevels     []log.Level
)

func fgAllLevels() []log.Level {
	if !fgLevelsOnce {
		fgLevelsOnce = true
		fgLevels = []log.Level{log.NoneLevel, log.TraceLevel, log.DebugLevel, log.InfoLevel, log.WarnLevel, log.ErrorLevel, log.PanicLevel, log.FatalLevel,
			log.RegisterLevel(350, "Notice"), log.RegisterLevel(50, "fine"), log.RegisterLevel(1500, "AUDIT_X"),
			// alias levels: another name for a code that is already taken (filtered like INFO / WARN, shown under their own name)
			log.RegisterLevel(300, "audit"), log.RegisterLevel(400, "Warning")}
		if fgHostileLevels {
			// user-registered level names are arbitrary strings: the JSON line must stay one valid object whatever they contain
			fgLevels = append(fgLevels, log.RegisterLevel(1601, "ESC\x1b[0m"), log.RegisterLevel(1602, "nul\x00x"), log.RegisterLevel(1603, "del\x7f"),
				log.RegisterLevel(1604, "q\"uo\te\\"), log.RegisterLevel(1605, "bad\xffutf"), log.RegisterLevel(1606, "ls\u2028\U000f0001"), log.RegisterLevel(1607, "bel\a\vvt"))
		}
	}
	return fgLevels
}

func (g *fgen) event() *genEvent {
	r := g.r
	g.feats = map[string]bool{}
	e := &genEvent{}
	lv := fgAllLevels()
	e.Level = lv[r.IntN(len(lv))]
	zone := time.FixedZone("z", (r.IntN(27)-12)*3600+r.IntN(4)*900)
	switch r.IntN(6) {
	case 0:
		e.Time = time.Date(1+r.IntN(9999), time.Month(1+r.IntN(12)), 1+r.IntN(28), r.IntN(24), r.IntN(60), r.IntN(60), r.IntN(1e9), zone)
	case 1:
		e.Time = time.Date(9999, 12, 31, 23, 59, 59, 999999999, time.UTC)
	case 2:
		e.Time = time.Date(1, 1, 1, 0, 0, 0, 0, time.UTC)
	default:
		e.Time = time.Unix(int64(r.IntN(2_000_000_000)), int64(r.IntN(1e9))).In(zone)
	}
	fl := r.IntN(60)
	if r.IntN(5) == 0 {
		fl = r.IntN(301)
	}
	fb := make([]byte, fl)
	for i := range fb {
		fb[i] = "abcdefghijklmnopqrstuvwxyz/_-.0123456789"[r.IntN(40)]
	}
	e.File = string(fb)
	e.Line = []int{0, 1, 9, 10, 99, 1000, 65535, 65536, 123456, 9999999999, 10000000000, 12345678901, math.MaxInt64, -1, math.MinInt64}[r.IntN(15)]
	if r.IntN(3) == 0 {
		// ordinary line numbers, dense around powers of two and ten (tables of precomputed decimal forms end somewhere)
		k := []int{64, 100, 128, 256, 512, 1000, 1024, 2048, 4096, 8192, 10000, 16384, 32768, 100000, 1 << 20}[r.IntN(15)]
		e.Line = k + r.IntN(5) - 2
	}
	e.Tag = []string{"_def", "_app_def", "abc", "a_b_c_d", "_com_request_in", "x1_y2"}[r.IntN(6)]
	if r.IntN(3) == 0 {
		e.CtxString = []string{"trace-0a88", "ctx string with spaces", "req=1;user=2", "ünï"}[r.IntN(4)]
		g.f("ctxstring")
	}
	if r.IntN(3) == 0 {
		e.CtxFields, e.ctxM = g.fields(0, 3)
		if len(e.CtxFields) > 0 {
			g.f("ctxfields")
		}
	}
	e.Fields, e.fM = g.fields(0, 6)
	if r.IntN(120) == 0 {
		// an event whose line exceeds the default buffer cap (10 KB): pooled formatting state that is dropped or
		// swapped for oversized lines is then exercised by the events that follow in the same process
		big := strings.Repeat("big-"+strconv.Itoa(r.IntN(1000))+" ", 1500+r.IntN(4000))
		e.Fields = append(e.Fields[:len(e.Fields):len(e.Fields)], log.String("bigfield", big))
		e.fM = append(e.fM[:len(e.fM):len(e.fM)], xmember{"bigfield", xs(big)})
		g.f("oversized-line")
	}
	if len(e.Fields) == 0 && len(e.CtxFields) == 0 {
		g.f("no-fields")
	}
	e.feats = g.feats
	return e
}

func (e *genEvent) toEvent() *log.Event {
	return &log.Event{Level: e.Level, Time: e.Time, File: e.File, Line: e.Line, Tag: e.Tag, Fields: e.Fields, CtxString: e.CtxString, CtxFields: e.CtxFields}
}

func (e *genEvent) featKey() string {
	ks := make([]string, 0, len(e.feats))
	for k := range e.feats {
		ks = append(ks, k)
	}
	sort.Strings(ks)
	return strings.Join(ks, "+")
}

func expectedFileLine(file string, line, w int) string {
	fl := file + ":" + strconv.Itoa(line)
	if len(fl) <= w {
		return fl
	}
	keep := w - 3
	if keep < 0 {
		keep = 0
	}
	return "..." + fl[len(fl)-keep:]
}
